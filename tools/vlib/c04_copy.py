"""C04 canaries, part 3: whole-value copies between every pair of locations.

Generated contracts declare, for a value type T (DynArray of words / structs / byte strings / DynArrays, Bytes, String,
structs and static arrays containing them):  canary, destination, canary, source, canary  in storage and in transient
storage, an immutable of type T, and functions that copy a whole T value
    calldata / memory / storage / transient / immutable  ->  storage / transient / memory
(the memory destination sits between two canary locals).  Values have lengths 0, 1, cap-1, cap (byte strings 0, 31, 32,
33, cap) at every dynamic level; shorter values are written over full ones.
Oracle (model-free): after every copy (1) all state read back (destination, source, canaries) equals the python value
model, (2) the raw journal diff of the call lies inside the destination's reported slot range and the other address
space is untouched, (3) inside that range only the words of the value's live prefix changed (DynArray destination: length word and
the elements below the length; other values are legitimately copied whole)."""
import warnings

from .c04_canary2 import w
from .c10_glue import journal


class Ty:
    def __init__(self, kind, **kw):
        self.kind = kind
        self.__dict__.update(kw)

    def src(self):
        k = self.kind
        if k == "word":
            return "uint256"
        if k == "bytes":
            return f"{'String' if self.string else 'Bytes'}[{self.n}]"
        if k == "darr":
            return f"DynArray[{self.t.src()}, {self.n}]"
        if k == "sarr":
            return f"{self.t.src()}[{self.n}]"
        return self.name

    def abi(self):
        k = self.kind
        if k == "word":
            return "uint256"
        if k == "bytes":
            return "string" if self.string else "bytes"
        if k == "darr":
            return self.t.abi() + "[]"
        if k == "sarr":
            return f"{self.t.abi()}[{self.n}]"
        return "(" + ",".join(m.abi() for _, m in self.members) + ")"

    def words(self):
        k = self.kind
        if k == "word":
            return 1
        if k == "bytes":
            return 1 + (self.n + 31) // 32
        if k == "darr":
            return 1 + self.n * self.t.words()
        if k == "sarr":
            return self.n * self.t.words()
        return sum(m.words() for _, m in self.members)

    def structs(self, acc):
        if self.kind in ("darr", "sarr"):
            self.t.structs(acc)
        elif self.kind == "struct":
            for _, m in self.members:
                m.structs(acc)
            if self.name not in [s.name for s in acc]:
                acc.append(self)

    def has_dynamic(self):
        k = self.kind
        if k in ("bytes", "darr"):
            return True
        if k == "sarr":
            return self.t.has_dynamic()
        if k == "struct":
            return any(m.has_dynamic() for _, m in self.members)
        return False

    def lens(self):
        """interesting lengths of this dynamic level"""
        if self.kind == "bytes":
            return sorted({x for x in (0, 1, 31, 32, 33, self.n - 1, self.n) if 0 <= x <= self.n})
        return sorted({x for x in (0, 1, self.n - 1, self.n) if 0 <= x <= self.n})

    def value(self, rnd, mode):
        """mode: requested length at the top dynamic levels ('cap', 'zero', 'one', 'capm1', 'rand')"""
        k = self.kind
        if k == "word":
            return rnd.randrange(1, 2**256)
        if k in ("bytes", "darr"):
            ln = {"cap": self.n, "zero": 0, "one": min(1, self.n), "capm1": self.n - 1}.get(mode)
            if ln is None:
                ln = rnd.choice(self.lens())
            if k == "bytes":
                body = bytes(rnd.choice(b"abcdefghijklmnopqrstuvwxyz") for _ in range(ln))
                return body.decode() if self.string else body
            inner = mode if mode == "cap" else rnd.choice(["cap", "cap", "rand"])
            return [self.t.value(rnd, inner) for _ in range(ln)]
        if k == "sarr":
            return [self.t.value(rnd, mode) for _ in range(self.n)]
        return tuple(m.value(rnd, mode) for _, m in self.members)

    def live(self, v):
        """word offsets (inside a storage value of this type) that a copy of v may write: for a DynArray destination the
        length word and the elements below the length; everything else is legitimately copied as a whole, statically
        sized value (structs, elements of arrays, short byte strings)"""
        if self.kind == "darr":
            return set(range(0, 1 + len(v) * self.t.words()))
        return set(range(0, self.words()))


U = Ty("word")


def type_families(rnd):
    """one type per family; every run covers every family"""
    P = Ty("struct", name="P", members=[("a", U), ("s", Ty("bytes", n=rnd.choice([5, 33]), string=False)), ("b", U)])
    Q = Ty("struct", name="Q", members=[("a", U), ("b", U)])
    fam_darr = [
        Ty("darr", t=U, n=rnd.randint(1, 4)),
        Ty("darr", t=rnd.choice([P, Q]), n=rnd.randint(1, 3)),
        Ty("darr", t=Ty("darr", t=U, n=rnd.randint(1, 3)), n=rnd.randint(1, 3)),
        Ty("darr", t=Ty("bytes", n=rnd.choice([5, 32, 33]), string=rnd.random() < 0.5), n=rnd.randint(1, 3)),
        Ty("darr", t=Ty("sarr", t=U, n=2), n=rnd.randint(1, 3)),
    ]
    fam_bytes = [Ty("bytes", n=rnd.choice([1, 31, 32, 33, 40, 64, 70]), string=rnd.random() < 0.4)]
    S = Ty("struct", name="S", members=[("x", U), ("d", Ty("darr", t=U, n=rnd.randint(1, 3))),
                                        ("s", Ty("bytes", n=rnd.choice([31, 33, 64]), string=rnd.random() < 0.5)), ("y", U)])
    fam_nested = [S, Ty("sarr", t=Ty("darr", t=U, n=rnd.randint(1, 3)), n=2), Ty("darr", t=S, n=2),
                  Ty("sarr", t=P, n=2)]
    return [rnd.choice(fam_darr), rnd.choice(fam_darr), rnd.choice(fam_nested), rnd.choice(fam_bytes)]


SRCS = ["c", "m", "s", "t", "i"]


def source(T, transient_ok):
    t = T.src()
    L = []
    defs = []
    T.structs(defs)
    for s in defs:
        L.append(f"struct {s.name}:\n" + "\n".join(f"    {n}: {m.src()}" for n, m in s.members))
    L += ["c0: uint256", f"dst_s: {t}", "c1: uint256", f"src_s: {t}", "c2: uint256"]
    if transient_ok:
        L += ["tc0: transient(uint256)", f"dst_t: transient({t})", "tc1: transient(uint256)", f"src_t: transient({t})",
              "tc2: transient(uint256)"]
    L.append(f"IMM: immutable({t})")
    L.append(f"@deploy\ndef __init__(v: {t}, k0: uint256, k1: uint256, k2: uint256):\n    IMM = v\n    self.c0 = k0\n    self.c1 = k1\n    self.c2 = k2")
    L.append(f"@external\n@view\ndef dump() -> (uint256, {t}, uint256, {t}, uint256):\n    return self.c0, self.dst_s, self.c1, self.src_s, self.c2")
    L.append(f"@external\ndef set_src_s(v: {t}):\n    self.src_s = v")
    locs = ["s"]
    if transient_ok:
        locs.append("t")
        L.append("@external\ndef setup_t(k0: uint256, k1: uint256, k2: uint256):\n    self.tc0 = k0\n    self.tc1 = k1\n    self.tc2 = k2")
        L.append(f"@external\n@view\ndef dump_t() -> (uint256, {t}, uint256, {t}, uint256):\n    return self.tc0, self.dst_t, self.tc1, self.src_t, self.tc2")
        L.append(f"@external\ndef set_src_t(v: {t}):\n    self.src_t = v")
    rhs = {"c": "v", "m": "m", "s": "self.src_s", "t": "self.src_t", "i": "IMM"}
    for d in locs:
        for s in SRCS:
            if s == "t" and not transient_ok:
                continue
            arg = f"v: {t}" if s in "cm" else ""
            pre = f"    m: {t} = v\n" if s == "m" else ""
            L.append(f"@external\ndef cp_{s}_{d}({arg}):\n{pre}    self.dst_{d} = {rhs[s]}")
    for s in SRCS:
        if s == "t" and not transient_ok:
            continue
        arg = f"v: {t}, " if s in "cm" else ""
        pre = f"    m: {t} = v\n" if s == "m" else ""
        L.append(f"@external\ndef cpm_{s}({arg}k0: uint256, k1: uint256) -> (uint256, {t}, uint256):\n{pre}    a: uint256 = k0\n"
                 f"    d: {t} = empty({t})\n    b: uint256 = k1\n    d = {rhs[s]}\n    return a, d, b")
    return "\n".join(L) + "\n"


MODES = ["cap", "zero", "cap", "one", "capm1", "rand", "cap"]


def run(ctx, cfgs, n_types=None):
    from eth_abi import encode
    from vyper.exceptions import VyperException
    from vyper.utils import method_id
    from .configs import compile_src
    from .evm import Chain
    rnd = ctx.rng("copy")
    types = type_families(rnd)
    if n_types is not None:
        types = types[:n_types]
    n_cases = 0
    stats = {"copies_to_storage": 0, "copies_to_transient": 0, "copies_to_memory": 0, "types": [t.src() for t in types],
             "skipped": [], "configs": [c.name for c in cfgs]}
    for T in types:
        abi = T.abi()
        for cfg in cfgs:
            tr_ok = cfg.evm in ("cancun", "prague")
            src = source(T, tr_ok)
            base = {"source": src, "config": cfg.name, "type": T.src()}
            with warnings.catch_warnings():
                warnings.simplefilter("ignore")
                try:
                    out = compile_src(src, cfg, formats=("bytecode", "layout"))
                except VyperException as e:
                    stats["skipped"].append(f"{T.src()}@{cfg.name}: {type(e).__name__} {str(e)[:80]}")
                    continue
                except Exception as e:
                    ctx.violation("correspondence-broken", f"compiler raised {type(e).__name__} on a valid copy-canary contract",
                                  dict(base, error=str(e)[:300]))
                    return n_cases, True
            layout = out["layout"]
            imm = T.value(rnd, "cap")
            K = [rnd.randrange(1, 2**256) for _ in range(3)]
            TK = [rnd.randrange(1, 2**256) for _ in range(3)]
            ch = Chain(cfg.evm)
            addr = ch.deploy(bytes.fromhex(out["bytecode"][2:]) + encode([abi, "uint256", "uint256", "uint256"], [imm] + K))
            if addr is None:
                ctx.violation("correspondence-broken", "copy-canary contract failed to deploy", base)
                return n_cases, True
            zero = T.value(rnd, "zero") if T.kind in ("bytes", "darr") else None
            empty = _empty(T)
            state = {"s": {"dst": empty, "src": empty, "k": K}, "t": {"dst": empty, "src": empty, "k": TK}}
            if tr_ok:
                r = ch.call(addr, method_id("setup_t(uint256,uint256,uint256)") + encode(["uint256"] * 3, TK))
                if not r.ok:
                    ctx.violation("correspondence-broken", "copy-canary setup reverted", base)
                    return n_cases, True

            def where(name, space):
                e = layout["transient_storage_layout" if space == "t" else "storage_layout"][name]
                return e["slot"], e["n_slots"]

            def check(call, data, space, var, value, detail):
                """perform a state-changing call that copies `value` into `var` of `space`; all three oracles"""
                pre_st, pre_tr = journal(ch, addr)
                r = ch.call(addr, method_id(call) + data)
                post_st, post_tr = journal(ch, addr)
                detail = dict(base, call=call, value=repr(value)[:600], destination=f"{var} ({'transient' if space == 't' else 'storage'})", **detail)
                if not r.ok:
                    ctx.violation("failing-input", "whole-value copy of an in-bounds value reverted", detail)
                    return False
                ch_st = {s for s, (orig, present) in post_st.items() if present != (pre_st[s][1] if s in pre_st else orig)}
                ch_tr = {s for s in set(post_tr) | set(pre_tr) if post_tr.get(s, 0) != pre_tr.get(s, 0)}
                changed, other = (ch_st, ch_tr) if space == "s" else (ch_tr, ch_st)
                slot, ns = where(var, space)
                detail.update(reported={"slot": slot, "n_slots": ns}, changed=sorted(changed), other_space=sorted(other))
                state[space][var[:3]] = value
                for sp in (["s", "t"] if tr_ok else ["s"]):
                    st = state[sp]
                    g = ch.call(addr, method_id("dump()" if sp == "s" else "dump_t()"))
                    want = encode(["uint256", abi, "uint256", abi, "uint256"], [st["k"][0], st["dst"], st["k"][1], st["src"], st["k"][2]])
                    if not g.ok or g.out != want:
                        ctx.violation("failing-input", "whole-value copy: state read back afterwards (canary, destination, canary, source, canary) "
                                      "differs from the value model", dict(detail, space=sp, expected=want.hex(), observed=g.out.hex() if g.ok else "revert"))
                        return False
                outside = [s for s in changed if not slot <= s < slot + ns]
                if outside or other:
                    ctx.violation("failing-input", "whole-value copy wrote words outside the destination's reported slot range", dict(detail, outside=outside))
                    return False
                live = {slot + o for o in T.live(value)}
                if not changed <= live:
                    ctx.violation("failing-input", "whole-value copy changed words of the destination beyond the live prefix of the copied value",
                                  dict(detail, beyond=sorted(changed - live)))
                    return False
                return True

            for d in (["s", "t"] if tr_ok else ["s"]):
                for s in SRCS:
                    if s == "t" and not tr_ok:
                        continue
                    for mode in (MODES if s != "i" else ["cap"]):
                        if not T.has_dynamic() and mode not in ("cap", "rand"):
                            continue
                        v = imm if s == "i" else T.value(rnd, mode)
                        if s in "st":
                            if not check(f"set_src_{s}({abi})", encode([abi], [v]), s, f"src_{s}", v, {"step": "fill the source"}):
                                return n_cases, True
                        sig = f"cp_{s}_{d}({abi})" if s in "cm" else f"cp_{s}_{d}()"
                        data = encode([abi], [v]) if s in "cm" else b""
                        if not check(sig, data, d, f"dst_{d}", v, {"source_location": s, "length_mode": mode}):
                            return n_cases, True
                        n_cases += 1
                        stats["copies_to_storage" if d == "s" else "copies_to_transient"] += 1
            # memory destination between two canary locals
            for s in SRCS:
                if s == "t" and not tr_ok:
                    continue
                for mode in (["cap", "zero", "capm1", "rand"] if s in "cm" else ["cur"]):
                    if s in "cm":
                        v = T.value(rnd, mode)
                        sig, data = f"cpm_{s}({abi},uint256,uint256)", encode([abi, "uint256", "uint256"], [v, K[0], K[1]])
                    else:
                        v = imm if s == "i" else state[s]["src"]
                        sig, data = f"cpm_{s}(uint256,uint256)", encode(["uint256", "uint256"], [K[0], K[1]])
                    g = ch.call(addr, method_id(sig) + data)
                    want = encode(["uint256", abi, "uint256"], [K[0], v, K[1]])
                    n_cases += 1
                    stats["copies_to_memory"] += 1
                    if not g.ok or g.out != want:
                        ctx.violation("failing-input", "whole-value copy into a memory variable: (canary local, destination, canary local) differs "
                                      "from (k0, source value, k1)", dict(base, call=sig, value=repr(v)[:600], expected=want.hex(),
                                                                       observed=g.out.hex() if g.ok else "revert"))
                        return n_cases, True
    ctx.corr["copy_canaries"] = stats
    return n_cases, False


def _empty(T):
    k = T.kind
    if k == "word":
        return 0
    if k == "bytes":
        return "" if T.string else b""
    if k == "darr":
        return []
    if k == "sarr":
        return [_empty(T.t) for _ in range(T.n)]
    return tuple(_empty(m) for _, m in T.members)
