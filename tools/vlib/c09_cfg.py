"""C09 exit-path placement: export control-flow graphs of real compiler output (Venom runtime IR after
all passes / legacy IR tree) with lock-relevant instruction classes, plus a lock-state labelling
(certificate) that the Coq checker (coq/C09/ExitCheck.v, proved sound) verifies.

Trusted here (not proved): this exporter -- opcode classification, edge extraction, and for legacy the
linearisation of the IR tree (seq/if/repeat/goto/label/exit_to) into blocks."""


from vlib.coqrun import hexlit


class Unclassifiable(Exception):
    pass


class Block:
    def __init__(self, name=""):
        self.name = name
        self.ins = []       # "L" "U" "C" "O" ; ("call", callee) placeholders resolved later
        self.term = None    # ("jump", [targets]) | ("exit",) | ("ret",) | ("abort",)
        self.raw = []       # printed instructions for the rich export (coq/C09/RichCfg.v)


def classify_store(key, val, slot, temp, final):
    """key/val: int or None (not a literal).  Returns L/U/O."""
    if key is None:
        # dynamic key (mapping/array access): assumed not to alias the lock slot (C10)
        return "O?"
    if key != slot:
        return "O"
    if val == temp:
        return "L"
    if val == final:
        return "U"
    raise Unclassifiable(f"store to the lock slot {slot} of value {val}")


# ------------------------------------------------------------------ venom
def venom_functions(ctx, lock_op, slot, temp, final):
    """-> dict name -> list[Block] (entry first), with ('call', name) placeholders"""
    from vyper.venom.basicblock import IRLabel, IRLiteral, IRVariable

    out = {}
    fn_idx = {fn.name.value: i for i, fn in enumerate(ctx.functions.values())}
    for fn in ctx.functions.values():
        defs = {}
        for bb in fn.get_basic_blocks():
            for inst in bb.instructions:
                for o in inst.get_outputs():
                    defs[o.name] = inst

        def lit(o, depth=0):
            if isinstance(o, IRLiteral):
                return o.value
            if isinstance(o, IRVariable) and depth < 20:
                d = defs.get(o.name)
                if d is not None and d.opcode == "assign":
                    return lit(d.operands[0], depth + 1)
            return None

        bbs = list(fn.get_basic_blocks())
        entry = fn.entry
        bbs = [entry] + [b for b in bbs if b is not entry]
        idx = {b.label.value: i for i, b in enumerate(bbs)}
        blocks = []
        var_ids = {}

        def arg(o):
            if isinstance(o, IRLiteral):
                return f"ALit {hexlit(o.value)}"
            if isinstance(o, IRVariable):
                return f"AVar {var_ids.setdefault(o.name, len(var_ids))}%N"
            if isinstance(o, IRLabel):
                if o.value in idx:
                    return f"ALab {idx[o.value]}%N"
                if o.value in fn_idx:
                    return f"ALab {fn_idx[o.value]}%N"
                return "ALab 4000000000%N"
            raise Unclassifiable(f"operand {o!r}")

        for bb in bbs:
            B = Block(bb.label.value)
            for inst in bb.instructions:
                op = inst.opcode
                outs = inst.get_outputs()
                o_ = f"Some {var_ids.setdefault(outs[0].name, len(var_ids))}%N" if len(outs) == 1 else "None"
                B.raw.append(f'mkI ({o_}) "{op}" [' + "; ".join(arg(x) for x in inst.operands) + "]")
                if op == lock_op:
                    B.ins.append(classify_store(lit(inst.operands[1]), lit(inst.operands[0]), slot, temp, final))
                elif op == "invoke":
                    callee = inst.operands[0]
                    assert isinstance(callee, IRLabel)
                    B.ins.append(("call", callee.value))
                elif op in ("jmp", "jnz", "djmp"):
                    B.term = ("jump", [idx[l.value] for l in inst.get_label_operands()])
                elif op in ("ret", "dret", "retfmp"):
                    B.term = ("ret",)
                elif op in ("return", "stop", "selfdestruct"):
                    B.term = ("exit",)
                elif op in ("revert", "invalid"):
                    B.term = ("abort",)
                elif op == "sink":
                    B.term = ("exit",)
                else:
                    B.ins.append("O")
            if B.term is None:
                raise Unclassifiable(f"block {bb.label} has no terminator")
            blocks.append(B)
        out[fn.name.value] = blocks
    return out


# ------------------------------------------------------------------ legacy
class LegacyLin:
    def __init__(self, lock_op, slot, temp, final):
        self.lock_op, self.slot, self.temp, self.final = lock_op, slot, temp, final
        self.blocks = []
        self.by_name = {}
        self.loops = []
        self.cur = self.new_block("entry")
        self.n = 0

    def new_block(self, name=""):
        b = Block(name)
        self.blocks.append(b)
        return b

    def fresh(self, s):
        self.n += 1
        return f"${s}{self.n}"

    def named(self, name):
        if name not in self.by_name:
            b = Block(name)
            self.by_name[name] = b
        return self.by_name[name]

    def start(self, b):
        """begin emitting into b (falling through from the current block if it is open)"""
        if self.cur.term is None:
            self.cur.term = ("jump", [b])
        if b not in self.blocks:
            self.blocks.append(b)
        self.cur = b

    def terminate(self, term):
        if self.cur.term is None:
            self.cur.term = term
        self.cur = self.new_block("dead")

    def walk(self, n):
        v, args = n.value, n.args
        if isinstance(v, int):
            return
        if v == "seq":
            for a in args:
                self.walk(a)
        elif v == "if":
            self.walk(args[0])
            then_b, join = Block(self.fresh("then")), Block(self.fresh("join"))
            else_b = Block(self.fresh("else")) if len(args) == 3 else join
            self.cur.term = self.cur.term or ("jump", [then_b, else_b])
            self.blocks.append(then_b)
            self.cur = then_b
            self.walk(args[1])
            if self.cur.term is None:
                self.cur.term = ("jump", [join])
            if len(args) == 3:
                self.blocks.append(else_b)
                self.cur = else_b
                self.walk(args[2])
                if self.cur.term is None:
                    self.cur.term = ("jump", [join])
            self.blocks.append(join)
            self.cur = join
        elif v == "repeat":
            for a in args[1:-1]:
                self.walk(a)
            head, body, incr, exit_ = (Block(self.fresh(s)) for s in ("head", "body", "incr", "exit"))
            self.start(head)
            head.term = ("jump", [body, exit_])
            self.blocks.append(body)
            self.cur = body
            self.loops.append((incr, exit_))
            self.walk(args[-1])
            self.loops.pop()
            self.start(incr)
            incr.term = ("jump", [head, exit_])
            self.blocks.append(exit_)
            self.cur = exit_
        elif v == "break":
            self.terminate(("jump", [self.loops[-1][1]]))
        elif v == "continue":
            self.terminate(("jump", [self.loops[-1][0]]))
        elif v == "goto":
            for a in args[1:]:
                self.walk(a)
            target = args[0].value
            if len(args) > 1 and args[-1].value == "symbol" and str(target).startswith("internal"):
                self.cur.ins.append(("call", target))   # internal call; control continues at the return label
                self.cur.raw.append(("call", target))
            else:
                self.terminate(("jump", [self.named(target)]))
        elif v == "exit_to":
            for a in args[1:]:
                self.walk(a)
            if args[0].value == "return_pc":
                self.terminate(("ret",))
            else:
                self.terminate(("jump", [self.named(args[0].value)]))
        elif v == "jump":
            self.terminate(("ret",))
        elif v == "djump":
            self.walk(args[0])
            self.terminate(("jump", [self.named(a.value) for a in args[1:]]))
        elif v == "label":
            b = self.named(args[0].value)
            self.start(b)
            self.walk(args[2])
        elif v in ("return", "stop", "selfdestruct"):
            for a in args:
                self.walk(a)
            self.terminate(("exit",))
        elif v in ("revert", "invalid"):
            for a in args:
                self.walk(a)
            self.terminate(("abort",))
        elif v == self.lock_op:
            k = args[0].value if (isinstance(args[0].value, int) and not args[0].args) else None
            val = args[1].value if (isinstance(args[1].value, int) and not args[1].args) else None
            for a in args:
                self.walk(a)
            self.cur.ins.append(classify_store(k, val, self.slot, self.temp, self.final))
            lit = lambda x: f"ALit {hexlit(x)}" if x is not None else "AVar 0%N"  # noqa
            self.cur.raw.append(f'mkI None "{self.lock_op}" [{lit(val)}; {lit(k)}]')
        elif v == "with":
            self.walk(args[1])
            self.walk(args[2])
        elif v in ("symbol", "var_list", "data", "unique_symbol", "pass", "dummy", "cleanup_repeat"):
            return
        elif v == "deploy":
            raise Unclassifiable("deploy node in runtime IR")
        else:
            for a in args:
                self.walk(a)
            self.cur.ins.append("O")


def legacy_functions(ir_runtime, lock_op, slot, temp, final):
    lin = LegacyLin(lock_op, slot, temp, final)
    lin.walk(ir_runtime)
    if lin.cur.term is None:
        lin.cur.term = ("exit",)   # falling off the end of the code = STOP
    for name, b in lin.by_name.items():
        if b not in lin.blocks:
            raise Unclassifiable(f"jump to undefined label {name}")
    for b in lin.blocks:
        if b.term is None:
            b.term = ("abort",)     # open dead block
    idx = {id(b): i for i, b in enumerate(lin.blocks)}
    for b in lin.blocks:
        if b.term[0] == "jump":
            b.term = ("jump", [idx[id(t)] for t in b.term[1]])
    roots = {"runtime": 0}
    for name, b in lin.by_name.items():
        if str(name).startswith("internal") and not any(name.endswith(s) for s in ("_cleanup",)) and "_call" not in name.split(")")[-1]:
            roots[name] = idx[id(b)]
    return lin.blocks, roots


# ------------------------------------------------------------------ common
def reachable(blocks, root):
    order, seen, todo = [], set(), [root]
    while todo:
        i = todo.pop()
        if i in seen:
            continue
        seen.add(i)
        order.append(i)
        t = blocks[i].term
        if t[0] == "jump":
            todo.extend(reversed(t[1]))
    return order


def extract(blocks, root):
    order = reachable(blocks, root)
    ren = {o: i for i, o in enumerate(order)}
    out = []
    for o in order:
        b = blocks[o]
        nb = Block(b.name)
        nb.ins = list(b.ins)
        nb.raw = list(b.raw)
        nb.term = ("jump", [ren[t] for t in b.term[1]]) if b.term[0] == "jump" else b.term
        out.append(nb)
    return out


def resolve_calls(funcs):
    """funcs: name -> blocks.  Replace ('call', name) by C (callee touches the lock) or O."""
    has = {}
    for name, blocks in funcs.items():
        has[name] = any(i in ("L", "U") for b in blocks for i in b.ins)
    changed = True
    while changed:
        changed = False
        for name, blocks in funcs.items():
            if has[name]:
                continue
            for b in blocks:
                for i in b.ins:
                    if isinstance(i, tuple) and has.get(i[1], None):
                        has[name] = True
                        changed = True
    n_unknown = 0
    for name, blocks in funcs.items():
        for b in blocks:
            new = []
            for i in b.ins:
                if isinstance(i, tuple):
                    if i[1] not in has:
                        raise Unclassifiable(f"call to unknown function {i[1]}")
                    new.append("C" if has[i[1]] else "O")
                elif i == "O?":
                    n_unknown += 1
                    new.append("O")
                else:
                    new.append(i)
            b.ins = new
    return has, n_unknown


def tr(a, i):
    if i == "L":
        return None if a else True
    if i == "U":
        return False
    if i == "C":
        return None if a else False
    return a


def label(blocks):
    """certificate: set of possible lock states (may_free, may_held) at entry of each block (Coq re-checks)"""
    lab = [[False, False] for _ in blocks]
    lab[0][0] = True
    todo = [(0, False)]
    while todo:
        i, a = todo.pop()
        for k in blocks[i].ins:
            a = tr(a, k)
            if a is None:
                break
        if a is None:
            continue
        if blocks[i].term[0] == "jump":
            for t in blocks[i].term[1]:
                if not lab[t][int(a)]:
                    lab[t][int(a)] = True
                    todo.append((t, a))
    return lab


IK = {"L": "ILock", "U": "IUnlock", "C": "ICallLock", "O": "IOther"}


def compress(ins):
    """drop IOther (no effect on the abstract state) to keep terms small -- keep one if the block is otherwise empty"""
    return [i for i in ins if i != "O"]


def coq_cfg(blocks, lab):
    bs = []
    for b in blocks:
        t = b.term
        term = {"exit": "TExit", "ret": "TRet", "abort": "TAbort"}.get(t[0]) or \
            "TJump [" + "; ".join(f"{x}%nat" for x in t[1]) + "]"
        bs.append("mkB [" + "; ".join(IK[i] for i in compress(b.ins)) + f"] ({term})")
    ls = "; ".join(f"({'true' if x[0] else 'false'}, {'true' if x[1] else 'false'})" for x in lab)
    return "([" + "; ".join(bs) + "], [" + ls + "])"


def stats(blocks):
    return {
        "blocks": len(blocks),
        "locks": sum(b.ins.count("L") for b in blocks),
        "unlocks": sum(b.ins.count("U") for b in blocks),
        "calllocks": sum(b.ins.count("C") for b in blocks),
        "exits": sum(1 for b in blocks if b.term[0] == "exit"),
        "rets": sum(1 for b in blocks if b.term[0] == "ret"),
    }


# ------------------------------------------------------------------ rich export (coq/C09/RichCfg.v)
def rich_program(funcs, legacy):
    """funcs: name -> blocks (entry first).  Returns the Coq rprogram term; for legacy blocks the terminator is
    synthesised from the linearised CFG and internal calls are printed as invoke of the function index."""
    names = list(funcs)
    fidx = {n: i for i, n in enumerate(names)}
    fs = []
    for n in names:
        bs = []
        for b in funcs[n]:
            if not legacy:
                bs.append("[" + "; ".join(b.raw) + "]")
                continue
            ins = []
            for r in b.raw:
                if isinstance(r, tuple):
                    if r[1] not in fidx:
                        raise Unclassifiable(f"call to unknown function {r[1]}")
                    ins.append(f'mkI None "invoke" [ALab {fidx[r[1]]}%N]')
                else:
                    ins.append(r)
            t = b.term
            if t[0] == "jump":
                ins.append('mkI None "djmp" [' + "; ".join(f"ALab {x}%N" for x in t[1]) + "]")
            else:
                ins.append('mkI None "' + {"exit": "stop", "ret": "ret", "abort": "revert"}[t[0]] + '" []')
            bs.append("[" + "; ".join(ins) + "]")
        fs.append("[" + ";\n ".join(bs) + "]")
    return "[" + ";\n\n ".join(fs) + "]"


def coq_labels(lab):
    return "[" + "; ".join(f"({'true' if x[0] else 'false'}, {'true' if x[1] else 'false'})" for x in lab) + "]"
