"""C12 builtins correspondence: send / raw_revert / raw_call (all call kinds) / create_* against hand-assembled targets."""
from vyper.utils import keccak256

SRC = """
t: public(address)

@external
def set_t(a: address):
    self.t = a

@external
@payable
def s_send(x: uint256):
    send(self.t, x)

@external
@payable
def s_send_gas(x: uint256):
    send(self.t, x, gas=60000)

@external
def rr(d: Bytes[100]):
    raw_revert(d)

@external
@payable
def cp_1() -> address:
    return create_minimal_proxy_to(self.t)

@external
def cp_0() -> address:
    return create_minimal_proxy_to(self.t, revert_on_failure=False)

@external
def cps_1(s: bytes32) -> address:
    return create_minimal_proxy_to(self.t, salt=s)

@external
def cps_0(s: bytes32) -> address:
    return create_minimal_proxy_to(self.t, salt=s, revert_on_failure=False)

@external
def cc_1() -> address:
    return create_copy_of(self.t)

@external
def cc_0() -> address:
    return create_copy_of(self.t, revert_on_failure=False)

@external
def ccs_1(s: bytes32) -> address:
    return create_copy_of(self.t, salt=s)

@external
def cb_1(x: uint256) -> address:
    return create_from_blueprint(self.t, x)

@external
def cb_0(x: uint256) -> address:
    return create_from_blueprint(self.t, x, revert_on_failure=False)

@external
def cbs_1(x: uint256, s: bytes32) -> address:
    return create_from_blueprint(self.t, x, salt=s)

@external
@payable
def cbv_1(x: uint256) -> address:
    return create_from_blueprint(self.t, x, value=msg.value)

@external
def cbo_1(x: uint256) -> address:
    return create_from_blueprint(self.t, x, code_offset=0)

@external
def cbo_0(x: uint256) -> address:
    return create_from_blueprint(self.t, x, code_offset=0, revert_on_failure=False)

@external
def cbbig_1(x: uint256) -> address:
    return create_from_blueprint(self.t, x, code_offset=1000)
"""
RAWK = []   # (name, kind, M, R)
for _k, _kw in (("KCall", ""), ("KStatic", ", is_static_call=True"), ("KDelegate", ", is_delegate_call=True")):
    for _M in (0, 32):
        for _R in (True, False):
            _name = f"rk_{_k[1:].lower()}_{_M}_{int(_R)}"
            _kws = _kw + (f", max_outsize={_M}" if _M else "") + ("" if _R else ", revert_on_failure=False")
            if _M == 0 and _R:
                _ret, _body = "", f"raw_call(self.t, d{_kws})"
            elif _M == 0:
                _ret, _body = " -> bool", f"return raw_call(self.t, d{_kws})"
            elif _R:
                _ret, _body = f" -> Bytes[{_M}]", f"return raw_call(self.t, d{_kws})"
            else:
                _ret, _body = f" -> (bool, Bytes[{_M}])", f"return raw_call(self.t, d{_kws})"
            SRC += f"\n@external\ndef {_name}(d: Bytes[64]){_ret}:\n    {_body}\n"
            RAWK.append((_name, _k, _M, _R))


# ---------------------------------------------------------------- hand-assembled targets
def _asm(items):
    """items: ints (bytes), ('L', name) label def (emits JUMPDEST), ('P', name) push2 label"""
    code = bytearray()
    fix, labels = [], {}
    for it in items:
        if isinstance(it, tuple) and it[0] == "L":
            labels[it[1]] = len(code)
            code.append(0x5B)
        elif isinstance(it, tuple) and it[0] == "P":
            code.append(0x61)
            fix.append((len(code), it[1]))
            code.extend(b"\x00\x00")
        else:
            code.append(it)
    for pos, name in fix:
        code[pos:pos + 2] = labels[name].to_bytes(2, "big")
    return bytes(code)


def echo_runtime():
    """calldata-scripted callee (usable under DELEGATECALL): calldata[0] = mode, rest = data.
    0 return data; 1 revert data; 2 INVALID; 3 SSTORE(100,1) then return data"""
    return _asm([
        0x60, 0x01, 0x36, 0x03,                   # N = calldatasize - 1
        0x80, 0x60, 0x01, 0x60, 0x00, 0x37,       # calldatacopy(0, 1, N)
        0x60, 0x00, 0x35, 0x60, 0xF8, 0x1C,       # mode = calldataload(0) >> 248
        0x80, 0x60, 0x01, 0x14, ("P", "rev"), 0x57,
        0x80, 0x60, 0x02, 0x14, ("P", "inv"), 0x57,
        0x80, 0x60, 0x03, 0x14, ("P", "sst"), 0x57,
        ("L", "ret"), 0x50, 0x60, 0x00, 0xF3,
        ("L", "rev"), 0x50, 0x60, 0x00, 0xFD,
        ("L", "inv"), 0xFE,
        ("L", "sst"), 0x60, 0x01, 0x60, 0x64, 0x55, ("P", "ret"), 0x56,
    ])


ACCEPT = bytes([0x00])                                            # STOP: accepts ether
REJECT = bytes([0x63, 0xDE, 0xAD, 0xBE, 0xEF, 0x60, 0x00, 0x52, 0x60, 0x04, 0x60, 0x1C, 0xFD])   # revert(0xdeadbeef)


def blueprint_initcode():
    """constructor(x): x==1 revert(0xdeadbeef); x==2 INVALID; else deploy runtime = word(x) (32 bytes)"""
    return _asm([
        0x60, 0x20, 0x38, 0x03,                   # off = codesize - 32
        0x60, 0x20, 0x81, 0x60, 0x00, 0x39,       # codecopy(0, off, 32)
        0x50,
        0x60, 0x00, 0x51,                         # x
        0x80, 0x60, 0x01, 0x14, ("P", "rev"), 0x57,
        0x80, 0x60, 0x02, 0x14, ("P", "inv"), 0x57,
        0x60, 0x20, 0x60, 0x00, 0xF3,
        ("L", "rev"), 0x63, 0xDE, 0xAD, 0xBE, 0xEF, 0x60, 0x00, 0x52, 0x60, 0x04, 0x60, 0x1C, 0xFD,
        ("L", "inv"), 0xFE,
    ])


ERC5202 = bytes([0xFE, 0x71, 0x00])


def eip1167_runtime(addr):
    return bytes.fromhex("363d3d373d3d3d363d73") + bytes.fromhex(addr[2:]) + bytes.fromhex("5af43d82803e903d91602b57fd5bf3")


def eip1167_initcode(addr):
    return bytes.fromhex("602d3d8160093d39f3") + eip1167_runtime(addr)


def copyof_initcode(code):
    return bytes([0x62]) + len(code).to_bytes(3, "big") + bytes.fromhex("3d81600b3d39f3") + code


def create2_address(sender, salt, initcode):
    h = keccak256(b"\xff" + bytes.fromhex(sender[2:]) + salt + keccak256(initcode))
    return "0x" + h[12:].hex()


def addr_word(a):
    return int(a, 16)
