"""C01 (Venom front end): O-tie for the statement-lowering model coq/C01V/VStmt.v.

Random function bodies over integer / bool locals (assignments, declarations, augmented assignments, if / elif / else,
assert with and without reason, `for i in range(..)` with literal bounds, break / continue, pass, return) are compiled by
the REAL Venom front end (`generate_runtime_venom`, -O none, before any pass).  The blocks the front end creates for the
body are exported -- variables and labels renamed by order of creation (rank among the exported ones), allocas dropped,
`mstore <alloca of x>, v` written `VAssign "x" v`, `mload` as in c01v_part, `mstore buf, v; return buf, 32` as the
terminator `STRet v`, a block ending in `revert` as `STRevert` with its body dropped -- and compared syntactically, in
Coq (vm_compute), with `VStmt.slower body` (`stie_ok`, which also checks that the labels are pairwise distinct).
Independently every sample is compiled by the whole Venom pipeline and run on pyrevm against the Python meaning of the
body (`py_exec`); this is also the search for a failing input when the tie reports a difference.
Theorem: coq/C01V/PropsVStmt.v."""
from vlib import coqrun
from vlib.c01_exprtie import BITS, BOPS, ExprGen, TYPES, X, bounds, nty, sty, ty_vy, vy
from vlib.c01v_part import DEPS as EXPR_DEPS, FULL_FILES, PROOF_FILES as EXPR_FILES, ExportError, _Rev, coq_expr, py_eval, real_venom
from vlib.c03_export import OP1, OP2, zl

DEF_FILES = ["C01V/VStmt.v"]
PROOF_FILES = ["C01V/VStmt.v", "C01V/VStmtProofs.v", "C01V/PropsVStmt.v"]
DEPS = EXPR_DEPS + EXPR_FILES + FULL_FILES
IMPORTS = ("From Coq Require Import String List.\nImport ListNotations.\nFrom Verif Require Import Base.Word256 C03.LIR C03.ArithSpec "
           "C03.VSL C01.ExprCompile C01V.VExpr C01V.VBlocks C01V.VStmt.\nOpen Scope string_scope.\nOpen Scope Z_scope.\nOpen Scope list_scope.\n")


def build(ctx, deps=None):
    import os
    files = [f for f in PROOF_FILES if os.path.exists(str(coqrun.COQ / f))]
    return ctx.coq_build_cached(files, deps=list(deps) if deps is not None else DEPS, timeout=900)


def prebuild(ctx):
    build(ctx)


# ------------------------------------------------------------------ statements
class S:
    def __init__(self, k, **f):
        self.k, self.f = k, f

    def __getattr__(self, n):
        if n in ("k", "f") or n.startswith("__"):
            raise AttributeError(n)
        return self.f[n]


class StmtGen:
    def __init__(self, rng, locals_):
        self.r = rng
        self.locals = list(locals_)          # visible (name, ty)
        self.g = ExprGen(rng, self.locals)
        self.nw = 0
        self.ni = 0
        self.declared = []                   # names in the order the front end allocates them
        self.loopvars = set()

    def int_types(self):
        return sorted({t for _, t in self.locals if t != "bool"})

    def assignable(self):
        return [(n, t) for n, t in self.locals if n not in self.loopvars]

    def expr(self, t, d):
        return self.g.bool_expr(d) if t == "bool" else self.g.int_expr(t, d)

    def block(self, depth, in_loop, n=None, ret_ty=None, must_return=False):
        r = self.r
        saved = list(self.locals)
        out = []
        for _ in range(n if n is not None else r.randint(1, 3)):
            out.append(self.stmt(depth, in_loop, ret_ty))
            if terminates([out[-1]]):
                self.locals[:] = saved
                return out
        if must_return:
            out.append(S("return", e=self.expr(ret_ty, r.choice([0, 1, 2]))))
        else:
            x = r.random()
            if in_loop and x < 0.12:
                out.append(S("break"))
            elif in_loop and x < 0.24:
                out.append(S("continue"))
            elif x < 0.32:
                out.append(S("return", e=self.expr(ret_ty, r.choice([0, 1]))))
        self.locals[:] = saved
        return out

    def stmt(self, depth, in_loop, ret_ty):
        r = self.r
        opts = ["assign"] * 3 + ["aug"] * 3 + ["decl"] * 2 + ["assert"] * 2 + ["pass"]
        if depth > 0:
            opts += ["if"] * 4 + ["for"] * 3 + (["forb"] * 2 if BOUND_LOOPS else [])
        k = r.choice(opts)
        d = r.choice([0, 1, 1, 2])
        if k in ("assign", "aug"):
            c = self.assignable()
            if not c:
                return S("pass")
            x, t = r.choice(c)
            if k == "assign" or t == "bool":
                return S("assign", x=x, t=t, e=self.expr(t, d))
            if not t[1] and r.random() < 0.25:
                return S("augbit", x=x, t=t, op=r.choice(list(BITS)), e=self.g.int_expr(t, d))
            op = r.choice(list(BOPS))
            e = self.g.int_expr(t, d)
            if op in ("BDiv", "BMod") and e.k == "int" and e.v == 0:
                e = X("int", t, v=1)
            return S("aug", x=x, t=t, op=op, e=e)
        if k == "decl":
            t = r.choice(self.int_types() + ["bool"])
            e = self.expr(t, d)
            self.nw += 1
            x = f"w{self.nw}"
            self.declared.append(x)
            self.locals.append((x, t))
            return S("decl", x=x, t=t, e=e)
        if k == "assert":
            return S("assert", c=self.g.bool_expr(d), msg=r.choice([None, None, "no", "a longer reason string that needs two words ....."]))
        if k == "if":
            c = self.g.bool_expr(d)
            a = self.block(depth - 1, in_loop, ret_ty=ret_ty)
            x = r.random()
            if x < 0.35:
                b = []
            elif x < 0.55:        # elif
                c2 = self.g.bool_expr(d)
                a2 = self.block(depth - 1, in_loop, ret_ty=ret_ty)
                b2 = [] if r.random() < 0.5 else self.block(depth - 1, in_loop, ret_ty=ret_ty)
                b = [S("if", c=c2, a=a2, b=b2)]
            else:
                b = self.block(depth - 1, in_loop, ret_ty=ret_ty)
            return S("if", c=c, a=a, b=b)
        if k == "for":
            t = r.choice(self.int_types() or [(32, False)])
            lo_b, hi_b = bounds(t)
            rounds = r.randint(1, 3)
            lo = r.choice([0, 0, 1, 2, lo_b, hi_b - rounds, -2 if t[1] else 5])
            lo = min(max(lo, lo_b), hi_b - rounds)
            self.ni += 1
            i = f"i{self.ni}"
            self.declared.append(i)
            saved = list(self.locals)
            self.locals.append((i, t))
            self.loopvars.add(i)
            body = self.block(depth - 1, True, ret_ty=ret_ty)
            self.locals[:] = saved
            self.loopvars.discard(i)
            return S("for", i=i, t=t, lo=lo, rounds=rounds, one_arg=(lo == 0 and r.random() < 0.6), body=body)
        if k == "forb":
            t = r.choice(self.int_types() or [(32, False)])
            bound = r.randint(1, 4)
            one_arg = r.random() < 0.3
            if one_arg:
                a = X("int", t, v=0)
                b = self.g.int_expr(t, r.choice([0, 1]), allow_lit=False)
            else:
                a = self.g.int_expr(t, r.choice([0, 0, 1]), allow_lit=False)
                if r.random() < 0.65:
                    b = X("bin", t, op="BAdd", a=a, b=X("int", t, v=r.randint(0, bound + 1)))
                else:
                    b = self.g.int_expr(t, r.choice([0, 1]), allow_lit=False)
            if a.k == "int" and not one_arg or b.k == "int":
                return S("pass")
            self.ni += 1
            i = f"i{self.ni}"
            self.declared.append(i)
            saved = list(self.locals)
            self.locals.append((i, t))
            self.loopvars.add(i)
            body = self.block(depth - 1, True, ret_ty=ret_ty)
            self.locals[:] = saved
            self.loopvars.discard(i)
            return S("forb", i=i, t=t, a=a, b=b, bound=bound, one_arg=one_arg, body=body)
        return S("pass")


BOUND_LOOPS = True


def terminates(stmts):
    """every path through the list ends in return / break / continue (the compiler rejects code after such a list)"""
    if not stmts:
        return False
    s = stmts[-1]
    if s.k in ("return", "break", "continue"):
        return True
    return s.k == "if" and terminates(s.a) and terminates(s.b)


def aug_expr(s):
    x = X("var", s.t, name=s.x)
    if s.k == "aug":
        return X("bin", s.t, op=s.op, a=x, b=s.e)
    return X("bit", s.t, op=s.op, a=x, b=s.e)


def vy_block(stmts, ind):
    pad = "    " * ind
    out = []
    for s in stmts:
        k = s.k
        if k == "assign":
            out.append(f"{pad}{s.x} = {vy(s.e)}")
        elif k == "decl":
            out.append(f"{pad}{s.x}: {ty_vy(s.t)} = {vy(s.e)}")
        elif k == "aug":
            out.append(f"{pad}{s.x} {BOPS[s.op]}= {vy(s.e)}")
        elif k == "augbit":
            out.append(f"{pad}{s.x} {BITS[s.op]}= {vy(s.e)}")
        elif k == "assert":
            out.append(f"{pad}assert {vy(s.c)}" + (f', "{s.msg}"' if s.msg else ""))
        elif k == "pass":
            out.append(f"{pad}pass")
        elif k == "break":
            out.append(f"{pad}break")
        elif k == "continue":
            out.append(f"{pad}continue")
        elif k == "return":
            out.append(f"{pad}return {vy(s.e)}")
        elif k == "if":
            out.append(f"{pad}if {vy(s.c)}:")
            out += vy_block(s.a, ind + 1)
            b = s.b
            while len(b) == 1 and b[0].k == "if":
                out.append(f"{pad}elif {vy(b[0].c)}:")
                out += vy_block(b[0].a, ind + 1)
                b = b[0].b
            if b:
                out.append(f"{pad}else:")
                out += vy_block(b, ind + 1)
        elif k == "for":
            rng_ = f"range({s.rounds})" if s.one_arg else f"range({s.lo}, {s.lo + s.rounds})"
            out.append(f"{pad}for {s.i}: {ty_vy(s.t)} in {rng_}:")
            out += vy_block(s.body, ind + 1)
        elif k == "forb":
            rng_ = f"range({vy(s.b)}, bound={s.bound})" if s.one_arg else f"range({vy(s.a)}, {vy(s.b)}, bound={s.bound})"
            out.append(f"{pad}for {s.i}: {ty_vy(s.t)} in {rng_}:")
            out += vy_block(s.body, ind + 1)
        else:
            raise ValueError(k)
    return out


def coq_block(stmts):
    return "[" + "; ".join(coq_stmt(s) for s in stmts) + "]"


def coq_stmt(s):
    k = s.k
    if k in ("assign", "decl"):
        return f'SAssign "{s.x}" {coq_expr(s.e)}'
    if k in ("aug", "augbit"):
        return f'SAssign "{s.x}" {coq_expr(aug_expr(s))}'
    if k == "assert":
        return f"SAssert {coq_expr(s.c)}"
    if k == "pass":
        return "SPass"
    if k == "break":
        return "SBreak"
    if k == "continue":
        return "SContinue"
    if k == "return":
        return f"SReturn {coq_expr(s.e)}"
    if k == "if":
        return f"SIf {coq_expr(s.c)} {coq_block(s.a)} {coq_block(s.b)}"
    if k == "for":
        return f'SFor "{s.i}" {zl(s.lo)} {s.rounds} {coq_block(s.body)}'
    if k == "forb":
        return f'SForB "{s.i}" {nty(s.t)} {coq_expr(s.a)} {coq_expr(s.b)} {zl(s.bound)} {coq_block(s.body)}'
    raise ValueError(k)


def count_stmts(stmts, acc):
    for s in stmts:
        acc[s.k] = acc.get(s.k, 0) + 1
        if s.k == "if":
            count_stmts(s.a, acc)
            count_stmts(s.b, acc)
        elif s.k in ("for", "forb"):
            count_stmts(s.body, acc)


# ------------------------------------------------------------------ python meaning
class _Brk(Exception):
    pass


class _Cnt(Exception):
    pass


class _Ret(Exception):
    def __init__(self, v):
        self.v = v


def py_block(stmts, env):
    for s in stmts:
        k = s.k
        if k in ("assign", "decl"):
            env[s.x] = py_eval(s.e, env)
        elif k in ("aug", "augbit"):
            env[s.x] = py_eval(aug_expr(s), env)
        elif k == "assert":
            if not py_eval(s.c, env):
                raise _Rev()
        elif k == "pass":
            pass
        elif k == "break":
            raise _Brk()
        elif k == "continue":
            raise _Cnt()
        elif k == "return":
            raise _Ret(py_eval(s.e, env))
        elif k == "if":
            py_block(s.a if py_eval(s.c, env) else s.b, env)
        elif k == "forb":
            va = py_eval(s.a, env)
            vb = py_eval(s.b, env)
            if va > vb or vb - va > s.bound:
                raise _Rev()
            for iv in range(va, vb):
                env[s.i] = iv
                try:
                    py_block(s.body, env)
                except _Cnt:
                    continue
                except _Brk:
                    break
        elif k == "for":
            for iv in range(s.lo, s.lo + s.rounds):
                env[s.i] = iv
                try:
                    py_block(s.body, env)
                except _Cnt:
                    continue
                except _Brk:
                    break


def py_exec(body, env):
    """-> returned value, or None for a revert"""
    try:
        py_block(body, dict(env))
    except _Ret as r_:
        return r_.v
    except _Rev:
        return None
    raise RuntimeError("body fell off the end")


# ------------------------------------------------------------------ export of the real front end's output
def export_body(vctx, locals_, declared):
    from vyper.venom.basicblock import IRLabel, IRLiteral, IRVariable
    nloc = len(locals_)
    fns = [fn for fn in vctx.functions.values() if any(i.opcode == "alloca" for bb in fn.get_basic_blocks() for i in bb.instructions)]
    if len(fns) != 1:
        raise ExportError(f"{len(fns)} functions with allocas")
    blocks = list(fns[0].get_basic_blocks())
    by_label = {bb.label.value: bb for bb in blocks}
    allocas = [(bi, ii, i) for bi, bb in enumerate(blocks) for ii, i in enumerate(bb.instructions) if i.opcode == "alloca"]
    a32 = [a for a in allocas if isinstance(a[2].operands[0], IRLiteral) and a[2].operands[0].value == 32]
    if len(a32) < 2 * nloc:
        raise ExportError(f"expected at least {2 * nloc} allocas, found {len(a32)}")
    loc_of = {a32[nloc + j][2].output.value: locals_[j][0] for j in range(nloc)}
    # start of the body: after the store that initializes the last local
    b0, _, last = a32[2 * nloc - 1]
    lastp = last.output.value
    i0 = None
    for k, i in enumerate(blocks[b0].instructions):
        if i.opcode == "mstore" and isinstance(i.operands[1], IRVariable) and i.operands[1].value == lastp:
            i0 = k
            break
    if i0 is None:
        raise ExportError("initialization of the last local not found")
    # return buffers: allocas whose output is an operand of a `return`
    retbufs = {o.value for bb in blocks for i in bb.instructions if i.opcode == "return" for o in i.operands if isinstance(o, IRVariable)}
    # the blocks of the body: reachable from the start block, in function order
    reach, todo = set(), [blocks[b0].label.value]
    while todo:
        l = todo.pop()
        if l in reach:
            continue
        reach.add(l)
        bb = by_label[l]
        for i in bb.instructions:
            if i.opcode in ("jmp", "jnz", "djmp"):
                for o in i.operands:
                    if isinstance(o, IRLabel) and o.value in by_label:
                        todo.append(o.value)
    idx = [bi for bi, bb in enumerate(blocks) if bb.label.value in reach]
    if min(idx) != b0:
        raise ExportError("the start block is not the first block of the body")
    # contiguous range: blocks the front end appends but nothing jumps to (the increment block of a loop whose body always
    # breaks) belong to the body as well
    region = [(blocks[bi], (blocks[bi].instructions[i0 + 1:] if bi == b0 else list(blocks[bi].instructions))) for bi in range(b0, max(idx) + 1)]
    queue = list(declared)
    kept = []          # (bb, [instr], terminator kind)
    for bb, insts in region:
        if insts and insts[-1].opcode == "revert":
            kept.append((bb, [], insts[-1]))
            continue
        body = []
        for i in insts:
            if i.opcode == "alloca":
                v = i.output.value
                if v in retbufs:
                    continue
                sz = i.operands[0]
                if not (isinstance(sz, IRLiteral) and sz.value == 32):
                    raise ExportError(f"unexpected alloca in the body: {i}")
                if not queue:
                    raise ExportError(f"more allocas than declared locals: {i}")
                loc_of[v] = queue.pop(0)
                continue
            body.append(i)
        kept.append((bb, body, None))
    if queue:
        raise ExportError(f"declared locals without alloca: {queue}")
    outs = sorted({int(o.value[1:]) for _, ins, _ in kept for i in ins for o in i.get_outputs()})
    vrank = {n: k for k, n in enumerate(outs)}
    lnums = sorted(int(bb.label.value.split("_")[0]) for bb, _, _ in kept[1:])
    lab_of = {kept[0][0].label.value: 0}
    for bb, _, _ in kept[1:]:
        lab_of[bb.label.value] = lnums.index(int(bb.label.value.split("_")[0])) + 1
    if len(set(lab_of.values())) != len(lab_of):
        raise ExportError("label numbers of the body are not distinct")

    def var(v):
        n = int(v.value[1:])
        if n not in vrank:
            raise ExportError(f"variable {v} from outside the body")
        return f"(nm {vrank[n]})"

    def op(o):
        if isinstance(o, IRLiteral):
            return f"(VLit {zl(o.value)})"
        if isinstance(o, IRVariable):
            return f"(VVar {var(o)})"
        raise ExportError(f"operand {o!r}")

    def lab(l):
        if l.value not in lab_of:
            raise ExportError(f"jump out of the body: {l}")
        return str(lab_of[l.value])

    out_blocks = []
    for bb, insts, rev in kept:
        if rev is not None:
            out_blocks.append(f"mkSB {lab_of[bb.label.value]} [] STRevert")
            continue
        body, term = [], "STNone"
        pending = None      # (buffer, value) of a store into a return buffer
        for i in insts:
            oc, ops, outs_ = i.opcode, i.operands, i.get_outputs()
            if term != "STNone":
                raise ExportError("instruction after a terminator")
            if oc == "jnz":
                term = f"(STJnz {op(ops[0])} {lab(ops[1])} {lab(ops[2])})"
            elif oc == "jmp":
                term = f"(STJmp {lab(ops[0])})"
            elif oc == "return":
                # operands in storage order: [size, buffer]
                if not (pending and isinstance(ops[0], IRLiteral) and ops[0].value == 32 and isinstance(ops[1], IRVariable)
                        and ops[1].value == pending[0]):
                    raise ExportError(f"return shape: {i}")
                term = f"(STRet {op(pending[1])})"
                pending = None
            elif oc == "mstore" and isinstance(ops[1], IRVariable) and ops[1].value in retbufs:
                if pending:
                    raise ExportError("two stores into return buffers")
                pending = (ops[1].value, ops[0])
            elif pending:
                raise ExportError(f"instruction between the return buffer store and return: {i}")
            elif oc == "mstore" and isinstance(ops[1], IRVariable) and ops[1].value in loc_of:
                body.append(f'VAssign "{loc_of[ops[1].value]}" {op(ops[0])}')
            elif oc == "assert" and len(ops) == 1:
                body.append(f"VAssert {op(ops[0])}")
            elif oc == "mload" and len(ops) == 1 and isinstance(ops[0], IRVariable) and ops[0].value in loc_of:
                body.append(f'VAssign {var(outs_[0])} (VVar "{loc_of[ops[0].value]}")')
            elif oc == "assign" and len(ops) == 1 and len(outs_) == 1:
                body.append(f'VAssign {var(outs_[0])} {op(ops[0])}')
            elif oc in OP1 and len(ops) == 1 and len(outs_) == 1:
                body.append(f'V1 {var(outs_[0])} {OP1[oc]} {op(ops[0])}')
            elif oc in OP2 and len(ops) == 2 and len(outs_) == 1:
                body.append(f'V2 {var(outs_[0])} {OP2[oc]} {op(ops[0])} {op(ops[1])}')
            else:
                raise ExportError(f"instruction outside the fragment: {i}")
        if pending:
            raise ExportError("store into a return buffer without return")
        out_blocks.append(f"mkSB {lab_of[bb.label.value]} [" + "; ".join(body) + f"] {term}")
    return out_blocks


def source_of(locals_, body, ret_ty):
    lines = ["@external", "def f(" + ", ".join(f"p{i}: {ty_vy(t)}" for i, (_, t) in enumerate(locals_)) + f") -> {ty_vy(ret_ty)}:"]
    for i, (n, t) in enumerate(locals_):
        lines.append(f"    {n}: {ty_vy(t)} = p{i}")
    lines += vy_block(body, 1)
    return "\n".join(lines) + "\n"


def sample(rng, depth):
    nloc = rng.randrange(2, 5)
    tys = [rng.choice(TYPES) for _ in range(rng.randrange(1, 3))]
    locals_ = [(f"v{i}", rng.choice(tys + (["bool"] if rng.random() < 0.3 else []))) for i in range(nloc)]
    if all(t == "bool" for _, t in locals_):
        locals_[0] = ("v0", tys[0])
    g = StmtGen(rng, locals_)
    ret_ty = rng.choice(g.int_types() + ["bool"])
    body = g.block(depth, False, n=rng.randint(1, 4), ret_ty=ret_ty, must_return=True)
    src = source_of(locals_, body, ret_ty)
    try:
        vctx = real_venom(src)
    except Exception as ex:  # noqa
        return {"src": src, "rejected": f"{type(ex).__name__}: {str(ex)[:200]}"}
    try:
        blocks = export_body(vctx, locals_, g.declared)
    except ExportError as ex:
        return {"src": src, "error": str(ex)}
    return {"src": src, "body": body, "locals": locals_, "ret_ty": ret_ty, "coq_s": coq_block(body),
            "coq_b": "[" + ";\n   ".join(blocks) + "]", "nblocks": len(blocks)}


# ------------------------------------------------------------------ whole pipeline + EVM against the python meaning
def differential(s, rnd, tries=6):
    import warnings
    from vyper.compiler import compile_code
    from vyper.compiler.settings import OptimizationLevel, Settings
    from vyper.utils import method_id_int
    from vlib import c14_pass_sem as SEM
    locals_, body, rt = s["locals"], s["body"], s["ret_ty"]
    with warnings.catch_warnings():
        warnings.simplefilter("ignore")
        try:
            out = compile_code(s["src"], output_formats=["bytecode_runtime"],
                               settings=Settings(experimental_codegen=True, optimize=OptimizationLevel.NONE))
        except Exception:  # noqa
            return None, 0
    code = bytes.fromhex(out["bytecode_runtime"][2:])
    sel = method_id_int("f(" + ",".join(ty_vy(t) for _, t in locals_) + ")").to_bytes(4, "big")
    n = 0
    for _ in range(tries):
        vals = []
        for _, t in locals_:
            if t == "bool":
                vals.append(rnd.choice([0, 1]))
            else:
                lo, hi = bounds(t)
                vals.append(min(max(rnd.choice([0, 1, 2, 3, 7, lo, hi, lo + 1, hi - 1, rnd.randrange(lo, hi + 1)]), lo), hi))
        env = {n_: v for (n_, _), v in zip(locals_, vals)}
        exp = py_exec(body, env)
        data = sel + b"".join((v % 2 ** 256).to_bytes(32, "big") for v in vals)
        r = SEM.evm_run(code, {"data": data.hex(), "value": 0, "sender": "0x" + "11" * 20})
        if r is None:
            return None, n
        n += 1
        if r["ok"]:
            w = int.from_bytes(r["out"], "big")
            got = w - 2 ** 256 if (rt != "bool" and rt[1] and w >= 2 ** 255) else w
        else:
            got = None
        if got != exp:
            return {"source": s["src"], "arguments": {k: str(v) for k, v in env.items()}, "expected": "revert" if exp is None else str(exp),
                    "evm": "revert" if got is None else str(got)}, n
    return None, n


def part_vstmt(ctx, deps=None):
    b = build(ctx, deps)
    stats = {"samples": 0, "rejected_by_compiler": 0, "export_errors": 0, "equal": 0, "different": 0, "evm_runs": 0, "evm_mismatches": 0,
             "blocks": 0}
    if not b["ok"]:
        ctx.violation("theorem-broken", f"{b.get('failed_lemma')} in {b['file']}",
                      {"theorem": b.get("failed_lemma"), "file": b["file"], "coq_output": b["out"][-1500:]})
    rng = ctx.rng("vstmt")
    want = 60 if ctx.tier == "quick" else 600
    samples, kinds, tries = [], {}, 0
    while len(samples) < want and tries < 6 * want:
        tries += 1
        s = sample(rng, rng.choice([1, 2, 2, 3]))
        if "rejected" in s:
            stats["rejected_by_compiler"] += 1
            stats.setdefault("first_rejection", s["rejected"][:160])
            continue
        if "error" in s:
            stats["export_errors"] += 1
            if stats["export_errors"] <= 2:
                ctx.violation("correspondence-broken", "the Venom front end's output for a function body of the fragment could not be "
                              "exported: " + s["error"], {"source": s["src"]})
            continue
        samples.append(s)
        count_stmts(s["body"], kinds)
    stats["samples"] = len(samples)
    stats["blocks"] = sum(s["nblocks"] for s in samples)
    stats["stmt_kinds"] = kinds
    if stats["rejected_by_compiler"] > 3 * max(1, len(samples)):
        ctx.violation("correspondence-broken", "the compiler rejects most generated function bodies", dict(stats))
    found = 0
    # semantic side: whole pipeline + EVM against the python meaning
    for s in samples:
        try:
            ff, n = differential(s, ctx.rng("vstmt-evm:" + s["src"]), tries=4 if ctx.tier == "quick" else 6)
        except Exception as ex:  # noqa
            ff, n = None, 0
            stats.setdefault("first_evm_error", repr(ex)[:200])
        stats["evm_runs"] += n
        s["ff"] = ff
        if ff is not None:
            stats["evm_mismatches"] += 1
            if found < 2:
                found += 1
                ctx.violation("failing-input", "the Venom pipeline miscompiles a function body (statements over int/bool locals)", ff,
                              key="vstmt:" + str(hash(s["src"]) % 10 ** 8))
    if samples and b["ok"]:
        exprs = [f"[if stie_ok {s['coq_s']} {s['coq_b']} then 1 else 0]" for s in samples]
        try:
            res = coqrun.eval_zlists(IMPORTS, exprs, "c01vstmt", shard=max(1, len(exprs) // 6), timeout=600)
        except RuntimeError as ex:
            res = None
            ctx.violation("correspondence-broken", "the statement tie could not be evaluated in Coq", {"error": str(ex)[-1500:]})
        if res is not None:
            bad = [s for s, r in zip(samples, res) if r != [1]]
            stats["equal"] = len(samples) - len(bad)
            stats["different"] = len(bad)
            # search: more inputs for the differing bodies
            for s in ([] if found else sorted(bad, key=lambda s_: len(s_["src"]))[:8]):
                if found >= 2:
                    break
                try:
                    ff, n = differential(s, ctx.rng("vstmt-search:" + s["src"]), tries=24)
                except Exception:  # noqa
                    ff, n = None, 0
                stats["evm_runs"] += n
                if ff is not None:
                    found += 1
                    stats["evm_mismatches"] += 1
                    ctx.violation("failing-input", "the Venom pipeline miscompiles a function body (statements over int/bool locals)", ff,
                                  key="vstmt:" + str(hash(s["src"]) % 10 ** 8))
            for s in ([] if found else sorted(bad, key=lambda s_: len(s_["src"]))[:2]):
                ctx.violation("theorem-broken", "vstmt_compile_correct does not apply: the Venom front end's blocks for a function body "
                              "differ from the model VStmt.slower",
                              {"theorem": "vstmt_compile_correct (slower body <> real output)", "source": s["src"],
                               "real_blocks": s["coq_b"][:4000], "body": s["coq_s"][:2000]})
    ctx.corr["vstmt_tie"] = stats
    ctx.log("vstmt " + " ".join(f"{k}={v}" for k, v in stats.items()))
    if samples:
        ctx.samples.append({"vstmt": samples[0]["src"][:400], "blocks": samples[0]["nblocks"]})
    return stats["equal"] + stats["different"] + stats["evm_runs"]
