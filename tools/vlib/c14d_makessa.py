"""C14 (MakeSSA, value preservation): every real `MakeSSA.run_pass` is observed (function before / after), an untrusted
certificate (base variable of every new variable, current-version map per block, inserted-assign flags) is computed
here, and `makessa_check before after cert` (coq/C14D/MakeSsa.v) is evaluated by vm_compute.  By theorem
`C14D_makessa_check_sound` an accepted triple means: for ANY semantics of the opaque instructions, every execution
of the function after the pass is matched by an execution of the function before it with the same world, the same
observable events and equal variable values modulo the renaming.
Search for rejected triples: both functions are executed with a deterministic uninterpreted-function oracle and the
event traces are compared."""
import hashlib
import os

from . import coqrun

FOREIGN = 1_000_000
IMPORTS = "From Coq Require Import ZArith NArith.\nFrom Verif Require Import C14D.MakeSsa.\nOpen Scope N_scope.\n"


def snapshot(fn):
    from vyper.venom.basicblock import IRLabel, IRLiteral, IRVariable
    blocks = list(fn.get_basic_blocks())
    entry = fn.entry
    if blocks and blocks[0] is not entry:
        blocks.remove(entry)
        blocks.insert(0, entry)
    out = []
    for bb in blocks:
        insts = []
        for i in bb.instructions:
            ops = []
            for o in i.operands:
                if isinstance(o, IRLiteral):
                    ops.append(("l", o.value))
                elif isinstance(o, IRVariable):
                    ops.append(("v", o.value))
                elif isinstance(o, IRLabel):
                    ops.append(("b", o.value))
                else:
                    ops.append(("?", str(o)))
            insts.append({"id": id(i), "op": i.opcode, "args": ops, "outs": [v.value for v in i.get_outputs()]})
        out.append((bb.label.value, insts))
    return out


def text_of(snap):
    def o(x):
        return str(x[1]) if x[0] != "b" else "@" + str(x[1])
    lines = []
    for lab, insts in snap:
        lines.append(f"{lab}:")
        for i in insts:
            lhs = (", ".join(i["outs"]) + " = ") if i["outs"] else ""
            lines.append(f"    {lhs}{i['op']} " + ", ".join(o(a) for a in reversed(i["args"])))
    return "\n".join(lines)


PARAMS = ("param", "fmp_param", "retpc_param")


def hoist_params(snap):
    """MakeSSA ends with IRBasicBlock.ensure_well_formed(), a stable sort that moves param pseudo-instructions (the
    declarations of the incoming stack slots: no operands, no effect) to the head of the block.  The validator
    compares with `before` modulo this hoisting (a modelling assumption, counted in the statistics)."""
    out, moved = [], 0
    for lab, insts in snap:
        ps = [i for i in insts if i["op"] in PARAMS]
        rest = [i for i in insts if i["op"] not in PARAMS]
        new = ps + rest
        moved += new != insts
        out.append((lab, new))
    return out, moved


class Case:
    def __init__(self, name, before, after):
        before, self.param_hoisted = hoist_params(before)
        self.name, self.before, self.after = name, before, after
        self.problem = None
        self.build()

    def build(self):
        before, after = self.before, self.after
        labs = [l for l, _ in after]
        if [l for l, _ in before] != labs:
            self.problem = "MakeSSA changed the list of basic blocks"
            return
        lab = {l: i for i, l in enumerate(labs)}
        var, ops, foreign = {}, {"phi": 0, "assign": 1}, {}
        for _, insts in before:
            for i in insts:
                for a in i["args"]:
                    if a[0] == "v":
                        var.setdefault(a[1], len(var))
                for v in i["outs"]:
                    var.setdefault(v, len(var))
        nb = len(var)
        bnames = set(var)
        base = {}
        for _, insts in after:
            for i in insts:
                for v in [a[1] for a in i["args"] if a[0] == "v"] + i["outs"]:
                    if v not in var:
                        var[v] = len(var)
                        b = v
                        while ":" in b and b not in bnames:
                            b = b.rsplit(":", 1)[0]
                        base[v] = b if b in bnames else v

        def operand(a):
            if a[0] == "l":
                return f"MLit ({coqrun.hexlit(a[1])})%Z"
            if a[0] == "v":
                return f"MVar {var[a[1]]}"
            if a[0] == "b":
                if a[1] in lab:
                    return f"MLab {lab[a[1]]}"
                return f"MLab {foreign.setdefault(a[1], FOREIGN + len(foreign))}"
            raise ValueError(a)

        def inst(i):
            return (f"mkM {ops.setdefault(i['op'], len(ops))} [" + "; ".join(operand(a) for a in i["args"]) + "] [" +
                    "; ".join(str(var[v]) for v in i["outs"]) + "]")

        def func(snap):
            return "[" + ";\n ".join("[" + "; ".join(inst(i) for i in insts) + "]" for _, insts in snap) + "]"
        self.nblocks, self.ninsts = len(after), sum(len(x[1]) for x in after)
        self.f, self.g = func(before), func(after)
        bids = {i["id"] for _, insts in before for i in insts}
        # ---- certificate
        K = set(base.values())

        def base_of(v):
            return base.get(v, v)
        phis, body = [], []
        for _, insts in after:
            k = 0
            while k < len(insts) and insts[k]["op"] == "phi":
                k += 1
            phis.append(insts[:k])
            body.append(insts[k:])
        succ = []
        for _, insts in after:
            succ.append([lab[a[1]] for a in insts[-1]["args"] if a[0] == "b" and a[1] in lab] if insts else [])
        preds = [[] for _ in after]
        for p, ss in enumerate(succ):
            for s in ss:
                if p not in preds[s]:
                    preds[s].append(p)
        used0 = {a[1] for _, insts in after for i in insts for a in i["args"] if a[0] == "v"}
        dead = {i["id"] for b in range(len(after)) for i in body[b] if i["id"] not in bids and not (i["outs"] and i["outs"][0] in used0)}
        entry_maps = [None] * len(after)     # dict base -> version name | None(untracked); missing = identity
        end_maps = [None] * len(after)

        def walk(b, m):
            m = dict(m)
            for i in body[b]:
                if i["id"] in dead:
                    continue
                for y in i["outs"]:
                    m[base_of(y)] = y
            return m
        entry_maps[0] = {}
        work = [0]
        seen_rounds = 0
        while work and seen_rounds < 20000:
            seen_rounds += 1
            b = work.pop()
            end = walk(b, entry_maps[b])
            if end_maps[b] == end:
                continue
            end_maps[b] = end
            for s in succ[b]:
                new = {}
                phi_base = {base_of(i["outs"][0]): i["outs"][0] for i in phis[s] if len(i["outs"]) == 1}
                for x in K | set(phi_base):
                    if x in phi_base:
                        new[x] = phi_base[x]
                        continue
                    vals = set()
                    for p in preds[s]:
                        if end_maps[p] is not None:
                            vals.add(end_maps[p].get(x, x))
                    new[x] = vals.pop() if len(vals) == 1 else None
                if s == 0:
                    new = {}
                if entry_maps[s] != new:
                    # keep the (older, more optimistic) end map of s until it is recomputed: values only descend
                    entry_maps[s] = new
                    work.append(s)
                elif end_maps[s] is None:
                    work.append(s)

        def vmap(m):
            if not m:
                return "[]"
            ent = []
            for x, v in sorted(m.items(), key=lambda t: var[t[0]]):
                if v is None:
                    ent.append(f"({var[x]}, None)")
                elif v != x:
                    ent.append(f"({var[x]}, Some {var[v]})")
            return "[" + "; ".join(ent) + "]"
        maps = "[" + "; ".join(vmap(m) for m in entry_maps) + "]"
        used = {a[1] for _, insts in after for i in insts for a in i["args"] if a[0] == "v"}

        def flag(i):
            if i["id"] in bids:
                return "0"
            # an inserted instruction (a degenerate phi turned into `assign`): it takes over as the current version
            # if its output is read anywhere, otherwise it is a dead copy
            return "1" if (i["outs"] and i["outs"][0] in used) else "2"
        extra = "[" + "; ".join("[" + "; ".join(flag(i) for i in body[b]) + "]" for b in range(len(after))) + "]"
        self._dead = {i["id"] for b in range(len(after)) for i in body[b] if flag(i) == "2"}
        btab = "[" + "; ".join(f"({var[v]}, {var[b]})" for v, b in sorted(base.items(), key=lambda t: var[t[0]])) + "]"
        self.cert = f"(mkC {nb} {btab} {maps} {extra})"
        self.n_new_phis = sum(1 for b in range(len(after)) for i in phis[b] if i["id"] not in bids)
        self.n_extra = sum(1 for b in range(len(after)) for i in body[b] if i["id"] not in bids)
        self.n_versions = len(base)

    def key(self):
        return hashlib.sha256((self.f + "|" + self.g).encode()).hexdigest()[:16] if self.problem is None else "problem:" + self.name


class Observer:
    def __init__(self, max_insts=900):
        self.cases = {}
        self.calls = 0
        self.errors = []
        self.max_insts = max_insts
        self.skipped_big = 0

    def __enter__(self):
        from vyper.venom.passes import MakeSSA
        self.cls = MakeSSA
        self.orig = MakeSSA.__dict__["run_pass"]
        obs = self

        def run_pass(self_, *a, **k):
            try:
                before = snapshot(self_.function)
            except Exception as e:  # noqa
                before = None
                obs.errors.append(f"snapshot before: {type(e).__name__}: {e}")
            r = obs.orig(self_, *a, **k)
            if before is not None:
                try:
                    obs.record(self_.function, before)
                except Exception as e:  # noqa
                    obs.errors.append(f"record: {type(e).__name__}: {e}")
            return r
        MakeSSA.run_pass = run_pass
        return self

    def __exit__(self, *a):
        self.cls.run_pass = self.orig

    def record(self, fn, before):
        self.calls += 1
        after = snapshot(fn)
        if sum(len(x[1]) for x in after) > self.max_insts:
            self.skipped_big += 1
            return
        c = Case(str(fn.name), before, after)
        self.cases.setdefault(c.key(), c)


# ------------------------------------------------------------------ Search: uninterpreted-function execution
def _h(*xs):
    return int.from_bytes(hashlib.sha256(repr(xs).encode()).digest()[:8], "big")


def run_trace(snap, seed, max_steps=400):
    """execute with a deterministic oracle: the result of every non-assign instruction is a function of
    (seed, opcode, operand values, number of events so far); jnz follows its condition, djmp/other terminators pick by hash"""
    lab = {l: i for i, (l, _) in enumerate(snap)}
    env = {}
    trace = []
    b, pred = 0, None
    steps = 0
    while steps < max_steps:
        insts = snap[b][1]
        # parallel phis
        upd = {}
        k = 0
        while k < len(insts) and insts[k]["op"] == "phi":
            i = insts[k]
            args = i["args"]
            for j in range(0, len(args) - 1, 2):
                if args[j][0] == "b" and pred is not None and args[j][1] == snap[pred][0]:
                    a = args[j + 1]
                    upd[i["outs"][0]] = env.get(a[1], ("undef", a[1])) if a[0] == "v" else a[1]
            k += 1
        env.update(upd)
        nxt = None
        for i in insts[k:]:
            steps += 1
            vals = [env.get(a[1], ("undef", a[1])) if a[0] == "v" else (a[1] if a[0] == "l" else "@" + str(a[1])) for a in i["args"]]
            if i["op"] == "assign":
                env[i["outs"][0]] = vals[0]
                continue
            outs = []
            for n, y in enumerate(i["outs"]):
                r = _h(seed, i["op"], vals, len(trace), n)
                r = 0 if r % 3 == 0 else r
                env[y] = r
                outs.append(r)
            trace.append((i["op"], tuple(map(str, vals)), tuple(outs)))
            labels = [a[1] for a in i["args"] if a[0] == "b" and a[1] in lab]
            if i is insts[-1] and labels:
                if i["op"] == "jnz" and len(labels) == 2:
                    c = vals[0]
                    nxt = labels[0] if (c != 0 and not (isinstance(c, tuple))) or (isinstance(c, tuple) and _h(seed, c) % 2) else labels[1]
                else:
                    nxt = labels[_h(seed, "br", len(trace)) % len(labels)]
        if nxt is None:
            return trace
        pred, b = b, lab[nxt]
    return trace


def witness(case, tries=40):
    if case.problem is not None:
        return {"problem": case.problem}
    for seed in range(tries):
        tb, ta = run_trace(case.before, seed), run_trace(case.after, seed)
        if tb != ta:
            k = next((i for i, (x, y) in enumerate(zip(tb, ta)) if x != y), min(len(tb), len(ta)))
            return {"problem": "the observable event streams of the function before and after MakeSSA differ",
                    "oracle_seed": seed, "first_difference_at_event": k,
                    "before_event": str(tb[k]) if k < len(tb) else "(end)", "after_event": str(ta[k]) if k < len(ta) else "(end)",
                    "note": "instructions are executed as uninterpreted functions of (opcode, operand values, event index); "
                            "an operand shown as ('undef', name) is a read of a never-assigned variable"}
    return None


def reads_unassigned(snap):
    """definite-assignment analysis of `before`: the first read of a variable that is not assigned on every path
    (MakeSSA's precondition; version 0 of a variable shares the name of the unassigned original)"""
    lab = {l: i for i, (l, _) in enumerate(snap)}
    n = len(snap)
    succ = [[lab[a[1]] for a in insts[-1]["args"] if a[0] == "b" and a[1] in lab] if insts else [] for _, insts in snap]
    preds = [[p for p in range(n) if b in succ[p]] for b in range(n)]
    allv = {v for _, insts in snap for i in insts for v in i["outs"]}
    out = [set(allv) for _ in range(n)]       # optimistic start
    inn = [set(allv) for _ in range(n)]
    changed = True
    while changed:
        changed = False
        for b in range(n):
            i_new = set() if b == 0 else (set.intersection(*[out[p] for p in preds[b]]) if preds[b] else set(allv))
            o_new = set(i_new)
            for i in snap[b][1]:
                o_new.update(i["outs"])
            if i_new != inn[b] or o_new != out[b]:
                inn[b], out[b] = i_new, o_new
                changed = True
    for b in range(n):
        cur = set(inn[b])
        for i in snap[b][1]:
            if i["op"] == "phi":
                args = i["args"]
                for j in range(0, len(args) - 1, 2):
                    if args[j][0] == "b" and args[j][1] in lab and args[j + 1][0] == "v" and args[j + 1][1] not in out[lab[args[j][1]]]:
                        return (snap[b][0], i["op"], args[j + 1][1])
            else:
                for a in i["args"]:
                    if a[0] == "v" and a[1] not in cur:
                        return (snap[b][0], i["op"], a[1])
            cur.update(i["outs"])
    return None


def evaluate(cases):
    exprs = [f"[if makessa_check {c.f}\n {c.g}\n {c.cert} then 1%Z else 0%Z]" for c in cases]
    if not exprs:
        return []
    return coqrun.eval_zlists(IMPORTS, exprs, f"c14d_mssa_{os.getpid()}", shard=max(1, min(50, (len(exprs) + 5) // 6)), timeout=1500)


# ------------------------------------------------------------------ random non-SSA functions
def random_function(rnd):
    n = rnd.randrange(3, 8)
    vs = ["%a", "%b", "%c", "%d"][: rnd.randrange(2, 5)]
    lines = ["function r {"]
    for b in range(n):
        lines.append(f"b{b}:")
        if b == 0:
            for v in vs:     # MakeSSA's precondition: nothing is read before it is assigned
                lines.append(f"    {v} = calldataload {32 * vs.index(v)}")
        for _ in range(rnd.randrange(0, 4)):
            r = rnd.random()
            v = rnd.choice(vs)
            if r < 0.5:
                lines.append(f"    {v} = add {rnd.choice(vs)}, {rnd.choice(vs + ['1', '7'])}")
            elif r < 0.7:
                lines.append(f"    {v} = sload {rnd.choice(vs + ['3'])}")
            elif r < 0.85:
                lines.append(f"    mstore {rnd.randrange(4) * 32}, {rnd.choice(vs)}")
            else:
                lines.append(f"    sstore {rnd.randrange(3)}, {rnd.choice(vs)}")
        if b == n - 1:
            lines.append(f"    mstore 0, {rnd.choice(vs)}")
            lines.append("    stop")
        else:
            others = [x for x in range(1, n) if x != b + 1]
            if others and rnd.random() < 0.7:
                t = rnd.choice(others)
                lines.append(f"    %k{b} = iszero {rnd.choice(vs)}")
                a, c = (b + 1, t) if rnd.random() < 0.5 else (t, b + 1)
                lines.append(f"    jnz %k{b}, @b{a}, @b{c}")
            else:
                lines.append(f"    jmp @b{b + 1}")
    lines.append("}")
    return "\n".join(lines) + "\n"


def run_random(rnd, n):
    from vyper.venom.analysis import IRAnalysesCache
    from vyper.venom.parser import parse_venom
    from vyper.venom.passes import MakeSSA
    done = 0
    for _ in range(n):
        text = random_function(rnd)
        try:
            ctx = parse_venom(text)
        except Exception:  # noqa
            continue
        for fn in ctx.functions.values():
            try:
                MakeSSA(IRAnalysesCache(fn), fn).run_pass()
                done += 1
            except Exception:  # noqa  (e.g. liveness of an undefined variable)
                pass
    return done
