"""C17 paired probes: the same expression once with literal operands (folded at compile time)
and once with the operands passed as calldata arguments (evaluated at run time)."""
import warnings

from eth_abi import encode

from .configs import compile_src
from .evm import Chain

REJECT = "reject"


def tname(T):
    return ("int" if T[0] else "uint") + str(T[1])


def bounds(T):
    s, n = T
    return (-(2 ** (n - 1)), 2 ** (n - 1) - 1) if s else (0, 2**n - 1)


def lit(v):
    return f"({v})" if v < 0 else str(v)


def dec_lit(n):
    """scaled integer (x 10^10) -> decimal literal"""
    s = "-" if n < 0 else ""
    n = abs(n)
    body = f"{n // 10**10}.{n % 10**10:010d}"
    return f"({s}{body})" if s else body


class Probe:
    """expr_lit: expression text with literal operands; rt: (argtypes, expr_rt) with x0,x1,.. ; args: values;
    ret: return type name; form/T/ops: metadata for the model correspondence."""
    __slots__ = ("form", "T", "ops", "expr_lit", "argtypes", "expr_rt", "args", "ret", "lit_res", "rt_res", "pre", "libpre")

    def __init__(self, form, T, ops, expr_lit, argtypes, expr_rt, args, ret, pre="", libpre=""):
        self.form, self.T, self.ops = form, T, tuple(ops)
        self.expr_lit, self.argtypes, self.expr_rt, self.args, self.ret = expr_lit, tuple(argtypes), expr_rt, tuple(args), ret
        self.lit_res = {}   # cfg name -> REJECT | bytes
        self.rt_res = {}    # cfg name -> REJECT | "revert" | bytes
        self.pre = pre          # module-level declarations of the literal side ({i} = unique suffix)
        self.libpre = libpre    # declarations placed in the imported module lib1.vy

    def ident(self):
        return {"form": self.form, "type": self.ret, "literal_side": self.expr_lit, "declarations": self.pre, "lib1.vy": self.libpre,
                "runtime_side": f"def f({', '.join(f'x{i}: {t}' for i, t in enumerate(self.argtypes))}) -> {self.ret}: return {self.expr_rt}",
                "args": [str(a) for a in self.args]}


def _fn(name, args, ret, expr):
    """`expr` is an expression, or "declarations @@ statements (; separated) @@ expression" ({n} = the function name), so that
    the run-time operand can first be moved to a memory or storage variable"""
    if "@@" in expr:
        decl, body, e = (x.strip().replace("{n}", name) for x in expr.split("@@"))
        stmts = "".join(f"    {st.strip()}\n" for st in body.split(";") if st.strip())
        return f"{decl}\n@external\ndef {name}({args}) -> {ret}:\n{stmts}    return {e}\n"
    return f"@external\ndef {name}({args}) -> {ret}:\n    return {expr}\n"


def lit_src(probes, start=0):
    """returns (main source, lib1 source or None)"""
    head, lib, fns = [], [], []
    for i, p in enumerate(probes):
        e = p.expr_lit
        if p.pre or p.libpre:
            e = e.replace("{i}", str(i))
            head.append(p.pre.replace("{i}", str(i)))
            if p.libpre:
                lib.append(p.libpre.replace("{i}", str(i)))
        fns.append(_fn(f"L{start + i}", "", p.ret, e))
    main = ("import lib1\n" if lib else "") + "\n".join(head) + "\n" + "\n".join(fns)
    return main, ("\n".join(lib) + "\n" if lib else None)


def _bundle(lib):
    if lib is None:
        return None
    from pathlib import PurePath
    from vyper.compiler.input_bundle import JSONInputBundle
    return JSONInputBundle({PurePath("lib1.vy"): {"content": lib}}, search_paths=[PurePath(".")])


def _selector(sig):
    from vyper.utils import method_id_int
    return method_id_int(sig).to_bytes(4, "big")


def frontend_accepts(src, cfg, lib=None):
    """True if the real front end (parse, fold, type-check) accepts; the exception name otherwise."""
    from vyper.exceptions import VyperException
    with warnings.catch_warnings():
        warnings.simplefilter("ignore")
        try:
            compile_src(src, cfg, formats=("abi",), input_bundle=_bundle(lib))
            return True
        except Exception as e:  # incl. compiler crashes: the program is not accepted
            return type(e).__name__


def full_compile(src, cfg, lib=None):
    from vyper.exceptions import VyperException
    with warnings.catch_warnings():
        warnings.simplefilter("ignore")
        try:
            return compile_src(src, cfg, formats=("bytecode",), input_bundle=_bundle(lib))["bytecode"]
        except Exception as e:
            return e


def _deploy(code_hex, cfg):
    ch = Chain(cfg.evm)
    addr = ch.deploy(bytes.fromhex(code_hex[2:]))
    return ch, addr


def run_literal_side(probes, cfgs_for_batch, front_cfg, batch=40, stats=None):
    """Fills p.lit_res.  First classifies each probe by the front end alone (cheap), then compiles the
    accepted ones in batches under the given configurations and calls them."""
    accepted = []
    for p in probes:
        m_src, l_src = lit_src([p])
        r = frontend_accepts(m_src, front_cfg, l_src)
        if r is True:
            accepted.append(p)
        else:
            p.lit_res["*"] = REJECT
            p.lit_res["why"] = r
    if stats is not None:
        stats["literal_rejected_by_frontend"] = stats.get("literal_rejected_by_frontend", 0) + len(probes) - len(accepted)
    k = 0
    for i in range(0, len(accepted), batch):
        chunk = accepted[i:i + batch]
        for cfg in cfgs_for_batch(k):
            _run_lit_chunk(chunk, cfg, stats)
        k += 1


def _run_lit_chunk(chunk, cfg, stats):
    m_src, l_src = lit_src(chunk)
    code = full_compile(m_src, cfg, l_src)
    if stats is not None:
        stats["compiles"] = stats.get("compiles", 0) + 1
    if isinstance(code, Exception):
        if len(chunk) == 1:
            chunk[0].lit_res[cfg.name] = REJECT
            chunk[0].lit_res["why"] = type(code).__name__
            return
        h = len(chunk) // 2
        _run_lit_chunk(chunk[:h], cfg, stats)
        _run_lit_chunk(chunk[h:], cfg, stats)
        return
    ch, addr = _deploy(code, cfg)
    if addr is None:
        for p in chunk:
            p.lit_res[cfg.name] = "deploy-failed"
        return
    for i, p in enumerate(chunk):
        r = ch.call(addr, _selector(f"L{i}()"))
        p.lit_res[cfg.name] = r.out if r.ok else "revert"


def run_runtime_side(probes, cfgs, front_cfg, batch=30, stats=None):
    """Fills p.rt_res: groups probes by runtime function, compiles the functions in batches under every
    configuration and calls them with the probes' operands."""
    groups = {}
    for p in probes:
        groups.setdefault((p.argtypes, p.ret, p.expr_rt), []).append(p)
    keys = []
    for key in groups:
        argtypes, ret, expr = key
        args = ", ".join(f"x{i}: {t}" for i, t in enumerate(argtypes))
        r = frontend_accepts(_fn("R0", args, ret, expr), front_cfg)
        if r is True:
            keys.append(key)
        else:
            for p in groups[key]:
                p.rt_res["*"] = REJECT
                p.rt_res["why"] = r
    for i in range(0, len(keys), batch):
        chunk = keys[i:i + batch]
        for cfg in cfgs:
            _run_rt_chunk(chunk, groups, cfg, stats)


def _run_rt_chunk(chunk, groups, cfg, stats):
    src = "\n".join(_fn(f"R{i}", ", ".join(f"x{j}: {t}" for j, t in enumerate(k[0])), k[1], k[2]) for i, k in enumerate(chunk))
    code = full_compile(src, cfg)
    if stats is not None:
        stats["compiles"] = stats.get("compiles", 0) + 1
    if isinstance(code, Exception):
        if len(chunk) == 1:
            for p in groups[chunk[0]]:
                p.rt_res[cfg.name] = REJECT
                p.rt_res["why"] = type(code).__name__
            return
        h = len(chunk) // 2
        _run_rt_chunk(chunk[:h], groups, cfg, stats)
        _run_rt_chunk(chunk[h:], groups, cfg, stats)
        return
    ch, addr = _deploy(code, cfg)
    for i, k in enumerate(chunk):
        abi_types = [_abi_type(t) for t in k[0]]
        sel = _selector(f"R{i}({','.join(abi_types)})")
        for p in groups[k]:
            if addr is None:
                p.rt_res[cfg.name] = "deploy-failed"
                continue
            try:
                data = sel + encode(abi_types, [_abi_val(t, a) for t, a in zip(k[0], p.args)])
            except Exception as e:  # operand not encodable in the declared type: harness error
                p.rt_res[cfg.name] = f"encode-error {e}"
                continue
            r = ch.call(addr, data)
            p.rt_res[cfg.name] = r.out if r.ok else "revert"


def _abi_type(t):
    if t == "decimal":
        return "int168"
    if t.startswith("Bytes["):
        return "bytes"
    if t.startswith("String["):
        return "string"
    return t


def _abi_val(t, a):
    return a


def decode_int(out, signed):
    v = int.from_bytes(out[:32], "big")
    if signed and v >= 2**255:
        v -= 2**256
    return v
