"""Check context: verdict protocol, replay files, evidence writing, known findings."""
import argparse
import json
import os
import sys
import time
import traceback
from pathlib import Path

from . import coqrun
from .common import COQ, EVIDENCE, REPLAYS, VERIF, pin_env, rng, seed

KINDS = ("failing-input", "theorem-broken", "correspondence-broken", "translator-rejected", "gate")


class Ctx:
    def __init__(self, pid, tier, level="proof", replay=None):
        self.pid = pid
        self.tier = tier
        self.level = level
        self.seed = seed()
        self.t0 = time.time()
        self.violations = []
        self.known_hits = []
        self.obligation_names = []
        self.discharged = 0
        self.assumptions_out = []
        self.coq_files = []
        self.corr = {}
        self.extra = {}
        self.trusted = []
        self.assumptions = []
        self.samples = []
        self.replay = replay
        self.replay_tag = ""   # set in forked workers so that replay file names stay unique
        self.checker_cmds = []
        kf = VERIF / "known_findings.json"
        self.known = json.loads(kf.read_text()) if kf.exists() else {"findings": []}
        REPLAYS.mkdir(exist_ok=True)
        EVIDENCE.mkdir(exist_ok=True)

    def rng(self, salt=""):
        return rng(f"{self.pid}:{salt}")

    def log(self, *a):
        print(f"[{self.pid}]", *a, flush=True)

    # ---- coq
    def coq_build_cached(self, files, timeout=900, deps=None):
        """Sequential build where a file is recompiled only if its source, any earlier file in the
        list, any Base file or the Coq version changed since its .vo was produced."""
        done = [COQ / d if not Path(d).is_absolute() else Path(d) for d in (deps or [])]
        for f in files:
            p = COQ / f if not Path(f).is_absolute() else Path(f)
            hits = coqrun.forbidden_tokens(p)
            if hits:
                self.violation("gate", f"forbidden construct in {f}", {"hits": hits[:10]})
                return {"ok": False, "file": str(f), "failed_lemma": None, "out": str(hits)}
            r = coqrun.coqc_cached(p, done, timeout=timeout)
            names = coqrun.obligations(p)
            self.coq_files.append(str(f))
            self.obligation_names += [f"{Path(f).stem}.{n}" for n in names]
            self.extra.setdefault("reused_vo", [])
            if r.get("reused"):
                self.extra["reused_vo"].append(str(f))
            if not r["ok"]:
                if r["failed_lemma"] in names:
                    self.discharged += names.index(r["failed_lemma"])
                return {"ok": False, "file": r["file"], "failed_lemma": r["failed_lemma"], "out": r["out"][-3000:]}
            self.discharged += len(names)
            self.assumptions_out += coqrun.parse_assumptions(r["out"])
            done.append(p)
        self.checker_cmds.append("coqc -Q coq Verif " + " ".join(str(f) for f in files) + " (content-keyed reuse)")
        return {"ok": True}

    def coq_build(self, files, timeout=900, force=True):
        """Compile files in order; record obligations; on failure record a theorem-broken
        pending item (returned) -- the caller runs Search and then calls self.violation."""
        for f in files:
            p = Path(f) if Path(f).is_absolute() else COQ / f
            hits = coqrun.forbidden_tokens(p)
            if hits:
                self.violation("gate", f"forbidden construct in {f}", {"hits": hits[:10]})
                return {"ok": False, "file": str(f), "failed_lemma": None, "out": str(hits)}
        ok, results = coqrun.build_sequence(files, force=force, timeout=timeout)
        self.checker_cmds.append("coqc -Q coq Verif " + " ".join(str(f) for f in files))
        for f in files:
            p = Path(f) if Path(f).is_absolute() else COQ / f
            names = coqrun.obligations(p)
            self.coq_files.append(str(f))
            self.obligation_names += [f"{Path(f).stem}.{n}" for n in names]
        for r in results:
            if r["ok"]:
                self.assumptions_out += coqrun.parse_assumptions(r["out"])
        if ok:
            self.discharged += sum(len(coqrun.obligations(Path(f) if Path(f).is_absolute() else COQ / f)) for f in files)
            return {"ok": True, "results": results}
        bad = results[-1]
        # obligations in files that compiled + those before the failing lemma
        good = 0
        for f in files:
            p = Path(f) if Path(f).is_absolute() else COQ / f
            names = coqrun.obligations(p)
            if str(p) == bad["file"]:
                if bad["failed_lemma"] in names:
                    good += names.index(bad["failed_lemma"])
                break
            good += len(names)
        self.discharged += good
        return {"ok": False, "file": bad["file"], "failed_lemma": bad["failed_lemma"], "out": bad["out"][-3000:]}

    def coq_build_parallel(self, files, timeout=900, workers=8, deps=None):
        """Compile independent files concurrently (all their deps must already be built).
        Returns {"ok": True} or the first failure record."""
        from concurrent.futures import ThreadPoolExecutor
        for f in files:
            p = Path(f) if Path(f).is_absolute() else COQ / f
            hits = coqrun.forbidden_tokens(p)
            if hits:
                self.violation("gate", f"forbidden construct in {f}", {"hits": hits[:10]})
                return {"ok": False, "file": str(f), "failed_lemma": None, "out": str(hits)}
        with ThreadPoolExecutor(max_workers=workers) as ex:
            def one(f):
                p = COQ / f if not Path(f).is_absolute() else Path(f)
                if deps is not None:
                    return coqrun.coqc_cached(p, [COQ / d for d in deps], timeout=timeout)
                return coqrun.coqc(p, timeout=timeout)
            results = list(ex.map(one, files))
        self.extra.setdefault("reused_vo", [])
        self.extra["reused_vo"] += [str(f) for f, r in zip(files, results) if r.get("reused")]
        self.checker_cmds.append("coqc -Q coq Verif {" + ",".join(str(f) for f in files) + "} (parallel)")
        bad = None
        for f, r in zip(files, results):
            p = Path(f) if Path(f).is_absolute() else COQ / f
            names = coqrun.obligations(p)
            self.coq_files.append(str(f))
            self.obligation_names += [f"{Path(f).stem}.{n}" for n in names]
            if r["ok"]:
                self.assumptions_out += coqrun.parse_assumptions(r["out"])
                self.discharged += len(names)
            else:
                if r["failed_lemma"] in names:
                    self.discharged += names.index(r["failed_lemma"])
                if bad is None:
                    bad = r
        if bad is None:
            return {"ok": True, "results": results}
        return {"ok": False, "file": bad["file"], "failed_lemma": bad["failed_lemma"], "out": bad["out"][-3000:]}

    # ---- verdicts
    def is_known(self, key):
        for f in self.known.get("findings", []):
            if f.get("property") == self.pid and f.get("key") == key and f.get("status") == "open":
                return f
        return None

    def violation(self, kind, name, detail, key=None):
        """kind=failing-input: `detail` holds the concrete input on which the property's own
        oracle fails.  Other kinds end the VIOLATION line with no-failing-input-found."""
        assert kind in KINDS
        if key is not None:
            kf = self.is_known(key)
            if kf is not None and kind == "failing-input":
                if key not in self.known_hits:
                    self.known_hits.append(key)
                    print(f"KNOWN-FINDING: property={self.pid} {kf.get('what', key)}", flush=True)
                return
        n = len(self.violations)
        path = REPLAYS / f"{self.pid}_{self.tier}_{self.replay_tag}{n}.json"
        rec = {
            "property": self.pid, "kind": kind, "name": name, "detail": detail, "seed": self.seed,
            "tier": self.tier, "key": key,
            "replay_cmd": f"python3 tools/check.py {self.pid} --replay {path}",
        }
        path.write_text(json.dumps(rec, indent=1, default=str))
        self.violations.append(rec)
        tail = "" if kind == "failing-input" else " no-failing-input-found"
        print(f"VIOLATION property={self.pid} replay={path}{tail}", flush=True)

    def run_groups(self, groups):
        """Run independent groups of parts in forked worker processes (each part is `(label, callable(ctx) -> int)`);
        every worker runs its group sequentially on its own copy of this context; the results (violations, known hits,
        obligations, coverage entries) are merged back.  Returns the sum of the parts' evaluation counts.
        VIOLATION / KNOWN-FINDING lines are printed by the workers themselves."""
        import multiprocessing as mp
        mpc = mp.get_context("fork")
        procs = []
        for gi, group in enumerate(groups):
            parent, child = mpc.Pipe(duplex=False)

            def work(conn=child, group=group, gi=gi):
                base = dict(v=len(self.violations), k=len(self.known_hits), o=len(self.obligation_names), d=self.discharged,
                            c=len(self.coq_files), t=len(self.trusted), s=len(self.samples), a=len(self.assumptions_out),
                            m=len(self.checker_cmds), corr=set(self.corr), extra=dict(self.extra))
                self.replay_tag = f"g{gi}_"
                total = 0
                try:
                    for label, fn in group:
                        t1 = time.time()
                        total += int(fn(self) or 0)
                        self.log(f"{label} {time.time() - t1:.0f}s")
                except Exception as e:
                    self.violation("correspondence-broken", f"harness exception in {group[0][0]}…: {type(e).__name__}: {e}",
                                   {"traceback": traceback.format_exc()[-4000:]})
                out = dict(total=total, violations=self.violations[base["v"]:], known=self.known_hits[base["k"]:],
                           obligation_names=self.obligation_names[base["o"]:], discharged=self.discharged - base["d"],
                           coq_files=self.coq_files[base["c"]:], trusted=self.trusted[base["t"]:], samples=self.samples[base["s"]:],
                           assumptions_out=self.assumptions_out[base["a"]:], checker_cmds=self.checker_cmds[base["m"]:],
                           corr={k: v for k, v in self.corr.items() if k not in base["corr"] or k in ("evaluations",)},
                           extra={k: v for k, v in self.extra.items() if base["extra"].get(k) != v})
                conn.send(json.loads(json.dumps(out, default=str)))
                conn.close()
                sys.stdout.flush()
                os._exit(0)
            pr = mpc.Process(target=work)
            pr.start()
            child.close()
            procs.append((pr, parent, group))
        total = 0
        for pr, parent, group in procs:
            try:
                out = parent.recv()
            except EOFError:
                out = None
            pr.join()
            if out is None:
                self.violation("correspondence-broken", f"worker for parts {[g[0] for g in group]} died without a result", {})
                continue
            total += out["total"]
            self.violations += out["violations"]
            self.known_hits += [k for k in out["known"] if k not in self.known_hits]
            self.obligation_names += out["obligation_names"]
            self.discharged += out["discharged"]
            self.coq_files += out["coq_files"]
            self.trusted += [t for t in out["trusted"] if t not in self.trusted]
            self.samples += out["samples"]
            self.assumptions_out += out["assumptions_out"]
            self.checker_cmds += out["checker_cmds"]
            ev = out["corr"].pop("evaluations", None)
            self.corr.update(out["corr"])
            for k, v in out["extra"].items():
                if isinstance(v, list) and isinstance(self.extra.get(k), list):
                    self.extra[k] = self.extra[k] + [x for x in v if x not in self.extra[k]]
                else:
                    self.extra[k] = v
        return total

    def finish(self):
        wall = time.time() - self.t0
        cov = {
            "obligations": max(len(self.obligation_names), 0),
            "discharged": self.discharged,
            "checker_cmd": " && ".join(self.checker_cmds) or "n/a",
            "trusted_base": self.trusted + ["Print Assumptions: " + a for a in sorted(set(self.assumptions_out))],
            "samples": self.samples[:12] or ["(none)"],
            "obligation_names": self.obligation_names[:400],
            "coq_files": self.coq_files,
            "correspondence": self.corr,
            "known_findings_hit": self.known_hits,
        }
        if "evaluations" in self.corr:
            cov["evaluations"] = int(self.corr["evaluations"])
            cov["distinct_nontrivial"] = int(self.corr.get("distinct_nontrivial", 0))
            cov["rule"] = self.corr.get("rule", "")
        cov.update(self.extra)
        if self.level != "proof":
            cov.setdefault("explanation", self.extra.get("explanation", ""))
        ev = {
            "property_id": self.pid, "tier": self.tier, "seed": self.seed, "level": self.level,
            "coverage": cov, "assumptions": self.assumptions, "wall_s": round(wall, 2),
            "violations": len(self.violations),
        }
        import re as _re
        if _re.fullmatch(r"C\d\d", self.pid):
            (EVIDENCE / f"{self.pid}.json").write_text(json.dumps(ev, indent=1, default=str))
        else:
            # stand-alone drivers of helper parts (C14F, C01V, ...) are development aids: their evidence is part of
            # the owning property's file when that check runs; keep evidence/ to the 20 property ids
            (VERIF / "build").mkdir(exist_ok=True)
            (VERIF / "build" / f"evidence_{self.pid}.json").write_text(json.dumps(ev, indent=1, default=str))
        self.log(f"done tier={self.tier} obligations={cov['obligations']} discharged={cov['discharged']} "
                 f"violations={len(self.violations)} known={len(self.known_hits)} wall={wall:.1f}s")
        return 1 if self.violations else 0


def main(pid, run, level="proof"):
    ap = argparse.ArgumentParser()
    ap.add_argument("--tier", default=os.environ.get("VERIF_TIER", "quick"))
    ap.add_argument("--replay", default=None)
    args, _ = ap.parse_known_args(sys.argv[2:] if len(sys.argv) > 1 and sys.argv[1] == pid else sys.argv[1:])
    pin_env()
    ctx = Ctx(pid, args.tier if args.tier in ("quick", "thorough") else "quick", level=level, replay=args.replay)
    try:
        run(ctx)
    except Exception as e:  # harness failure: fail closed
        tb = traceback.format_exc()
        ctx.violation("correspondence-broken", f"harness exception: {type(e).__name__}: {e}", {"traceback": tb[-4000:]})
    return ctx.finish()
