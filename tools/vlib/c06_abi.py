"""Shared ABI helpers for C06/C05 (owner: C06): python mirror of coq/C06/Abi.v type/value trees,
generators, renderers (Coq term, vyper source type, eth_abi type string, real ABIType object),
and batch evaluation of the Coq spec encoder.

Type trees (python tuples):
  ("uint",bits) ("int",bits) ("bool",) ("address",) ("bytesM",m) ("decimal",) ("flag",members)
  ("bytes",bound) ("string",bound) ("sarr",t,n) ("darr",t,bound) ("tuple",(t1,..,tk))   # tuple = struct
Values: python int | bytes | list
"""
from . import coqrun

SCALARS = ("uint", "int", "bool", "address", "bytesM", "decimal", "flag")


def is_dynamic(t):
    k = t[0]
    if k in ("bytes", "string", "darr"):
        return True
    if k == "sarr":
        return is_dynamic(t[1])
    if k == "tuple":
        return any(is_dynamic(x) for x in t[1])
    return False


def ceil32(x):
    return (x + 31) // 32 * 32


def size_bound(t):
    """independent python copy (used only to size Bytes[...] return types in generated sources)"""
    k = t[0]
    if k in SCALARS:
        return 32
    if k in ("bytes", "string"):
        return 32 + ceil32(t[1])
    if k == "sarr":
        return t[2] * ((32 if is_dynamic(t[1]) else 0) + size_bound(t[1]))
    if k == "darr":
        return 32 + t[2] * ((32 if is_dynamic(t[1]) else 0) + size_bound(t[1]))
    if k == "tuple":
        return sum((32 if is_dynamic(x) else 0) + size_bound(x) for x in t[1])
    raise ValueError(t)


def depth(t):
    k = t[0]
    if k in ("sarr", "darr"):
        return 1 + depth(t[1])
    if k == "tuple":
        return 1 + max(depth(x) for x in t[1])
    return 0


# ------------------------------------------------------------------ generators
def gen_scalar(r, allow_flag=True):
    k = r.choice(["uint", "uint", "int", "int", "bool", "address", "bytesM", "decimal", "flag"])
    if k == "flag" and not allow_flag:
        k = "uint"
    if k in ("uint", "int"):
        return (k, r.choice([8, 16, 64, 128, 248, 256, 8 * r.randint(1, 32)]))
    if k == "bytesM":
        return (k, r.choice([1, 4, 20, 31, 32, r.randint(1, 32)]))
    if k == "flag":
        return (k, r.choice([1, 2, 7, 255, 256]))
    return (k,)


def gen_type(r, d, allow_bytes=True, budget=2500):
    """random type tree of depth <= d whose size_bound stays under budget"""
    for _ in range(50):
        t = _gen_type(r, d, allow_bytes)
        if size_bound(t) <= budget:
            return t
    return ("uint", 256)


def _gen_type(r, d, allow_bytes, allow_flag=True):
    # vyper: static arrays of Bytes/String/flag are not allowed
    if d == 0 or r.random() < 0.15:
        c = r.random()
        if allow_bytes and c < 0.4:
            return (r.choice(["bytes", "string"]), r.choice([1, 5, 31, 32, 33, 40, 64, 65]))
        return gen_scalar(r, allow_flag)
    k = r.choice(["sarr", "darr", "darr", "tuple", "tuple"])
    if k == "sarr":
        return ("sarr", _gen_type(r, d - 1, False, False), r.choice([1, 2, 3]))
    if k == "darr":
        return ("darr", _gen_type(r, d - 1, True), r.choice([1, 2, 3, 4]))
    n = r.choice([1, 2, 2, 3, 4])
    return ("tuple", tuple(_gen_type(r, d - 1, True) for _ in range(n)))


def int_range(t):
    k = t[0]
    if k == "uint":
        return 0, 2 ** t[1] - 1
    if k == "int":
        return -(2 ** (t[1] - 1)), 2 ** (t[1] - 1) - 1
    if k == "bool":
        return 0, 1
    if k == "address":
        return 0, 2 ** 160 - 1
    if k == "decimal":
        return -(2 ** 167), 2 ** 167 - 1
    if k == "flag":
        return 0, 2 ** t[1] - 1
    raise ValueError(t)


def gen_value(r, t, mode="rand"):
    """mode: rand | min (empty/zero/lowest) | max (max-bound, extreme)"""
    k = t[0]
    if k in ("uint", "int", "bool", "address", "decimal", "flag"):
        lo, hi = int_range(t)
        if mode == "min":
            return lo
        if mode == "max":
            return hi
        c = r.random()
        if c < 0.5:
            return r.choice([x for x in (lo, hi, 0, 1, -1, lo + 1, hi - 1, 255, 256, -128) if lo <= x <= hi])
        return r.randint(lo, hi)
    if k == "bytesM":
        if mode == "min":
            return bytes(t[1])
        if mode == "max":
            return b"\xff" * t[1]
        return bytes(r.choice([0, 0xFF, r.randrange(256), r.randrange(256)]) for _ in range(t[1]))
    if k in ("bytes", "string"):
        b = t[1]
        if mode == "min":
            n = 0
        elif mode == "max":
            n = b
        else:
            n = r.choice([x for x in (0, 1, 31, 32, 33, b, b - 1, r.randint(0, b)) if 0 <= x <= b])
        if k == "string":
            return bytes(r.randrange(0x21, 0x7F) for _ in range(n))
        return bytes(r.choice([0xFF, 0x00, r.randrange(256), r.randrange(1, 256)]) for _ in range(n))
    if k == "sarr":
        return [gen_value(r, t[1], mode) for _ in range(t[2])]
    if k == "darr":
        b = t[2]
        n = 0 if mode == "min" else b if mode == "max" else r.choice([0, 1, b, r.randint(0, b)])
        n = min(n, b)
        # nested: mix modes so that "empty inside non-empty" and "full of empties" occur
        sub = mode if mode != "rand" else r.choice(["rand", "rand", "min", "max"])
        return [gen_value(r, t[1], sub if r.random() < 0.7 else "rand") for _ in range(n)]
    if k == "tuple":
        return [gen_value(r, x, mode) for x in t[1]]
    raise ValueError(t)


# ------------------------------------------------------------------ renderers
def coq_ty(t):
    k = t[0]
    if k == "uint":
        return f"(TUInt {t[1]})"
    if k == "int":
        return f"(TInt {t[1]})"
    if k == "bool":
        return "TBool"
    if k == "address":
        return "TAddress"
    if k == "bytesM":
        return f"(TBytesM {t[1]})"
    if k == "decimal":
        return "TDecimal"
    if k == "flag":
        return f"(TFlag {t[1]})"
    if k == "bytes":
        return f"(TBytes {t[1]})"
    if k == "string":
        return f"(TString {t[1]})"
    if k == "sarr":
        return f"(TSArr {coq_ty(t[1])} {t[2]})"
    if k == "darr":
        return f"(TDArr {coq_ty(t[1])} {t[2]})"
    if k == "tuple":
        return "(TTuple [" + "; ".join(coq_ty(x) for x in t[1]) + "])"
    raise ValueError(t)


def coq_bytes(b):
    return "[" + ";".join(str(x) for x in b) + "]"


def coq_val(t, v):
    k = t[0]
    if k in ("uint", "int", "bool", "address", "decimal", "flag"):
        return f"(VInt {coqrun.hexlit(v)})"
    if k in ("bytesM", "bytes", "string"):
        return f"(VBytes {coq_bytes(v)})"
    if k in ("sarr", "darr"):
        return "(VList [" + "; ".join(coq_val(t[1], x) for x in v) + "])"
    if k == "tuple":
        return "(VList [" + "; ".join(coq_val(x, y) for x, y in zip(t[1], v)) + "])"
    raise ValueError(t)


def eth_ty(t):
    k = t[0]
    if k == "uint":
        return f"uint{t[1]}"
    if k == "int":
        return f"int{t[1]}"
    if k == "bool":
        return "bool"
    if k == "address":
        return "address"
    if k == "bytesM":
        return f"bytes{t[1]}"
    if k == "decimal":
        return "int168"   # vyper's ABI name for decimal (DecimalT.abi_type = ABI_GIntM(168, True))
    if k == "flag":
        return "uint256"
    if k == "bytes":
        return "bytes"
    if k == "string":
        return "string"
    if k == "sarr":
        return f"{eth_ty(t[1])}[{t[2]}]"
    if k == "darr":
        return f"{eth_ty(t[1])}[]"
    if k == "tuple":
        return "(" + ",".join(eth_ty(x) for x in t[1]) + ")"
    raise ValueError(t)


def eth_val(t, v):
    k = t[0]
    if k in ("uint", "int", "flag", "decimal"):
        return v
    if k == "bool":
        return bool(v)
    if k == "address":
        return "0x" + v.to_bytes(20, "big").hex()
    if k in ("bytesM", "bytes"):
        return bytes(v)
    if k == "string":
        return bytes(v).decode("ascii")
    if k in ("sarr", "darr"):
        return [eth_val(t[1], x) for x in v]
    if k == "tuple":
        return tuple(eth_val(x, y) for x, y in zip(t[1], v))
    raise ValueError(t)


class Decls:
    """collects struct / flag declarations needed to name a type in vyper source"""

    def __init__(self):
        self.structs = {}
        self.flags = {}
        self.lines = []

    def vy(self, t):
        k = t[0]
        if k == "uint":
            return f"uint{t[1]}"
        if k == "int":
            return f"int{t[1]}"
        if k == "bool":
            return "bool"
        if k == "address":
            return "address"
        if k == "bytesM":
            return f"bytes{t[1]}"
        if k == "decimal":
            return "decimal"
        if k == "flag":
            if t[1] not in self.flags:
                name = f"F{t[1]}"
                self.flags[t[1]] = name
                self.lines.append(f"flag {name}:\n" + "".join(f"    M{i}\n" for i in range(t[1])))
            return self.flags[t[1]]
        if k == "bytes":
            return f"Bytes[{t[1]}]"
        if k == "string":
            return f"String[{t[1]}]"
        if k == "sarr":
            return f"{self.vy(t[1])}[{t[2]}]"
        if k == "darr":
            return f"DynArray[{self.vy(t[1])}, {t[2]}]"
        if k == "tuple":
            if t not in self.structs:
                members = [self.vy(x) for x in t[1]]
                name = f"S{len(self.structs)}"
                self.structs[t] = name
                self.lines.append(f"struct {name}:\n" + "".join(f"    m{i}: {m}\n" for i, m in enumerate(members)))
            return self.structs[t]
        raise ValueError(t)

    def text(self):
        return "\n".join(self.lines) + "\n"


def real_abi_type(t):
    """build the compiler's own ABIType object for t (vyper.abi_types, current /repo tree)"""
    from vyper import abi_types as A
    k = t[0]
    if k == "uint":
        return A.ABI_GIntM(t[1], False)
    if k == "int":
        return A.ABI_GIntM(t[1], True)
    if k == "bool":
        return A.ABI_Bool()
    if k == "address":
        return A.ABI_Address()
    if k == "bytesM":
        return A.ABI_BytesM(t[1])
    if k == "decimal":
        return A.ABI_GIntM(168, True)
    if k == "flag":
        return A.ABI_GIntM(256, False)
    if k == "bytes":
        return A.ABI_Bytes(t[1])
    if k == "string":
        return A.ABI_String(t[1])
    if k == "sarr":
        return A.ABI_StaticArray(real_abi_type(t[1]), t[2])
    if k == "darr":
        return A.ABI_DynamicArray(real_abi_type(t[1]), t[2])
    if k == "tuple":
        return A.ABI_Tuple([real_abi_type(x) for x in t[1]])
    raise ValueError(t)


# ------------------------------------------------------------------ Coq evaluation
IMPORTS = "From Verif Require Import C06.Abi.\n"


def coq_hex_batch(exprs, name, shard=60, timeout=900):
    """exprs: Coq terms of type `list Z` (bytes) -> python bytes, evaluated by vm_compute in coqc.
    Several byte lists can be packed into one expr by the caller using hex_join."""
    outs = coqrun.eval_cases(IMPORTS, [f"hex_of_bytes ({e})" for e in exprs], name, shard=shard, timeout=timeout)
    res = []
    for o in outs:
        o = o.strip()
        if o.endswith("%string"):
            o = o[:-7]
        res.append(bytes.fromhex(o.strip().strip('"')))
    return res


def coq_strings(exprs, name, shard=60, timeout=900, imports=IMPORTS):
    outs = coqrun.eval_cases(imports, exprs, name, shard=shard, timeout=timeout)
    res = []
    for o in outs:
        o = o.strip()
        if o.endswith("%string"):
            o = o[:-7]
        res.append(o.strip().strip('"'))
    return res


def front_end_types(types):
    """the compiler's own VyperType objects for the given type trees: a module declaring one external
    function with one argument per type is run through the real front end (current /repo tree)"""
    from pathlib import Path

    from vyper.compiler.input_bundle import FileInput
    from vyper.compiler.phases import CompilerData
    from vyper.compiler.settings import Settings
    d = Decls()
    names = [d.vy(t) for t in types]
    src = d.text() + "\n@external\ndef f(" + ", ".join(f"x{i}: {n}" for i, n in enumerate(names)) + "):\n    pass\n"
    cd = CompilerData(FileInput(0, Path("t.vy"), Path("t.vy"), src), settings=Settings(enable_decimals=True))
    mt = cd.annotated_vyper_module._metadata["type"]
    ft = [f for f in mt.exposed_functions if f.name == "f"][0]
    return [a.typ for a in ft.arguments]


# ------------------------------------------------------------------ python encoder with configurable padding
def py_enc(t, v, pad=0):
    """ABI encoding with every byte-string padding byte set to `pad` (pad=0: canonical; used only to build
    NON-canonical but acceptable inputs; pad=0 output is asserted equal to the Coq spec by the callers)"""
    k = t[0]
    if k in ("uint", "int", "bool", "address", "decimal", "flag"):
        return (v % 2 ** 256).to_bytes(32, "big")
    if k == "bytesM":
        return bytes(v) + bytes(32 - len(v))
    if k in ("bytes", "string"):
        return len(v).to_bytes(32, "big") + bytes(v) + bytes([pad]) * ((-len(v)) % 32)
    if k == "sarr":
        return _py_seq([(t[1], x) for x in v], pad)
    if k == "darr":
        return len(v).to_bytes(32, "big") + _py_seq([(t[1], x) for x in v], pad)
    if k == "tuple":
        return _py_seq(list(zip(t[1], v)), pad)
    raise ValueError(t)


def _py_seq(items, pad):
    encs = [(is_dynamic(t), py_enc(t, v, pad)) for t, v in items]
    head_len = sum(32 if d else len(e) for d, e in encs)
    heads, tails = b"", b""
    for d, e in encs:
        if d:
            heads += (head_len + len(tails)).to_bytes(32, "big")
            tails += e
        else:
            heads += e
    return heads + tails


def widen(r, t):
    """a type to which values of t are implicitly convertible with a DIFFERENT memory layout where possible:
    larger Bytes/String/DynArray bounds (structs are nominal: left unchanged)"""
    k = t[0]
    if k in ("bytes", "string"):
        return (k, t[1] + r.choice([1, 7, 32, 40]))
    if k == "darr":
        return ("darr", widen(r, t[1]), t[2] + r.choice([0, 1, 3]))
    if k == "sarr":
        return ("sarr", widen(r, t[1]), t[2])
    return t


def has_struct(t):
    k = t[0]
    if k == "tuple":
        return True
    if k in ("sarr", "darr"):
        return has_struct(t[1])
    return False
