"""Replay of a failing-input record written by C01/C02/C08: recompile the recorded source under the recorded configuration(s),
re-send the recorded calldata on pyrevm and print what the EVM does (next to the recorded expectation)."""
import json

from vlib.configs import Config, LEVELS, EVMS, compile_src
from vlib.evm import Chain, DEPLOYER, log_tuple


def parse_cfg(name):
    parts = name.split("-")
    venom = parts[0] == "venom"
    level, evm = parts[1], parts[2]
    debug, flags, inl = False, [], None
    for p in parts[3:]:
        if p == "debug":
            debug = True
        elif p.startswith("no_"):
            flags.append("disable_" + p[3:])
        elif p.startswith("inl"):
            inl = int(p[3:])
    return Config(venom, level, evm, debug=debug, flags=flags, inline_threshold=inl)


def run_under(src, cfg, calls):
    out = compile_src(src, cfg, formats=("bytecode",))
    ch = Chain(cfg.evm)
    addr = ch.deploy(bytes.fromhex(out["bytecode"][2:]))
    res = []
    for c in calls:
        data = bytes.fromhex(c["calldata"]) if isinstance(c, dict) else c
        sender = c.get("sender", DEPLOYER) if isinstance(c, dict) else DEPLOYER
        value = c.get("value", 0) if isinstance(c, dict) else 0
        r = ch.call(addr, data, value=value, sender=sender)
        try:
            ch.reset_transient()
        except Exception:
            pass
        res.append((r.ok, r.out.hex(), [(log_tuple(l)[1][0].hex()[:8] if log_tuple(l)[1] else "", log_tuple(l)[2].hex()) for l in r.logs if not isinstance(l, tuple)]))
    return res


def replay(ctx):
    """returns True if a replay was requested (and performed)"""
    if not ctx.replay:
        return False
    # a replay must not clobber the evidence of the last real run (the framework rewrites it on exit): put it back at exit
    import atexit
    from vlib.common import EVIDENCE
    ev = EVIDENCE / f"{ctx.pid}.json"
    if ev.exists():
        old = ev.read_bytes()
        atexit.register(lambda: ev.write_bytes(old))
    rec = json.load(open(ctx.replay))
    d = rec.get("detail", {})
    print(f"[replay] {rec.get('kind')} {rec.get('key')}: {rec.get('name')}")
    src = d.get("source")
    if not src:
        print("[replay] record has no source; detail:", json.dumps(d, indent=1)[:2000])
        return True
    if d.get("blueprint_source"):
        # C08 create family: deploy the recorded child as blueprint, the recorded factory, re-send every recorded test
        from eth_abi import encode
        cfg = parse_cfg(d["config"])
        bp = compile_src(d["blueprint_source"], cfg, formats=("blueprint_bytecode",))["blueprint_bytecode"]
        out = compile_src(src, cfg, formats=("bytecode",))
        ch = Chain(cfg.evm)
        blueprint = ch.deploy(bytes.fromhex(bp[2:]))
        factory = ch.deploy(bytes.fromhex(out["bytecode"][2:]))
        still = 0
        for f in d.get("failures", []):
            data = bytes.fromhex(f["calldata"])
            if len(data) == 36:
                data = data[:4] + encode(["address"], [blueprint])
            r = ch.call(factory, data)
            words = [str(int.from_bytes(r.out[i:i + 32], "big")) for i in range(0, len(r.out), 32)] if r.ok else ["REVERT", r.out.hex()]
            exp = [x for x in " ".join(f["expected"]).replace("(", " ").replace(")", " ").replace(",", " ").split()]
            same = words == exp
            still += 0 if same else 1
            print(f"[replay] {d['config']} {f['test']}: expected {exp} observed now {words} (recorded {f['observed']}) -> "
                  f"{'agrees with source order' if same else 'STILL DIFFERS'}")
        if still:
            ctx.violation("failing-input", rec.get("name"), d, key=rec.get("key"))
        return True
    from eth_utils import keccak
    calls = d.get("calls") or []
    norm = []
    for c in calls:
        if isinstance(c, dict) and "calldata" in c:
            norm.append(c)
        elif isinstance(c, str):           # an ABI signature without arguments
            norm.append({"calldata": keccak(c.encode())[:4].hex()})
    if not norm and d.get("call"):
        norm.append({"calldata": keccak(d["call"].encode())[:4].hex()})
    names = []
    if d.get("config"):
        names.append(d["config"])
    names += (d.get("configs_a") or [])[:1] + (d.get("configs_b") or [])[:1]
    for g in (d.get("groups") or [])[:2]:
        names.append(g[0])
    for n in dict.fromkeys(names):
        try:
            print(f"[replay] {n}: {run_under(src, parse_cfg(n), norm)}")
        except Exception as e:
            print(f"[replay] {n}: {type(e).__name__}: {str(e)[:300]}")
    print("[replay] recorded difference:", json.dumps(d.get("difference") or d.get("first_difference") or
                                                       {k: d.get(k) for k in ("observed_a", "observed_b", "message")}, default=str)[:1500])
    return True
