"""C20P: translate the token-stream state machines of vyper/ast/pre_parser.py to Gallina.

`ForParser.consume`, `HexStringParser.consume` and the body of the `for token in token_list` loop of
`PreParser._parse` are symbolically executed statement by statement in continuation-passing style: object
attributes (`self._state`, ...) and the loop-carried locals become Coq variables that are re-bound, python values
known at translation time (None, enum members, literal strings, token-type constants) are tracked per path, and
every operation that can raise becomes an explicit `PErr`: `raise X(...)` with X a documented user-facing class ->
`User`, everything else (failed assert, list index, dict key, attribute of None) -> `Internal`.
The `if typ == COMMENT:` block is replaced by a call of the parameter `hook` (its hand model is Pragma.v) after
checking that it only touches `settings`.  Anything outside the recognised shapes raises Unsupported."""
import ast
import inspect
import textwrap

from .py2coq import Unsupported

DOCUMENTED = ("SyntaxException", "PragmaException", "VersionException")
NOSTATIC = object()

FIELDS = {
    "ForParser": [("_state", "Z"), ("_current_for_loop", ("O", "Pos")), ("_current_annotation", ("O", ("L", "Tok"))),
                  ("annotations", ("D", ("O", "Pos"), ("L", "Tok")))],
    "HexStringParser": [("_state", "Z"), ("_tokens", ("L", "Tok")), ("locations", ("L", "Pos"))],
}
LOOP_VARS = [("adjustments", ("D", "Pos", "Z")), ("result", ("L", "Tok")), ("keyword_translations", ("D", "Pos", "S")),
             ("settings", "Set"), ("_col_adjustments", ("DD", "Z", "Z")), ("for_parser", "FP"), ("hex_string_parser", "HP")]
HOOK_NAMES = {"string", "contents", "settings", "code", "start", "self", "compiler_version", "validate_version_pragma",
              "_parse_pragma", "PragmaException"}


class V:
    def __init__(self, ty, text=None, static=NOSTATIC, pre=None):
        self.ty, self.text, self.static, self.pre = ty, text, static, pre or []

    @property
    def is_static(self):
        return self.static is not NOSTATIC


def st(v):
    return V("static", static=v)


def keyeq(t):
    return {"Pos": "pos_eqb", "Z": "Z.eqb", ("O", "Pos"): "opos_eqb"}[t]


KW = {"end", "in", "at", "as", "with", "match", "fun", "let", "if", "then", "else", "return", "Type", "fix", "forall", "exists"}


def cn(name):
    name = name.replace("self.", "")
    return name + "_" if name in KW else name


def zlit(n):
    return f"({n})" if n < 0 else str(n)


def slit(s):
    assert all(32 <= ord(c) < 127 for c in s)
    return '"' + s.replace('"', '""') + '"'


class Tr:
    def __init__(self):
        import vyper.ast.pre_parser as P
        self.P = P
        self.tree = ast.parse(inspect.getsource(P))
        self.tmp = 0
        self.consts = {}
        import tokenize as T
        for n in ("NAME", "OP", "STRING", "COMMENT", "NEWLINE", "INDENT", "DEDENT", "ENDMARKER"):
            if not hasattr(P, n):
                continue
            if getattr(P, n) != getattr(T, n):
                raise Unsupported(f"{n} rebound")
            self.consts[n] = getattr(T, n)
        self.states = {m.name: m.value for m in P.ParserState}
        self.dicts = {n: getattr(P, n) for n in ("VYPER_CLASS_TYPES", "CUSTOM_STATEMENT_TYPES", "CUSTOM_EXPRESSION_TYPES")}
        for d in self.dicts.values():
            if not all(isinstance(k, str) and isinstance(v, str) for k, v in d.items()):
                raise Unsupported("keyword table shape")

    def fresh(self, b="t"):
        self.tmp += 1
        return f"{b}__{self.tmp}"

    # ------------------------------------------------------------ rendering
    def render(self, v, ty):
        """Coq text of value v at type ty"""
        if not v.is_static:
            if v.ty != ty and not (ty == ("DD", "Z", "Z") and v.ty == ty):
                if isinstance(ty, tuple) and ty[0] == "O" and v.ty == ty[1]:
                    return f"(Some {v.text})"
                raise Unsupported(f"type {v.ty} where {ty} expected")
            return v.text
        s = v.static
        if ty == "Z" and isinstance(s, int) and not isinstance(s, bool):
            return zlit(s)
        if ty == "B" and isinstance(s, bool):
            return "true" if s else "false"
        if ty == "S" and isinstance(s, str):
            return slit(s)
        if isinstance(ty, tuple) and ty[0] == "O":
            return "None" if s is None else f"(Some {self.render(v, ty[1])})"
        if isinstance(ty, tuple) and ty[0] == "L" and s == []:
            return "[]"
        raise Unsupported(f"static {s!r} at {ty}")

    def wrap(self, pre, body):
        for v, m in reversed(pre):
            body = f"{v} <~ {m} ;;\n{body}"
        return body

    # ------------------------------------------------------------ expressions
    def ev(self, node, env):
        if isinstance(node, ast.Constant):
            return st(node.value)
        if isinstance(node, ast.Name):
            if node.id in env:
                return env[node.id]
            if node.id in self.consts:
                return st(self.consts[node.id])
            if node.id in self.dicts:
                return V("sdict", node.id)
            raise Unsupported(f"name {node.id}")
        if isinstance(node, ast.NamedExpr):
            v = self.ev(node.value, env)
            if v.is_static:
                env[node.target.id] = v
                return v
            nm = node.target.id
            env[nm] = V(v.ty, nm)
            return V(v.ty, nm, pre=v.pre + [(nm, f"POk {v.text}")])
        if isinstance(node, ast.Attribute):
            if isinstance(node.value, ast.Name) and node.value.id == "self":
                k = "self." + node.attr
                if k in env:
                    return env[k]
                raise Unsupported(f"attribute self.{node.attr}")
            if isinstance(node.value, ast.Name) and node.value.id == "ParserState":
                return st(self.states[node.attr])
            b = self.ev(node.value, env)
            if b.ty == "Tok":
                m = {"type": ("Z", "ttyp"), "string": ("S", "tstr"), "start": ("Pos", "tstart"), "end": ("Pos", "tend")}
                if node.attr == "line":
                    return V("line", "LINE")
                if node.attr in m:
                    t, f = m[node.attr]
                    return V(t, f"({f} {b.text})", pre=b.pre)
            raise Unsupported(f"attribute .{node.attr} of {b.ty}")
        if isinstance(node, ast.Tuple):
            vs = [self.ev(e, env) for e in node.elts]
            if len(vs) == 2 and all((v.ty == "Z" or (v.is_static and isinstance(v.static, int))) for v in vs):
                return V("Pos", f"({self.render(vs[0], 'Z')}, {self.render(vs[1], 'Z')})", pre=vs[0].pre + vs[1].pre)
            if all(v.is_static for v in vs):
                return st(tuple(v.static for v in vs))
            return V("tuple", vs)
        if isinstance(node, ast.List):
            vs = [self.ev(e, env) for e in node.elts]
            if not vs:
                return st([])
            if all(v.ty == "Tok" for v in vs):
                return V(("L", "Tok"), "[" + "; ".join(v.text for v in vs) + "]", pre=sum((v.pre for v in vs), []))
            raise Unsupported("list literal")
        if isinstance(node, ast.BinOp) and isinstance(node.op, (ast.Add, ast.Sub)):
            a, b = self.ev(node.left, env), self.ev(node.right, env)
            op = "+" if isinstance(node.op, ast.Add) else "-"
            if a.is_static and b.is_static:
                return st(a.static + b.static if op == "+" else a.static - b.static)
            return V("Z", f"({self.render(a, 'Z')} {op} {self.render(b, 'Z')})", pre=a.pre + b.pre)
        if isinstance(node, ast.BoolOp) and isinstance(node.op, ast.Or) and len(node.values) == 2:
            a, b = self.ev(node.values[0], env), self.ev(node.values[1], env)
            if b.is_static and b.static == []:
                if a.is_static:
                    return a if a.static else b
                if a.ty == ("O", ("L", "Tok")):
                    return V(("L", "Tok"), f"(opt_or_nil {a.text})", pre=a.pre)
            raise Unsupported("`or` on values")
        if isinstance(node, ast.Subscript):
            b = self.ev(node.value, env)
            i = self.ev(node.slice, env)
            if b.ty == "Pos" and i.is_static and i.static in (0, 1):
                return V("Z", f"({'fst' if i.static == 0 else 'snd'} {b.text})", pre=b.pre)
            if isinstance(b.ty, tuple) and b.ty[0] == "L" and i.is_static and isinstance(i.static, int) and i.static >= 0:
                t = self.fresh()
                return V(b.ty[1], t, pre=b.pre + [(t, f"lindex {b.text} {i.static}")])
            if isinstance(b.ty, tuple) and b.ty[0] == "DD":
                return V(b.ty[2], f"(dget_default {keyeq(b.ty[1])} {b.text} {self.render(i, b.ty[1])} 0)", pre=b.pre + i.pre)
            if b.ty == "sdict" and i.ty == "S":
                t = self.fresh()
                return V("S", t, pre=i.pre + [(t, f"(match assoc_str {b.text} {i.text} with Some v => POk v | None => PErr (Internal KeyErr) end)")])
            raise Unsupported(f"subscript on {b.ty}")
        if isinstance(node, ast.Call):
            return self.call(node, env)
        if isinstance(node, ast.JoinedStr):
            parts = []
            pre = []
            for p in node.values:
                if isinstance(p, ast.Constant):
                    parts.append(slit(p.value))
                elif isinstance(p, ast.FormattedValue) and p.format_spec is None and p.conversion == -1:
                    v = self.ev(p.value, env)
                    parts.append(self.render(v, "S"))
                    pre += v.pre
                else:
                    raise Unsupported("f-string part")
            return V("S", "(" + " +++ ".join(parts) + ")", pre=pre)
        if isinstance(node, (ast.Compare, ast.BoolOp, ast.UnaryOp)):
            raise Unsupported("boolean expression used as a value")
        raise Unsupported(f"expression {type(node).__name__}")

    def call(self, node, env):
        f = node.func
        if isinstance(f, ast.Name) and f.id == "len" and len(node.args) == 1:
            a = self.ev(node.args[0], env)
            if a.is_static and isinstance(a.static, (str, list)):
                return st(len(a.static))
            if a.ty == "S":
                return V("Z", f"(slen {a.text})", pre=a.pre)
            if isinstance(a.ty, tuple) and a.ty[0] == "L":
                return V("Z", f"(Z.of_nat (List.length {a.text}))", pre=a.pre)
            raise Unsupported("len")
        if isinstance(f, ast.Name) and f.id == "TokenInfo" and len(node.args) == 5:
            ty, s, a, b, ln = (self.ev(x, env) for x in node.args)
            if ln.ty != "line":
                raise Unsupported("TokenInfo line argument")
            return V("Tok", f"(mk_token {self.render(ty, 'Z')} {self.render(s, 'S')} {self.render(a, 'Pos')} {self.render(b, 'Pos')})",
                     pre=ty.pre + s.pre + a.pre + b.pre)
        raise Unsupported(f"call {ast.unparse(f)}")

    # ------------------------------------------------------------ conditions (CPS, short-circuit, effects)
    def cond(self, node, env, kt, kf):
        if isinstance(node, ast.BoolOp):
            vals = node.values
            if isinstance(node.op, ast.And):
                def chain(i, e):
                    if i == len(vals):
                        return kt(e)
                    return self.cond(vals[i], e, lambda e2: chain(i + 1, e2), kf)
                return chain(0, env)
            def chain(i, e):
                if i == len(vals):
                    return kf(e)
                return self.cond(vals[i], e, kt, lambda e2: chain(i + 1, e2))
            return chain(0, env)
        if isinstance(node, ast.UnaryOp) and isinstance(node.op, ast.Not):
            return self.cond(node.operand, env, kf, kt)
        if isinstance(node, ast.Call) and isinstance(node.func, ast.Attribute) and node.func.attr == "consume" \
                and isinstance(node.func.value, ast.Name) and node.func.value.id in env:
            obj = node.func.value.id
            ty = env[obj].ty
            b = self.fresh("b")
            e2 = dict(env)
            if ty == "FP" and len(node.args) == 1:
                tok = self.ev(node.args[0], env)
                head = f"'({obj}, {b}) <~ gen_for_consume {env[obj].text} {tok.text} ;;"
            elif ty == "HP" and len(node.args) == 2:
                tok = self.ev(node.args[0], env)
                res = node.args[1]
                if not (isinstance(res, ast.Name) and res.id in env):
                    raise Unsupported("hex consume result argument")
                head = f"'({obj}, {res.id}, {b}) <~ gen_hex_consume {env[obj].text} {tok.text} {env[res.id].text} ;;"
                e2[res.id] = V(env[res.id].ty, res.id)
            else:
                raise Unsupported("consume call shape")
            e2[obj] = V(ty, obj)
            return f"{head}\nif {b} then\n{textwrap.indent(kt(e2), '  ')}\nelse\n{textwrap.indent(kf(e2), '  ')}"
        if isinstance(node, ast.Compare) and len(node.ops) == 1:
            e = dict(env)
            a = self.ev(node.left, e)
            op = node.ops[0]
            rhs = node.comparators[0]
            if isinstance(op, (ast.Is, ast.IsNot)) and isinstance(rhs, ast.Constant) and rhs.value is None:
                neg = isinstance(op, ast.IsNot)
                if a.is_static:
                    return (kt if ((a.static is None) != neg) else kf)(e)
                if isinstance(a.ty, tuple) and a.ty[0] == "O":
                    n_, s_ = (kf, kt) if neg else (kt, kf)
                    return self.wrap(a.pre, f"match {a.text} with\n| None =>\n{textwrap.indent(n_(e), '    ')}\n| Some _ =>\n{textwrap.indent(s_(e), '    ')}\nend")
                raise Unsupported("is None on non-optional")
            b = self.ev(rhs, e)
            txt = self.cmp(a, op, b)
            if isinstance(txt, bool):
                return (kt if txt else kf)(e)
            return self.wrap(a.pre + b.pre, f"if {txt} then\n{textwrap.indent(kt(e), '  ')}\nelse\n{textwrap.indent(kf(e), '  ')}")
        raise Unsupported(f"condition {ast.unparse(node)[:60]}")

    def cmp(self, a, op, b):
        """-> python bool (decided) or Coq bool text"""
        if isinstance(op, (ast.In, ast.NotIn)):
            neg = isinstance(op, ast.NotIn)
            if b.ty == "sdict":
                if a.is_static:
                    r = a.static in self.dicts[b.text]
                    return r != neg
                t = f"(str_key_in {b.text} {a.text})"
            elif b.is_static and isinstance(b.static, tuple) and all(isinstance(x, str) for x in b.static):
                if a.is_static:
                    return (a.static in b.static) != neg
                t = "(str_in [" + "; ".join(slit(x) for x in b.static) + f"] {a.text})"
            elif b.is_static and isinstance(b.static, tuple) and all(isinstance(x, int) and not isinstance(x, bool) for x in b.static):
                if a.is_static:
                    return (a.static in b.static) != neg
                t = "(z_in [" + "; ".join(zlit(x) for x in b.static) + f"] {self.render(a, 'Z')})"
            else:
                raise Unsupported("`in` operand")
            return f"(negb {t})" if neg else t
        if isinstance(op, (ast.Eq, ast.NotEq)):
            neg = isinstance(op, ast.NotEq)
            if a.ty == "tuple" or b.ty == "tuple":
                xs = a.text if a.ty == "tuple" else [st(x) for x in a.static]
                ys = b.text if b.ty == "tuple" else [st(y) for y in b.static]
                if len(xs) != len(ys):
                    return neg
                parts = [self.cmp(x, ast.Eq(), y) for x, y in zip(xs, ys)]
                if any(p is False for p in parts):
                    return neg
                parts = [p for p in parts if p is not True]
                if not parts:
                    return not neg
                t = "(" + " && ".join(parts) + ")"
                return f"(negb {t})" if neg else t
            if a.is_static and b.is_static:
                return (a.static == b.static) != neg
            ty = a.ty if not a.is_static else b.ty
            if ty == "Z":
                t = f"({self.render(a, 'Z')} =? {self.render(b, 'Z')})"
            elif ty == "S":
                t = f"(String.eqb {self.render(a, 'S')} {self.render(b, 'S')})"
            else:
                raise Unsupported(f"== at {ty}")
            return f"(negb {t})" if neg else t
        raise Unsupported(f"comparison {type(op).__name__}")

    # ------------------------------------------------------------ statements
    def block(self, stmts, env, fin):
        """fin: dict(fall=..., ret=...) continuations taking env (and the returned value)"""
        if not stmts:
            return fin["fall"](env)
        s, rest = stmts[0], stmts[1:]
        nxt = lambda e: self.block(rest, e, fin)  # noqa
        if isinstance(s, ast.Expr) and isinstance(s.value, ast.Constant):
            return nxt(env)
        if isinstance(s, ast.Return):
            return fin["ret"](env, self.ev(s.value, env))
        if isinstance(s, ast.Raise):
            return self.raise_(s, env)
        if isinstance(s, ast.Assert):
            return self.cond(s.test, env, nxt, lambda e: "PErr (Internal AssertFail)")
        if isinstance(s, ast.If):
            if self.is_comment_block(s):
                self.check_hook_block(s)
                e2 = dict(env)
                e2["settings"] = V("Set", "settings")
                return (f"settings <~ (if (ttyp token =? {self.consts['COMMENT']}) then hook (tstr token) (tstart token) "
                        f"{env['settings'].text} else POk {env['settings'].text}) ;;\n{nxt(e2)}")
            return self.cond(s.test, env, lambda e: self.block(s.body + rest, e, fin),
                             lambda e: self.block(list(s.orelse) + rest, e, fin))
        if isinstance(s, ast.Assign) and len(s.targets) == 1:
            return self.assign(s.targets[0], s.value, env, nxt)
        if isinstance(s, ast.AugAssign) and isinstance(s.op, ast.Add) and isinstance(s.target, ast.Subscript):
            d = self.ev(s.target.value, env)
            if not (isinstance(d.ty, tuple) and d.ty[0] == "DD"):
                raise Unsupported("augmented assignment target")
            k = self.ev(s.target.slice, env)
            v = self.ev(s.value, env)
            kt = self.render(k, d.ty[1])
            name = s.target.value.id
            e2 = dict(env)
            e2[name] = V(d.ty, name)
            return self.wrap(k.pre + v.pre, f"let {name} := dset {keyeq(d.ty[1])} {d.text} {kt} "
                                            f"(dget_default {keyeq(d.ty[1])} {d.text} {kt} 0 + {self.render(v, 'Z')}) in\n{nxt(e2)}")
        if isinstance(s, ast.Expr) and isinstance(s.value, ast.Call) and isinstance(s.value.func, ast.Attribute) \
                and s.value.func.attr in ("append", "extend") and len(s.value.args) == 1:
            return self.list_op(s.value, env, nxt)
        if isinstance(s, ast.Expr) and isinstance(s.value, ast.Call) and isinstance(s.value.func, ast.Attribute) \
                and s.value.func.attr == "setdefault" and len(s.value.args) == 2 and not s.value.keywords:
            dk = self.target_key(s.value.func.value)
            d = env.get(dk)
            if d is None or not (isinstance(d.ty, tuple) and d.ty[0] == "D"):
                raise Unsupported("setdefault receiver")
            k = self.ev(s.value.args[0], env)
            v = self.ev(s.value.args[1], env)
            var = cn(dk)
            e2 = dict(env)
            e2[dk] = V(d.ty, var)
            return self.wrap(k.pre + v.pre, f"let {var} := dsetdefault {keyeq(d.ty[1])} {d.text} {self.render(k, d.ty[1])} "
                                            f"{self.render(v, d.ty[2])} in\n{nxt(e2)}")
        raise Unsupported(f"statement {ast.unparse(s)[:60]}")

    def raise_(self, s, env):
        c = s.exc
        if not (isinstance(c, ast.Call) and isinstance(c.func, ast.Name)):
            raise Unsupported("raise shape")
        if c.func.id not in DOCUMENTED:
            return "PErr (Internal Raised)"
        if len(c.args) != 4:
            raise Unsupported("exception arguments")
        msg, _, ln, col = c.args
        m, l, k = self.ev(msg, env), self.ev(ln, env), self.ev(col, env)
        return self.wrap(m.pre + l.pre + k.pre,
                         f"PErr (User {slit(c.func.id)} {self.render(l, 'Z')} {self.render(k, 'Z')} {self.render(m, 'S')})")

    def target_key(self, t):
        if isinstance(t, ast.Name):
            return t.id
        if isinstance(t, ast.Attribute) and isinstance(t.value, ast.Name) and t.value.id == "self":
            return "self." + t.attr
        return None

    def assign(self, target, value, env, nxt):
        key = self.target_key(target)
        if key is not None:
            v = self.ev(value, env)
            e2 = dict(env)
            if v.is_static or v.ty in ("line", "sdict"):
                e2[key] = v
                return self.wrap(v.pre, nxt(e2))
            var = cn(key)
            e2[key] = V(v.ty, var)
            return self.wrap(v.pre, f"let {var} := {v.text} in\n{nxt(e2)}")
        if isinstance(target, ast.Tuple) and all(isinstance(t, ast.Name) for t in target.elts) and len(target.elts) == 2:
            v = self.ev(value, env)
            if v.ty != "Pos":
                raise Unsupported("tuple unpack of non-position")
            a, b = (t.id for t in target.elts)
            e2 = dict(env)
            e2[a], e2[b] = V("Z", cn(a)), V("Z", cn(b))
            return self.wrap(v.pre, f"let {cn(a)} := fst {v.text} in\nlet {cn(b)} := snd {v.text} in\n{nxt(e2)}")
        if isinstance(target, ast.Subscript):
            dk = self.target_key(target.value)
            d = env.get(dk)
            if d is None or not (isinstance(d.ty, tuple) and d.ty[0] in ("D", "DD")):
                raise Unsupported("subscript store target")
            k = self.ev(target.slice, env)
            v = self.ev(value, env)
            var = dk.replace("self.", "")
            e2 = dict(env)
            e2[dk] = V(d.ty, var)
            return self.wrap(k.pre + v.pre, f"let {var} := dset {keyeq(d.ty[1])} {d.text} {self.render(k, d.ty[1])} "
                                            f"{self.render(v, d.ty[2])} in\n{nxt(e2)}")
        raise Unsupported("assignment target")

    def list_op(self, c, env, nxt):
        dk = self.target_key(c.func.value)
        if dk is None or dk not in env:
            raise Unsupported("list method receiver")
        l = env[dk]
        a = self.ev(c.args[0], env)
        var = dk.replace("self.", "")
        e2 = dict(env)
        if isinstance(l.ty, tuple) and l.ty[0] == "O" or (l.is_static and l.static is None):
            if c.func.attr != "append":
                raise Unsupported("extend on optional")
            if l.is_static:
                if l.static is None:
                    return "PErr (Internal TypeErr)"
                raise Unsupported("append on static non-None")
            e2[dk] = V(l.ty, var)
            return self.wrap(a.pre, f"match {l.text} with\n| Some a__ =>\n    let {var} := Some (a__ ++ [{a.text}]) in\n"
                                    f"{textwrap.indent(nxt(e2), '    ')}\n| None => PErr (Internal TypeErr)\nend")
        lt = ("L", a.ty) if c.func.attr == "append" else a.ty
        cur = "[]" if l.is_static and l.static == [] else (l.text if not l.is_static else None)
        if cur is None:
            raise Unsupported("list receiver value")
        ety = lt if isinstance(lt, tuple) else l.ty
        e2[dk] = V(ety, var)
        add = f"[{a.text}]" if c.func.attr == "append" else self.render(a, ety)
        return self.wrap(a.pre, f"let {var} := {cur} ++ {add} in\n{nxt(e2)}")

    # ------------------------------------------------------------ the COMMENT block
    def is_comment_block(self, s):
        t = s.test
        return (isinstance(t, ast.Compare) and isinstance(t.left, ast.Name) and t.left.id == "typ"
                and isinstance(t.comparators[0], ast.Name) and t.comparators[0].id == "COMMENT" and not s.orelse)

    def check_hook_block(self, s):
        names = {n.id for x in s.body for n in ast.walk(x) if isinstance(n, ast.Name)}
        extra = names - HOOK_NAMES
        if extra:
            raise Unsupported(f"COMMENT block touches {sorted(extra)}")
        stores = {self.target_key(t) for x in s.body for n in ast.walk(x) if isinstance(n, ast.Assign) for t in n.targets}
        if not stores <= {"contents", "compiler_version", None}:
            raise Unsupported(f"COMMENT block assigns {stores}")

    # ------------------------------------------------------------ drivers
    def method(self, cls, name):
        for n in self.tree.body:
            if isinstance(n, ast.ClassDef) and n.name == cls:
                for m in n.body:
                    if isinstance(m, ast.FunctionDef) and m.name == name:
                        return m
        raise Unsupported(f"{cls}.{name} not found")

    def gen_method(self, cls, coqname, rec, mk, extra_params):
        m = self.method(cls, "consume")
        params = [a.arg for a in m.args.args]
        fields = FIELDS[cls]
        env = {"self._code": st("code")}
        lets = []
        for f, ty in fields:
            acc = f"{rec}_{ {'_state': 'state', '_current_for_loop': 'for', '_current_annotation': 'ann', 'annotations': 'anns', '_tokens': 'toks', 'locations': 'locs'}[f] }"
            var = f
            env["self." + f] = V(ty, var)
            lets.append(f"let {var} := {acc} st in")
        if params[1] != "token":
            raise Unsupported("consume signature")
        env["token"] = V("Tok", "token")
        for p, ty in extra_params:
            if p not in params:
                raise Unsupported(f"parameter {p} missing")
            env[p] = V(ty, p)

        def ret(e, v):
            vals = " ".join(self.render(e["self." + f], ty) for f, ty in fields)
            extra = "".join(", " + self.render(e[p], ty) for p, ty in extra_params)
            return self.wrap(v.pre, f"POk ({mk} {vals}{extra}, {self.render(v, 'B')})")

        body = self.block(m.body, env, {"ret": ret, "fall": lambda e: (_ for _ in ()).throw(Unsupported("falls off the end"))})
        sig = "".join(f" ({p} : list Tok.token)" for p, _ in extra_params)
        rty = f"{rec} * list Tok.token * bool" if extra_params else f"{rec} * bool"
        return (f"Definition {coqname} (st : {rec}) (token : Tok.token){sig} : pres ({rty}) :=\n"
                + textwrap.indent("\n".join(lets) + "\n" + body, "  ") + ".")

    def gen_loop(self):
        m = self.method("PreParser", "_parse")
        loops = [n for n in m.body if isinstance(n, ast.For)]
        if len(loops) < 1:
            raise Unsupported("token loop not found")
        lp = loops[0]
        if not (isinstance(lp.target, ast.Name) and lp.target.id == "token" and isinstance(lp.iter, ast.Name)):
            raise Unsupported("token loop header")
        env = {"token": V("Tok", "token"), "code": st("code")}
        lets = []
        acc = {"adjustments": "m_adj", "result": "m_res", "keyword_translations": "m_kw", "settings": "m_set",
               "_col_adjustments": "m_col", "for_parser": "m_fp", "hex_string_parser": "m_hp"}
        for v, ty in LOOP_VARS:
            env[v] = V(ty, v)
            lets.append(f"let {v} := {acc[v]} _ st in")

        def fall(e):
            return "POk (mk_ms _ " + " ".join(self.render(e[v], ty) for v, ty in LOOP_VARS) + ")"

        body = self.block(lp.body, env, {"fall": fall, "ret": lambda e, v: (_ for _ in ()).throw(Unsupported("return in loop"))})
        return ("Definition gen_step (st : ms S) (token : Tok.token) : pres (ms S) :=\n"
                + textwrap.indent("\n".join(lets) + "\n" + body, "  ") + ".")


def gen_constants():
    tr = Tr()
    P = tr.P
    lines = ["(* GENERATED by tools/vlib/c20_preparse2coq.py from the running interpreter's `tokenize` module and",
             "   vyper/ast/pre_parser.py (ParserState, keyword tables) -- do not edit *)",
             "From Coq Require Import ZArith List String.", "Import ListNotations.", "Open Scope Z_scope."]
    import tokenize as T
    for n in ("NAME", "OP", "STRING", "COMMENT", "NEWLINE", "INDENT", "DEDENT", "ENDMARKER"):
        lines.append(f"Definition T_{n} : Z := {getattr(T, n)}.")
    for n, v in tr.states.items():
        lines.append(f"Definition S_{n} : Z := {v}.")
    for n, d in tr.dicts.items():
        lines.append(f"Definition {n} : list (string * string) :=\n  [" + "; ".join(f"({slit(k)}, {slit(v)})" for k, v in d.items()) + "]%string.")
    return "\n".join(lines) + "\n"


def gen_pragma_constants():
    import vyper.compiler.settings as S
    from vyper.evm.opcodes import EVM_VERSIONS
    fn = None
    for n in ast.walk(ast.parse(inspect.getsource(S))):
        if isinstance(n, ast.FunctionDef) and n.name == "from_string":
            fn = n
    if fn is None or not isinstance(fn.body[0], ast.Match) or not isinstance(fn.body[-1], ast.Raise) or len(fn.body) != 2:
        raise Unsupported("OptimizationLevel.from_string shape")
    rows = []
    for case in fn.body[0].cases:
        pats = case.pattern.patterns if isinstance(case.pattern, ast.MatchOr) else [case.pattern]
        r = case.body[0]
        if not (len(case.body) == 1 and isinstance(r, ast.Return) and isinstance(r.value, ast.Attribute)):
            raise Unsupported("from_string case body")
        for p in pats:
            if not (isinstance(p, ast.MatchValue) and isinstance(p.value, ast.Constant) and isinstance(p.value.value, str)):
                raise Unsupported("from_string pattern")
            rows.append((p.value.value, r.value.attr))
    lines = ["(* GENERATED by tools/vlib/c20_preparse2coq.py from vyper/compiler/settings.py (OptimizationLevel.from_string)",
             "   and vyper/evm/opcodes.py (EVM_VERSIONS) -- do not edit *)",
             "From Coq Require Import List String.", "Import ListNotations.", "Open Scope string_scope.",
             "Definition OPT_TABLE : list (string * string) :=\n  [" + "; ".join(f"({slit(a)}, {slit(b)})" for a, b in rows) + "].",
             "Definition EVM_VERSION_NAMES : list string := [" + "; ".join(slit(v) for v in EVM_VERSIONS) + "]."]
    return "\n".join(lines) + "\n"


def gen_preparse():
    tr = Tr()
    f1 = tr.gen_method("ForParser", "gen_for_consume", "fp", "mk_fp", [])
    f2 = tr.gen_method("HexStringParser", "gen_hex_consume", "hp", "mk_hp", [("result", ("L", "Tok"))])
    f3 = tr.gen_loop()
    head = ["(* GENERATED by tools/vlib/c20_preparse2coq.py from vyper/ast/pre_parser.py -- do not edit *)",
            "From Coq Require Import ZArith List Bool String.",
            "From Verif Require Import Base.PyInt C20P.Tok C20P.GenTokConst C20P.PreParse.",
            "Import ListNotations.", "Open Scope string_scope.", "Open Scope list_scope.", "Open Scope Z_scope.",
            'Local Infix "+++" := append (at level 60, right associativity).', ""]
    tail = """
Fixpoint gen_run_from (st : ms S) (ts : list token) : pres (ms S) :=
  match ts with
  | [] => POk st
  | t :: r => st' <~ gen_step st t ;; gen_run_from st' r
  end.
Definition gen_run (s0 : S) (ts : list token) : pres (ms S) := gen_run_from (ms_init S s0) ts.
End GenLoop.
"""
    return ("\n".join(head) + f1 + "\n\n" + f2 + "\n\nSection GenLoop.\nVariable S : Type.\n"
            "Variable hook : string -> pos -> S -> pres S.\n\n" + f3 + "\n" + tail)
