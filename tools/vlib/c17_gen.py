"""C17: regenerate coq/C17/GenFold.v from /repo (T-tie).

Pulls the integer code paths of
  * vyper.utils.evm_div / evm_mod
  * vyper.ast.nodes.<Operator>._op           (methods or `_op = operator.X` class attributes)
  * vyper.builtins.functions.<Builtin>._try_fold   (Shift, AddMod, MulMod, PowMod256, Abs, Min, Max, AsWeiValue)
out of the class bodies, rewrites the AST-node plumbing (`node.args[i].get_folded_value()`,
`vy_ast.Int.from_node(node, value=E)`, `isinstance(x, vy_ast.Int)`) to plain integer code for the case
"every argument is an Int literal", and hands the result to the fail-closed py2coq translator.

What is specialised away (stated, not hidden):
  * isinstance(x, int | vy_ast.Int | (vy_ast.Decimal, vy_ast.Int) | type(y)) -> True, isinstance(x, decimal.Decimal) -> False
    (integer instantiation; Decimal paths are modelled by hand in C17/DecModel.v)
  * float / type-lattice computations that are not integer code become an explicit *oracle parameter*
    (`oracle : Z -> Z -> res bool`) of the generated definition: Pow's `math.log` hang guard and
    _MinMax's `get_common_types`.  The theorems quantify over every oracle.
Anything else outside the subset raises Unsupported (= translator-rejected).
"""
import ast
import copy
import importlib
import inspect

from .py2coq import Translator, Ty, Unsupported, cname

OPERATOR_ATTR = {
    # class attribute `_op = operator.X`  ->  (arity, coq body, result type)
    "operator.add": (2, "Ok (a + b)", "Z"),
    "operator.sub": (2, "Ok (a - b)", "Z"),
    "operator.and_": (2, "Ok (Z.land a b)", "Z"),
    "operator.or_": (2, "Ok (Z.lor a b)", "Z"),
    "operator.xor": (2, "Ok (Z.lxor a b)", "Z"),
    "operator.lshift": (2, "py_lshift a b", "Z"),
    "operator.rshift": (2, "py_rshift a b", "Z"),
    "operator.neg": (1, "Ok (- a)", "Z"),
    "operator.eq": (2, "Ok (a =? b)", "bool"),
    "operator.ne": (2, "Ok (negb (a =? b))", "bool"),
    "operator.lt": (2, "Ok (a <? b)", "bool"),
    "operator.le": (2, "Ok (a <=? b)", "bool"),
    "operator.gt": (2, "Ok (a >? b)", "bool"),
    "operator.ge": (2, "Ok (a >=? b)", "bool"),
}
# on bool operands
BOOL_ATTR = {
    "operator.not_": "Definition {n} (a : bool) : res bool := Ok (negb a).",
    "all": "Definition {n} (l : list bool) : res bool := Ok (forallb (fun x => x) l).",
    "any": "Definition {n} (l : list bool) : res bool := Ok (existsb (fun x => x) l).",
}

OPAQUE_CALLS = {"get_common_types"}


def _dotted(node):
    parts = []
    while isinstance(node, ast.Attribute):
        parts.append(node.attr)
        node = node.value
    if isinstance(node, ast.Name):
        parts.append(node.id)
        return ".".join(reversed(parts))
    return None


def _names_in(node, allowed):
    out = []
    for n in ast.walk(node):
        if isinstance(n, ast.Name) and n.id in allowed and n.id not in out:
            out.append(n.id)
    return sorted(out)


class _Specialise(ast.NodeTransformer):
    """Expression-level rewriting to the all-Int-literal instantiation."""

    def __init__(self, owner):
        self.owner = owner

    def _isinstance_value(self, node):
        t = ast.unparse(node.args[1])
        if "type(" in t:
            return True
        has_int = any(k in t for k in ("vy_ast.Int", "vy_ast.Num", "vy_ast.Constant")) or t == "int"
        if has_int:
            return True
        if "Decimal" in t:
            return False
        raise Unsupported(f"isinstance against {t}")

    def visit_Call(self, node):
        self.generic_visit(node)
        f = node.func
        if isinstance(f, ast.Name) and f.id == "isinstance":
            return ast.Constant(self._isinstance_value(node))
        if isinstance(f, ast.Name) and f.id in ("any", "all") and len(node.args) == 1 \
                and isinstance(node.args[0], ast.GeneratorExp) and isinstance(node.args[0].elt, ast.Constant):
            return ast.Constant(bool(node.args[0].elt.value))
        # X.get_folded_value() -> X ;  vy_ast.Int.from_node(node, value=E) / type(x).from_node(...) -> E
        if isinstance(f, ast.Attribute) and f.attr == "get_folded_value" and not node.args:
            return f.value
        if isinstance(f, ast.Attribute) and f.attr == "from_node":
            kws = {k.arg: k.value for k in node.keywords}
            if set(kws) == {"value"}:
                return kws["value"]
            raise Unsupported("from_node with fields other than value")
        if isinstance(f, ast.Attribute) and _dotted(f) == "self._eval_fn":
            fn = self.owner.eval_fn
            if fn in ("operator.add", "operator.mul"):
                op = ast.Add() if fn == "operator.add" else ast.Mult()
                return ast.BinOp(left=node.args[0], op=op, right=node.args[1])
            if fn in ("min", "max"):
                return ast.Call(func=ast.Name(id=fn, ctx=ast.Load()), args=node.args, keywords=[])
            raise Unsupported(f"_eval_fn = {fn}")
        if isinstance(f, ast.Attribute) and _dotted(f) == "self.get_denomination":
            self.owner.extra_params.append("denom")
            return ast.Name(id="denom", ctx=ast.Load())
        return node

    def visit_Compare(self, node):
        self.generic_visit(node)
        if len(node.ops) == 1 and isinstance(node.ops[0], (ast.Is, ast.IsNot)):
            l, r = ast.unparse(node.left), ast.unparse(node.comparators[0])
            if l.startswith("type(") and r.startswith("type("):
                return ast.Constant(isinstance(node.ops[0], ast.Is))
            raise Unsupported(f"is-comparison {l} / {r}")
        return node

    def visit_UnaryOp(self, node):
        self.generic_visit(node)
        if isinstance(node.op, ast.Not) and isinstance(node.operand, ast.Constant) and isinstance(node.operand.value, bool):
            return ast.Constant(not node.operand.value)
        return node

    def visit_BoolOp(self, node):
        self.generic_visit(node)
        is_and = isinstance(node.op, ast.And)
        vals = []
        for v in node.values:
            if isinstance(v, ast.Constant) and isinstance(v.value, bool):
                if v.value == is_and:
                    continue  # neutral element
                return ast.Constant(v.value)  # absorbing element (operands are pure)
            vals.append(v)
        if not vals:
            return ast.Constant(is_and)
        if len(vals) == 1:
            return vals[0]
        node.values = vals
        return node

    def visit_Subscript(self, node):
        self.generic_visit(node)
        # node.args[i] -> a_i
        if _dotted(node.value) == "node.args" and isinstance(node.slice, ast.Constant):
            i = node.slice.value
            self.owner.nargs = max(self.owner.nargs, i + 1)
            return ast.Name(id=f"a{i}", ctx=ast.Load())
        return node

    def visit_ListComp(self, node):
        # [i.get_folded_value() for i in node.args] -> [a0, .., an-1] ; [i.value for i in xs] -> xs
        if len(node.generators) == 1 and not node.generators[0].ifs and isinstance(node.generators[0].target, ast.Name):
            g = node.generators[0]
            v = g.target.id
            elt = ast.unparse(node.elt)
            if _dotted(g.iter) == "node.args" and elt == f"{v}.get_folded_value()":
                n = self.owner.declared_nargs
                if n is None:
                    raise Unsupported("list of folded args without validate_call_args")
                self.owner.nargs = max(self.owner.nargs, n)
                self.owner.list_len[None] = n
                return ast.List(elts=[ast.Name(id=f"a{i}", ctx=ast.Load()) for i in range(n)], ctx=ast.Load())
            if isinstance(g.iter, ast.Name) and elt == f"{v}.value":
                return g.iter
        raise Unsupported("list comprehension " + ast.unparse(node)[:60])


class MethodPuller:
    """Rewrites one method (`_op` / `_try_fold`) to a plain int FunctionDef."""

    def __init__(self, modname, clsname, meth, eval_fn=None):
        self.mod = importlib.import_module(modname)
        self.tree = ast.parse(inspect.getsource(self.mod))
        self.clsname, self.meth = clsname, meth
        self.eval_fn = eval_fn
        self.nargs = 0
        self.declared_nargs = None
        self.extra_params = []
        self.list_len = {}
        self.uses_oracle = False

    def class_def(self, name):
        for n in self.tree.body:
            if isinstance(n, ast.ClassDef) and n.name == name:
                return n
        raise Unsupported(f"class {name} not found")

    def find(self):
        """Return ('def', FunctionDef) or ('attr', dotted) looking through base classes (single inheritance)."""
        c = self.class_def(self.clsname)
        seen = 0
        while seen < 5:
            for n in c.body:
                if isinstance(n, ast.FunctionDef) and n.name == self.meth:
                    return "def", n
                if isinstance(n, ast.Assign) and len(n.targets) == 1 and isinstance(n.targets[0], ast.Name) \
                        and n.targets[0].id == self.meth:
                    d = _dotted(n.value) if not isinstance(n.value, ast.Name) else n.value.id
                    return "attr", d
            if not c.bases or not isinstance(c.bases[0], ast.Name):
                break
            c = self.class_def(c.bases[0].id)
            seen += 1
        raise Unsupported(f"{self.clsname}.{self.meth} not found")

    def class_attr(self, attr):
        c = self.class_def(self.clsname)
        for n in c.body:
            if isinstance(n, ast.Assign) and isinstance(n.targets[0], ast.Name) and n.targets[0].id == attr:
                return _dotted(n.value) if not isinstance(n.value, ast.Name) else n.value.id
        return None

    # ---- statement rewriting
    def stmts(self, body, env_lists):
        out = []
        for s in body:
            out.extend(self.stmt(s, env_lists))
        return out

    def stmt(self, s, env_lists):
        sp = _Specialise(self)
        if isinstance(s, ast.Expr):
            if isinstance(s.value, ast.Constant):
                return []
            if isinstance(s.value, ast.Call):
                fn = _dotted(s.value.func) if isinstance(s.value.func, ast.Attribute) else getattr(s.value.func, "id", None)
                if fn == "validate_call_args":
                    self.declared_nargs = s.value.args[1].value
                    self.nargs = max(self.nargs, self.declared_nargs)
                    return []
                if fn == "vyper_warn":
                    return []
            raise Unsupported("expression statement " + ast.unparse(s)[:60])
        if isinstance(s, ast.Assign) and len(s.targets) == 1:
            # opaque (non-integer) computations -> oracle
            if isinstance(s.value, ast.Call) and isinstance(s.value.func, ast.Name) and s.value.func.id in OPAQUE_CALLS:
                self.uses_oracle = True
                names = _names_in(s.value, self.known_names)
                while len(names) < 2:
                    names.append(names[-1])
                call = ast.Call(func=ast.Name(id="oracle", ctx=ast.Load()),
                                args=[ast.Name(id=n, ctx=ast.Load()) for n in names[:2]], keywords=[])
                self.known_names.add(s.targets[0].id)
                return [ast.Assign(targets=s.targets, value=call)]
            v = sp.visit(copy.deepcopy(s.value))
            t = s.targets[0]
            if isinstance(t, ast.Name):
                self.known_names.add(t.id)
                if isinstance(v, ast.List):
                    env_lists[t.id] = len(v.elts)
                elif isinstance(v, ast.Name) and v.id in env_lists:
                    env_lists[t.id] = env_lists[v.id]
                return [ast.Assign(targets=[t], value=v)]
            if isinstance(t, (ast.Tuple, ast.List)) and all(isinstance(e, ast.Name) for e in t.elts):
                for e in t.elts:
                    self.known_names.add(e.id)
                if isinstance(v, ast.List) and len(v.elts) == len(t.elts):
                    return [ast.Assign(targets=[e], value=x) for e, x in zip(t.elts, v.elts)]
                if isinstance(v, ast.Name) and env_lists.get(v.id) == len(t.elts):
                    return [ast.Assign(targets=[e], value=ast.Subscript(value=v, slice=ast.Constant(i), ctx=ast.Load()))
                            for i, e in enumerate(t.elts)]
            raise Unsupported("assignment " + ast.unparse(s)[:60])
        if isinstance(s, ast.If):
            # float guard -> oracle
            if any(isinstance(n, ast.Attribute) and _dotted(n) == "math.log" for n in ast.walk(s.test)):
                self.uses_oracle = True
                names = _names_in(s.test, self.known_names)
                if len(names) != 2:
                    raise Unsupported("float guard over " + str(names))
                test = ast.Call(func=ast.Name(id="oracle", ctx=ast.Load()),
                                args=[ast.Name(id=n, ctx=ast.Load()) for n in names], keywords=[])
            else:
                test = sp.visit(copy.deepcopy(s.test))
            if isinstance(test, ast.Constant) and isinstance(test.value, bool):
                return self.stmts(s.body if test.value else s.orelse, env_lists)
            return [ast.If(test=test, body=self.stmts(s.body, env_lists) or [ast.Pass()],
                           orelse=self.stmts(s.orelse, env_lists))]
        if isinstance(s, ast.For):
            body = self.stmts(s.body, env_lists)
            if not body:
                return []
            raise Unsupported("for loop with live body")
        if isinstance(s, ast.Return):
            return [ast.Return(value=sp.visit(copy.deepcopy(s.value)))]
        if isinstance(s, ast.Raise):
            return [ast.Raise(exc=None, cause=None)]
        if isinstance(s, ast.Assert):
            t = sp.visit(copy.deepcopy(s.test))
            if isinstance(t, ast.Constant) and t.value is True:
                return []
            return [ast.Assert(test=t, msg=None)]
        if isinstance(s, ast.Pass):
            return []
        raise Unsupported("statement " + type(s).__name__ + " in " + self.clsname + "." + self.meth)

    def pull(self, newname):
        kind, obj = self.find()
        if kind == "attr":
            return kind, obj
        fdef = obj
        params = [a.arg for a in fdef.args.args if a.arg != "self"]
        self.known_names = set(params)
        body = self.stmts(fdef.body, {})
        if params == ["node"]:
            params = [f"a{i}" for i in range(self.nargs)]
        params = list(dict.fromkeys(self.extra_params)) + params
        if self.uses_oracle:
            params = ["oracle"] + params
        new = ast.FunctionDef(
            name=newname,
            args=ast.arguments(posonlyargs=[], args=[ast.arg(arg=p, annotation=None) for p in params],
                               kwonlyargs=[], kw_defaults=[], defaults=[]),
            body=body, decorator_list=[], returns=None)
        ast.fix_missing_locations(new)
        return "def", new


OPS = ["Add", "Sub", "Mult", "FloorDiv", "Mod", "Pow", "BitAnd", "BitOr", "BitXor", "LShift", "RShift"]
UNOPS = ["USub", "Invert"]
CMPS = ["Eq", "NotEq", "Lt", "LtE", "Gt", "GtE"]
BOOLS = ["Not", "And", "Or"]
BUILTINS = [  # (class, coq name)
    ("Shift", "Shift_fold"), ("AddMod", "AddMod_fold"), ("MulMod", "MulMod_fold"), ("PowMod256", "PowMod256_fold"),
    ("Abs", "Abs_fold"), ("Min", "Min_fold"), ("Max", "Max_fold"), ("AsWeiValue", "AsWeiValue_fold"),
]


def generate():
    """Returns (coq_text, info) ; raises Unsupported."""
    tr = Translator("vyper.ast.nodes", extra_modules=["vyper.utils"])
    info = {"ops": {}, "sources": {}}
    tr.translate_function("evm_div")
    tr.translate_function("evm_mod")
    # used by literal conversion (_convert._signextend) and by min_value / max_value (NumericT.int_bounds)
    tr.arg_types_hint[("int_bounds", "signed")] = Ty.B
    tr.arg_types_hint[("unsigned_to_signed", "strict")] = Ty.B
    tr.translate_function("int_bounds")
    tr.translate_function("unsigned_to_signed")
    oracle_ty = Ty.fn([Ty.Z, Ty.Z], Ty.B)

    def pull(modname, cls, meth, coqname, eval_fn_attr=False):
        mp = MethodPuller(modname, cls, meth)
        if eval_fn_attr:
            mp.eval_fn = mp.class_attr("_eval_fn")
            if mp.eval_fn is None:
                raise Unsupported(f"{cls}._eval_fn not found")
        kind, obj = mp.pull(coqname)
        if kind == "attr":
            if obj in OPERATOR_ATTR:
                ar, body, rty = OPERATOR_ATTR[obj]
                args = "(a : Z) (b : Z)" if ar == 2 else "(a : Z)"
                tr.out.append(f"Definition {coqname} {args} : res {rty} := {body}.")
                tr.sigs[coqname] = ([Ty.Z] * ar, rty, ["a", "b"][:ar])
            elif obj in BOOL_ATTR:
                tr.out.append(BOOL_ATTR[obj].format(n=coqname))
            else:
                raise Unsupported(f"{cls}.{meth} = {obj}")
            info["ops"][coqname] = {"kind": "attr", "value": obj}
            return
        tr.funcs[coqname] = obj
        tr.func_mod[coqname] = importlib.import_module(modname)
        if mp.uses_oracle:
            tr.arg_types_hint[(coqname, "oracle")] = oracle_ty
        tr.translate_function(coqname)
        info["ops"][coqname] = {"kind": "def", "oracle": mp.uses_oracle, "params": [a.arg for a in obj.args.args]}
        info["sources"][coqname] = ast.unparse(obj)

    for c in OPS + UNOPS + CMPS + BOOLS:
        pull("vyper.ast.nodes", c, "_op", f"{c}_op")
    for c, nm in BUILTINS:
        pull("vyper.builtins.functions", c, "_try_fold", nm, eval_fn_attr=c in ("AddMod", "MulMod", "Min", "Max"))
    # constants of the surrounding code that the hand-written wrapper (FoldModel.v) depends on
    from vyper.utils import DECIMAL_DIVISOR, MAX_DECIMAL_PLACES, SizeLimits
    hdr = [
        f"Definition c_DECIMAL_DIVISOR : Z := {DECIMAL_DIVISOR}.",
        f"Definition c_MAX_DECIMAL_PLACES : Z := {MAX_DECIMAL_PLACES}.",
        f"Definition c_MINDECIMAL : Z := ({SizeLimits.MINDECIMAL}).",
        f"Definition c_MAXDECIMAL : Z := {SizeLimits.MAXDECIMAL}.",
    ]
    text = tr.render(header="\n".join(hdr))
    return text, info
