"""C11: generator of EffVy programs (valid skeletons x single-rule violations), printers to Vyper source and to Coq.

Program = list of functions; function = dict(mut, vis, body).  Expressions / statements are tuples mirroring
coq/C11/Effects.v.  Function index = position in the list; function 0 is always the constructor.
"""

MUTS = ["Pure", "View", "NonPay", "Pay"]
RANK = {m: i for i, m in enumerate(MUTS)}
ARR = 9  # variable index reserved for the array variables (self.arr / la)

HEADER = """
interface Ext:
    def ext_pure(x: uint256) -> uint256: pure
    def ext_view(x: uint256) -> uint256: view
    def ext_mod(x: uint256) -> uint256: nonpayable
    def ext_pay(x: uint256) -> uint256: payable

event Ev:
    x: uint256

s0: uint256
s1: uint256
arr: uint256[3]
t0: transient(uint256)
C0: constant(uint256) = 7
TGT: constant(address) = {tgt}
IMM: immutable(uint256)

@external
def setup(x: uint256, y: uint256):
    self.s0 = x
    self.s1 = y
    self.arr = [x, y, 3]
"""

EXT_SRC = """
c: uint256

@external
@pure
def ext_pure(x: uint256) -> uint256:
    return x | 1

@external
@view
def ext_view(x: uint256) -> uint256:
    return x | self.c

@external
def ext_mod(x: uint256) -> uint256:
    self.c = x
    return x

@external
@payable
def ext_pay(x: uint256) -> uint256:
    self.c = x
    return x

@external
def __default__():
    pass
"""


# ------------------------------------------------------------------ printers: Vyper
def v_var(k, x):
    if x == ARR:
        return {"VStorage": "self.arr[0]", "VLocal": "la[0]"}[k]
    return {"VLocal": f"l{x}", "VArg": "a", "VStorage": f"self.s{x}", "VTransient": "self.t0", "VConst": "C0",
            "VImm": "IMM", "VLoop": f"i{x}"}[k]


def v_expr(e):
    t = e[0]
    if t == "ELit":
        return str(e[1])
    if t == "EVar":
        return v_var(e[1], e[2])
    if t == "EEnv":
        return ["block.number", "block.timestamp", "convert(msg.sender, uint256)", "chain.id", "convert(tx.origin, uint256)"][e[1] % 5]
    if t == "EAddrMember":
        return ["self.balance", "TGT.balance", "TGT.codesize", "convert(TGT.codehash, uint256)"][e[1] % 4]
    if t == "EMsgValue":
        return "msg.value"
    if t == "EBin":
        return f"({v_expr(e[1])} | {v_expr(e[2])})"
    if t == "ECall":
        return f"self.f{e[1]}({v_expr(e[2])})"
    if t == "EExtCall":
        kw = {"KExt": "extcall", "KStatic": "staticcall"}[e[1]]
        fn = {"Pure": "ext_pure", "View": "ext_view", "NonPay": "ext_mod", "Pay": "ext_pay"}[e[2]]
        return f"({kw} Ext(TGT).{fn}({v_expr(e[3])}))"
    if t == "EBuiltin":
        a = v_expr(e[2])
        if e[1] == "Pure":
            return f"uint256_addmod({a}, 1, 7)"
        if e[1] == "View":
            return f"convert(raw_call(TGT, abi_encode(empty(uint256) | {a}), max_outsize=32, is_static_call=True), uint256)"
        return f"convert(raw_call(TGT, abi_encode(empty(uint256) | {a}), max_outsize=32), uint256)"
    raise ValueError(e)


class _Ctr:
    def __init__(self):
        self.n = 0


def v_stmt(s, ind, ctr):
    pad = "    " * ind
    t = s[0]
    if t == "SSkip":
        return [pad + "pass"]
    if t == "SSeq":
        return v_stmt(s[1], ind, ctr) + v_stmt(s[2], ind, ctr)
    if t == "SAssign":
        if s[2] == ARR and s[1] in ("VStorage", "VLocal") and len(s) > 4 and s[4] == "whole":
            tgt = "self.arr" if s[1] == "VStorage" else "la"
            return [pad + f"{tgt} = [{v_expr(s[3])}, 2, 3]"]
        return [pad + f"{v_var(s[1], s[2])} = {v_expr(s[3])}"]
    if t == "SAug":
        return [pad + f"{v_var(s[1], s[2])} |= {v_expr(s[3])}"]
    if t == "SExpr":
        ctr.n += 1
        return [pad + f"d{ctr.n}: uint256 = {v_expr(s[1])}"]
    if t == "SLog":
        return [pad + f"log Ev(x={v_expr(s[1])})"]
    if t == "SIf":
        out = [pad + f"if {v_expr(s[1])} != 0:"] + v_stmt(s[2], ind + 1, ctr)
        if s[3][0] != "SSkip":
            out += [pad + "else:"] + v_stmt(s[3], ind + 1, ctr)
        return out
    if t == "SFor":
        r = s[2]
        if r[0] == "RLit":
            it = f"range({r[1]})"
        elif r[0] == "RBound":
            it = f"range({v_expr(r[1])}, bound={r[2]})"
        else:
            it = f"range({v_expr(r[1])})"
        return [pad + f"for i{s[1]}: uint256 in {it}:"] + v_stmt(s[3], ind + 1, ctr)
    if t == "SForList":
        it = "self.arr" if s[2] == "VStorage" else "la"
        return [pad + f"for i{s[1]}: uint256 in {it}:"] + v_stmt(s[5], ind + 1, ctr)
    if t == "SReturn":
        return [pad + f"return {v_expr(s[1])}"]
    raise ValueError(s)


def v_prog(prog, tgt):
    out = [HEADER.format(tgt=tgt)]
    ctr = _Ctr()
    for i, f in enumerate(prog):
        if f["vis"] == "Ctor":
            out.append("@deploy")
            if f["mut"] == "Pay":
                out.append("@payable")
            out.append("def __init__():")
            out.append("    l0: uint256 = 0\n    l1: uint256 = 0\n    la: uint256[3] = [1, 2, 3]")
            out += v_stmt(f["body"], 1, ctr)
            out.append("")
            continue
        out.append("@external" if f["vis"] == "External" else "@internal")
        dec = {"Pure": "@pure", "View": "@view", "NonPay": None, "Pay": "@payable"}[f["mut"]]
        if dec:
            out.append(dec)
        out.append(f"def f{i}(a: uint256) -> uint256:")
        out.append("    l0: uint256 = 0\n    l1: uint256 = 0\n    la: uint256[3] = [1, 2, 3]")
        out += v_stmt(f["body"], 1, ctr)
        out.append("")
    return "\n".join(out)


# ------------------------------------------------------------------ printers: Coq
def c_expr(e):
    t = e[0]
    if t == "ELit":
        return f"(ELit {e[1]})"
    if t == "EVar":
        return f"(EVar {e[1]} {e[2]})"
    if t in ("EEnv", "EAddrMember"):
        return f"({t} {e[1]})"
    if t == "EMsgValue":
        return "EMsgValue"
    if t == "EBin":
        return f"(EBin {c_expr(e[1])} {c_expr(e[2])})"
    if t == "ECall":
        return f"(ECall {e[1]} {c_expr(e[2])})"
    if t == "EExtCall":
        return f"(EExtCall {e[1]} {e[2]} {c_expr(e[3])})"
    if t == "EBuiltin":
        return f"(EBuiltin {e[1]} {c_expr(e[2])})"
    raise ValueError(e)


def c_stmt(s):
    t = s[0]
    if t == "SSkip":
        return "SSkip"
    if t == "SSeq":
        return f"(SSeq {c_stmt(s[1])} {c_stmt(s[2])})"
    if t in ("SAssign", "SAug"):
        return f"({t} {s[1]} {s[2]} {c_expr(s[3])})"
    if t in ("SExpr", "SLog", "SReturn"):
        return f"({t} {c_expr(s[1])})"
    if t == "SIf":
        return f"(SIf {c_expr(s[1])} {c_stmt(s[2])} {c_stmt(s[3])})"
    if t == "SFor":
        r = s[2]
        rr = f"(RLit {r[1]})" if r[0] == "RLit" else (f"(RBound {c_expr(r[1])} {r[2]})" if r[0] == "RBound" else f"(RExpr {c_expr(r[1])})")
        return f"(SFor {s[1]} {rr} {c_stmt(s[3])})"
    if t == "SForList":
        return f"(SForList {s[1]} {s[2]} {s[3]} {s[4]} {c_stmt(s[5])})"
    raise ValueError(s)


def c_prog(prog):
    fs = "; ".join(f"(mk_fn {f['mut']} {f['vis']} {c_stmt(f['body'])})" for f in prog)
    return f"(mk_prog [{fs}] (fun _ => 7))"


# ------------------------------------------------------------------ generation
def seq(stmts):
    if not stmts:
        return ("SSkip",)
    out = stmts[-1]
    for s in reversed(stmts[:-1]):
        out = ("SSeq", s, out)
    return out


class Gen:
    def __init__(self, rnd):
        self.rnd = rnd

    def leaf(self, mut, loops):
        r = self.rnd
        opts = [("ELit", r.choice([0, 1, 2, 5])), ("EVar", "VLocal", r.choice([0, 1])), ("EVar", "VArg", 0), ("EVar", "VConst", 0)]
        if loops:
            opts.append(("EVar", "VLoop", r.choice(loops)))
        if RANK[mut] >= 1:
            opts += [("EVar", "VStorage", r.choice([0, 1])), ("EVar", "VTransient", 0), ("EVar", "VImm", 0),
                     ("EEnv", r.randrange(5)), ("EAddrMember", r.randrange(4))]
        if mut == "Pay":
            opts.append(("EMsgValue",))
        return r.choice(opts)

    def expr(self, mut, callees, loops, depth, prog):
        r = self.rnd
        if depth <= 0 or r.random() < 0.3:
            return self.leaf(mut, loops)
        k = r.random()
        sub = lambda: self.expr(mut, callees, loops, depth - 1, prog)  # noqa
        if k < 0.35:
            return ("EBin", sub(), sub())
        if k < 0.6:
            ok = [j for j in callees if RANK[prog[j]["mut"]] <= RANK[mut] or RANK[mut] >= 2]
            if ok:
                return ("ECall", r.choice(ok), sub())
        if k < 0.8:
            ms = [m for m in MUTS if RANK[m] <= RANK[mut] or RANK[mut] >= 2]
            m = r.choice(ms)
            return ("EExtCall", "KExt" if RANK[m] >= 2 else "KStatic", m, sub())
        ms = [m for m in ("Pure", "View", "NonPay") if RANK[m] <= RANK[mut] or RANK[mut] >= 2]
        return ("EBuiltin", r.choice(ms), sub())

    def nomod(self, e):
        """expression without state-modifying calls (for range bounds)"""
        t = e[0]
        if t == "EBin":
            return self.nomod(e[1]) and self.nomod(e[2])
        if t == "ECall":
            return False  # conservative: callee mutability not tracked here
        if t == "EExtCall":
            return RANK[e[2]] < 2 and self.nomod(e[3])
        if t == "EBuiltin":
            return RANK[e[1]] < 2 and self.nomod(e[2])
        return True

    def stmts(self, f, callees, loops, depth, prog, n, iter_arrays=()):
        r = self.rnd
        mut, vis = f["mut"], f["vis"]
        out = []
        for _ in range(n):
            E = lambda d=2: self.expr(mut, callees, loops, d, prog)  # noqa
            k = r.random()
            if k < 0.25:
                out.append(("SAssign", "VLocal", r.choice([0, 1]), E()))
            elif k < 0.35:
                out.append(("SAug", "VLocal", r.choice([0, 1]), E()))
            elif k < 0.45 and RANK[mut] >= 2:
                tgt = r.choice([("VStorage", 0), ("VStorage", 1), ("VTransient", 0)])
                out.append((r.choice(["SAssign", "SAug"]), tgt[0], tgt[1], E()))
            elif k < 0.5 and RANK[mut] >= 2:
                out.append(("SLog", E()))
            elif k < 0.55 and vis == "Internal":
                out.append(("SAssign", "VArg", 0, E()))
            elif k < 0.62:
                out.append(("SExpr", E()))
            elif k < 0.72 and depth > 0:
                out.append(("SIf", E(1), seq(self.stmts(f, callees, loops, depth - 1, prog, r.choice([1, 2]), iter_arrays)),
                            seq(self.stmts(f, callees, loops, depth - 1, prog, r.choice([0, 1]), iter_arrays))))
            elif k < 0.9 and depth > 0 and len(loops) < 2:
                i = len(loops)
                body = lambda ia=iter_arrays: seq(self.stmts(f, callees, loops + [i], depth - 1, prog, r.choice([1, 2]), ia))  # noqa
                kk = r.random()
                if kk < 0.35:
                    out.append(("SFor", i, ("RLit", r.choice([1, 2, 3])), body()))
                elif kk < 0.7:
                    # a non-constant, non-modifying count that the optimiser cannot prove larger than the bound
                    leafs = [("EVar", "VLocal", r.choice([0, 1]))] + ([("EVar", "VArg", 0)] if vis != "Ctor" else [])
                    if RANK[mut] >= 1:
                        leafs += [("EVar", "VStorage", r.choice([0, 1])), ("EVar", "VTransient", 0)]
                    e = r.choice(leafs)
                    if r.random() < 0.4:
                        e = ("EExtCall", "KStatic", "Pure" if RANK[mut] < 1 or r.random() < 0.5 else "View", e)
                    out.append(("SFor", i, ("RBound", e, r.choice([1, 3, 5])), body()))
                else:
                    ak = "VLocal" if RANK[mut] < 1 or r.random() < 0.5 else "VStorage"
                    out.append(("SForList", i, ak, ARR, 3, body(iter_arrays + ((ak, ARR),))))
            else:
                out.append(("SAssign", "VLocal", 0, E(1)))
        if vis == "Ctor":
            out = [s for s in out if not _uses_arg(s)]
        return out

    def valid_program(self, nfun):
        r = self.rnd
        prog = [{"mut": r.choice(["NonPay", "Pay"]), "vis": "Ctor", "body": ("SSkip",)}]
        for i in range(1, nfun + 1):
            vis = "Internal" if i <= nfun // 2 or r.random() < 0.3 else "External"
            if i == nfun:
                vis = "External"
            f = {"mut": r.choice(MUTS), "vis": vis, "body": None}
            callees = [j for j in range(1, i) if prog[j]["vis"] == "Internal"]
            body = self.stmts(f, callees, [], 2, prog, r.choice([1, 2, 3]))
            f["body"] = seq(body + [("SReturn", self.expr(f["mut"], callees, [], 1, prog))])
            prog.append(f)
        c = prog[0]
        cb = [("SAssign", "VImm", 0, ("ELit", 5))] + self.stmts(c, [], [], 1, prog, r.choice([0, 1]))
        c["body"] = seq([s for s in cb])
        return prog


def _uses_arg(s):
    return "VArg" in repr(s)


# ------------------------------------------------------------------ positions and violations
def expr_positions(e, path=()):
    yield path
    t = e[0]
    if t == "EBin":
        yield from expr_positions(e[1], path + (1,))
        yield from expr_positions(e[2], path + (2,))
    elif t == "ECall":
        yield from expr_positions(e[2], path + (2,))
    elif t == "EExtCall":
        yield from expr_positions(e[3], path + (3,))
    elif t == "EBuiltin":
        yield from expr_positions(e[2], path + (2,))


def replace_at(term, path, new):
    if not path:
        return new
    l = list(term)
    l[path[0]] = replace_at(term[path[0]], path[1:], new)
    return tuple(l)


def stmt_expr_slots(s, path=(), loops=()):
    """yield (path_to_expr, loops_in_scope) for every expression slot of the statement tree"""
    t = s[0]
    if t == "SSeq":
        yield from stmt_expr_slots(s[1], path + (1,), loops)
        yield from stmt_expr_slots(s[2], path + (2,), loops)
    elif t in ("SAssign", "SAug"):
        yield path + (3,), loops
    elif t in ("SExpr", "SLog", "SReturn"):
        yield path + (1,), loops
    elif t == "SIf":
        yield path + (1,), loops
        yield from stmt_expr_slots(s[2], path + (2,), loops)
        yield from stmt_expr_slots(s[3], path + (3,), loops)
    elif t == "SFor":
        if s[2][0] == "RBound":
            yield path + (2, 1), loops + ("RANGE",)
        yield from stmt_expr_slots(s[3], path + (3,), loops + (s[1],))
    elif t == "SForList":
        yield from stmt_expr_slots(s[5], path + (5,), loops + (s[1],))


def stmt_slots(s, path=(), loops=(), arrays=()):
    """yield (path, loops, arrays) of every statement position where a new statement can be put in front"""
    t = s[0]
    if t != "SSeq":
        yield path, loops, arrays
    if t == "SSeq":
        yield from stmt_slots(s[1], path + (1,), loops, arrays)
        yield from stmt_slots(s[2], path + (2,), loops, arrays)
    elif t == "SIf":
        yield from stmt_slots(s[2], path + (2,), loops, arrays)
        if s[3][0] != "SSkip":
            yield from stmt_slots(s[3], path + (3,), loops, arrays)
    elif t == "SFor":
        yield from stmt_slots(s[3], path + (3,), loops + (s[1],), arrays)
    elif t == "SForList":
        yield from stmt_slots(s[5], path + (5,), loops + (s[1],), arrays + ((s[2], s[3]),))


def get_at(term, path):
    for i in path:
        term = term[i]
    return term


def expr_violations(f, prog, fi):
    """(rule, violating expression) applicable to function f (by its declared mutability)"""
    m = RANK[f["mut"]]
    a = ("EVar", "VLocal", 0)
    out = []
    if m <= 1:
        np_int = [j for j in range(1, len(prog)) if prog[j]["vis"] == "Internal" and RANK[prog[j]["mut"]] >= 2 and j != fi]
        for j in np_int[:1]:
            out.append(("view_calls_modifying_internal", ("ECall", j, a)))
        out += [("view_extcall", ("EExtCall", "KExt", "NonPay", a)), ("view_extcall_payable", ("EExtCall", "KExt", "Pay", a)),
                ("view_modifying_builtin", ("EBuiltin", "NonPay", a))]
    if m == 0:
        v_int = [j for j in range(1, len(prog)) if prog[j]["vis"] == "Internal" and RANK[prog[j]["mut"]] == 1 and j != fi]
        for j in v_int[:1]:
            out.append(("pure_calls_view_internal", ("ECall", j, a)))
        out += [("pure_env", ("EEnv", 0)), ("pure_env_sender", ("EEnv", 2)), ("pure_balance", ("EAddrMember", 0)),
                ("pure_addr_member", ("EAddrMember", 2)), ("pure_storage_read", ("EVar", "VStorage", 0)),
                ("pure_transient_read", ("EVar", "VTransient", 0)), ("pure_immutable_read", ("EVar", "VImm", 0)),
                ("pure_staticcall_view", ("EExtCall", "KStatic", "View", a)), ("pure_view_builtin", ("EBuiltin", "View", a))]
    if f["mut"] != "Pay":
        out.append(("msg_value_nonpayable", ("EMsgValue",)))
    out += [("keyword_staticcall_on_nonpayable", ("EExtCall", "KStatic", "NonPay", a)),
            ("keyword_extcall_on_view", ("EExtCall", "KExt", "View", a))]
    return out


def stmt_violations(f, loops, arrays):
    m = RANK[f["mut"]]
    a = ("ELit", 1)
    out = []
    if m <= 1:
        out += [("view_storage_write", ("SAssign", "VStorage", 0, a)), ("view_transient_write", ("SAssign", "VTransient", 0, a)),
                ("view_storage_augwrite", ("SAug", "VStorage", 1, a)), ("view_log", ("SLog", a))]
    out.append(("constant_write", ("SAssign", "VConst", 0, a)))
    if f["vis"] != "Ctor":
        out.append(("immutable_write", ("SAssign", "VImm", 0, a)))
    if f["vis"] == "External":
        out.append(("calldata_write", ("SAssign", "VArg", 0, a)))
    real_loops = [l for l in loops if l != "RANGE"]
    if real_loops:
        out.append(("loopvar_write", ("SAssign", "VLoop", real_loops[-1], a)))
    i = len(real_loops)
    if i < 3:
        arg = ("EVar", "VLocal", 0)
        out += [("unbounded_range", ("SFor", i, ("RExpr", arg), ("SSkip",))),
                ("zero_bound", ("SFor", i, ("RBound", arg, 0), ("SSkip",))),
                ("empty_range", ("SFor", i, ("RLit", 0), ("SSkip",))),
                ("bound_with_literal", ("SFor", i, ("RBound", ("ELit", 2), 5), ("SSkip",))),
                ("bound_with_constant", ("SFor", i, ("RBound", ("EBin", ("EVar", "VConst", 0), ("EBuiltin", "Pure", ("ELit", 1))), 9), ("SSkip",)))]
        if m >= 2:
            out.append(("range_modifying_call", ("SFor", i, ("RBound", ("EExtCall", "KExt", "NonPay", arg), 4), ("SSkip",))))
        ak = "VLocal" if m < 1 else "VStorage"
        if m >= 2 or ak == "VLocal":
            out.append(("iterator_mutation", ("SForList", i, ak, ARR, 3, ("SIf", ("ELit", 1), ("SAssign", ak, ARR, a), ("SSkip",)))))
            out.append(("iterator_mutation_whole", ("SForList", i, ak, ARR, 3, ("SAssign", ak, ARR, a, "whole"))))
    for (ak, ax) in arrays:
        if ak == "VLocal" or m >= 2:
            out.append(("iterator_mutation_nested", ("SAssign", ak, ax, a)))
    return out


def mutants(prog, rnd, per_prog):
    """single-rule violations of a valid program: list of (rule, where, program)"""
    cands = []
    for fi, f in enumerate(prog):
        body = f["body"]
        for spath, loops in stmt_expr_slots(body):
            e0 = get_at(body, spath)
            for epath in expr_positions(e0):
                for rule, bad in expr_violations(f, prog, fi):
                    if "RANGE" in loops and rule.startswith("view_"):
                        pass
                    cands.append((rule, fi, "expr", spath + epath, bad, loops))
        for spath, loops, arrays in stmt_slots(body):
            if get_at(body, spath)[0] == "SReturn" and False:
                continue
            for rule, bad in stmt_violations(f, loops, arrays):
                cands.append((rule, fi, "stmt", spath, bad, loops))
    # recursion: make some internal function call itself or a later one that calls back
    out = []
    byrule = {}
    for c in cands:
        byrule.setdefault(c[0], []).append(c)
    rules = sorted(byrule)
    rnd.shuffle(rules)
    for rule in rules[:per_prog]:
        _, fi, kind, path, bad, loops = rnd.choice(byrule[rule])
        p2 = [dict(f) for f in prog]
        body = p2[fi]["body"]
        if kind == "expr":
            if prog[fi]["vis"] == "Ctor" and _uses_arg(bad):
                continue
            p2[fi]["body"] = replace_at(body, path, bad)
        else:
            old = get_at(body, path)
            p2[fi]["body"] = replace_at(body, path, ("SSeq", bad, old))
        out.append((rule, f"f{fi}:{kind}@{'.'.join(map(str, path))}", p2))
    ints = [j for j in range(1, len(prog)) if prog[j]["vis"] == "Internal"]
    if ints:
        j = rnd.choice(ints)
        later = [k for k in ints if k >= j]
        k = rnd.choice(later)
        p2 = [dict(f) for f in prog]
        # j calls k (k >= j); if k > j, k already may call j only if we add it: add both edges
        m_ok = lambda a, b: RANK[prog[b]["mut"]] <= RANK[prog[a]["mut"]] or RANK[prog[a]["mut"]] >= 2  # noqa
        if m_ok(j, k) and m_ok(k, j):
            arg = ("EVar", "VLocal", 0)
            p2[j]["body"] = ("SSeq", ("SExpr", ("ECall", k, arg)), p2[j]["body"])
            if k != j:
                p2[k]["body"] = ("SSeq", ("SExpr", ("ECall", j, arg)), p2[k]["body"])
            out.append(("recursion" if k == j else "mutual_recursion", f"f{j}<->f{k}", p2))
    return out
