"""C11: generator of EffVy programs (valid skeletons x single-rule violations), printers to Vyper source and to Coq.

Program = dict(funs=[function...], owns="NoOwn"|"Uses"|"Initializes"); function = dict(mut, vis, lib, body).
Expressions / statements are tuples mirroring coq/C11/Effects.v (an optional trailing tag selects the concrete
builtin / array operation when printing Vyper; the Coq term ignores it).  Function index = position in the list;
function 0 is the constructor, then the functions of the library module lib1, then the main contract's.
"""

MUTS = ["Pure", "View", "NonPay", "Pay"]
RANK = {m: i for i, m in enumerate(MUTS)}
ARR = 9   # variable index of the fixed arrays (self.arr / la)
DARR = 8  # variable index of the dynamic arrays (self.darr / lda)
LIBVARS = (5, 6)

COMMON = """
interface Ext:
    def ext_pure(x: uint256) -> uint256: pure
    def ext_view(x: uint256) -> uint256: view
    def ext_mod(x: uint256) -> uint256: nonpayable
    def ext_pay(x: uint256) -> uint256: payable

event {ev}:
    x: uint256

TGT: constant(address) = {tgt}
"""

HEADER = """
{imports}
s0: uint256
s1: uint256
arr: uint256[3]
darr: DynArray[uint256, 4]
t0: transient(uint256)
C0: constant(uint256) = 7
IMM: immutable(uint256)

@external
def setup(x: uint256, y: uint256):
    self.s0 = x
    self.s1 = y
    self.arr = [x, y, 3]
    self.darr = [y, x]
"""

LIB_HEADER = """
c5: uint256
c6: uint256
"""

EXT_SRC = """
c: uint256

@external
@pure
def ext_pure(x: uint256) -> uint256:
    return x | 1

@external
@view
def ext_view(x: uint256) -> uint256:
    return x | self.c

@external
def ext_mod(x: uint256) -> uint256:
    self.c = x
    return x

@external
@payable
def ext_pay(x: uint256) -> uint256:
    self.c = x
    return x

@external
@payable
def __default__():
    pass
"""

LOCALS = "    l0: uint256 = 0\n    l1: uint256 = 0\n    la: uint256[3] = [1, 2, 3]\n    lda: DynArray[uint256, 4] = [1, 2]"


# ------------------------------------------------------------------ printers: Vyper
class PCtx:
    def __init__(self, prog, in_lib):
        self.prog, self.in_lib, self.n = prog, in_lib, 0


def v_var(k, x, cx):
    if x == ARR:
        return {"VStorage": "self.arr[0]", "VLocal": "la[0]"}[k]
    if x == DARR:
        return {"VStorage": "self.darr[0]", "VLocal": "lda[0]"}[k]
    if k == "VStorage" and x in LIBVARS:
        return f"self.c{x}" if cx.in_lib else f"lib1.c{x}"
    return {"VLocal": f"l{x}", "VArg": "a", "VStorage": f"self.s{x}", "VTransient": "self.t0", "VConst": "C0",
            "VImm": "IMM", "VLoop": f"i{x}"}[k]


def v_expr(e, cx):
    t = e[0]
    if t == "ELit":
        return str(e[1])
    if t == "EVar":
        return v_var(e[1], e[2], cx)
    if t == "EEnv":
        return ["block.number", "block.timestamp", "convert(msg.sender, uint256)", "chain.id", "convert(tx.origin, uint256)"][e[1] % 5]
    if t == "EAddrMember":
        return ["self.balance", "TGT.balance", "TGT.codesize", "convert(TGT.codehash, uint256)"][e[1] % 4]
    if t == "EMsgValue":
        return "msg.value"
    if t == "EBin":
        return f"({v_expr(e[1], cx)} | {v_expr(e[2], cx)})"
    if t == "ECall":
        j = e[1]
        callee_lib = j < len(cx.prog["funs"]) and cx.prog["funs"][j].get("lib")
        if callee_lib:
            pre = "self" if cx.in_lib else "lib1"
            return f"{pre}.g{j}({v_expr(e[2], cx)})"
        return f"self.f{j}({v_expr(e[2], cx)})"
    if t == "EExtCall":
        kw = {"KExt": "extcall", "KStatic": "staticcall"}[e[1]]
        fn = {"Pure": "ext_pure", "View": "ext_view", "NonPay": "ext_mod", "Pay": "ext_pay"}[e[2]]
        return f"({kw} Ext(TGT).{fn}({v_expr(e[3], cx)}))"
    if t == "EBuiltin":
        a = v_expr(e[2], cx)
        tag = e[3] if len(e) > 3 else None
        ua = f"(empty(uint256) | {a})"
        if e[1] == "Pure":
            if tag == "keccak":
                return f"convert(keccak256(convert({ua}, bytes32)), uint256)"
            return f"uint256_addmod({a}, 1, 7)"
        if e[1] == "View":
            if tag == "blockhash":
                return f"convert(blockhash({ua}), uint256)"
            return f"convert(raw_call(TGT, abi_encode({ua}), max_outsize=32, is_static_call=True), uint256)"
        if tag == "raw_call_value":
            return f"convert(raw_call(TGT, b\"\", max_outsize=32, value={ua}), uint256)"
        if tag == "raw_call_delegate":
            return f"convert(raw_call(TGT, abi_encode({ua}), max_outsize=32, is_delegate_call=True), uint256)"
        if tag == "create_minimal":
            return f"convert(create_minimal_proxy_to(TGT, value={ua}), uint256)"
        if tag == "create_copy":
            return f"convert(create_copy_of(TGT, value={ua}), uint256)"
        return f"convert(raw_call(TGT, abi_encode({ua}), max_outsize=32), uint256)"
    raise ValueError(e)


STMT_ONLY = ("send", "raw_log", "selfdestruct")


def v_stmt(s, ind, cx):
    pad = "    " * ind
    t = s[0]
    E = lambda e: v_expr(e, cx)  # noqa
    if t == "SSkip":
        return [pad + "pass"]
    if t == "SSeq":
        return v_stmt(s[1], ind, cx) + v_stmt(s[2], ind, cx)
    if t == "SAssign":
        tag = s[4] if len(s) > 4 else None
        if s[2] in (ARR, DARR) and tag:
            base = {(ARR, "VStorage"): "self.arr", (ARR, "VLocal"): "la", (DARR, "VStorage"): "self.darr", (DARR, "VLocal"): "lda"}[(s[2], s[1])]
            if tag == "whole":
                return [pad + f"{base} = [{E(s[3])}, 2, 3]"]
            if tag == "append":
                return [pad + f"{base}.append({E(s[3])})"]
            if tag == "pop":
                cx.n += 1
                return [pad + f"d{cx.n}: uint256 = {base}.pop() | {E(s[3])}"]
        return [pad + f"{v_var(s[1], s[2], cx)} = {E(s[3])}"]
    if t == "SAug":
        return [pad + f"{v_var(s[1], s[2], cx)} |= {E(s[3])}"]
    if t == "SExpr":
        e = s[1]
        if e[0] == "EBuiltin" and len(e) > 3 and e[3] in STMT_ONLY:
            a = E(e[2])
            if e[3] == "send":
                return [pad + f"send(TGT, empty(uint256) | {a})"]
            if e[3] == "raw_log":
                return [pad + f"raw_log([convert(empty(uint256) | {a}, bytes32)], b\"x\")"]
            return [pad + f"if (empty(uint256) | {a}) == 12345:", pad + "    selfdestruct(TGT)"]
        cx.n += 1
        return [pad + f"d{cx.n}: uint256 = {E(e)}"]
    if t == "SLog":
        return [pad + f"log {'EvL' if cx.in_lib else 'Ev'}(x={E(s[1])})"]
    if t == "SIf":
        out = [pad + f"if {E(s[1])} != 0:"] + v_stmt(s[2], ind + 1, cx)
        if s[3][0] != "SSkip":
            out += [pad + "else:"] + v_stmt(s[3], ind + 1, cx)
        return out
    if t == "SFor":
        r = s[2]
        if r[0] == "RLit":
            it = f"range({r[1]})"
        elif r[0] == "RBound":
            it = f"range({E(r[1])}, bound={r[2]})"
        else:
            it = f"range({E(r[1])})"
        return [pad + f"for i{s[1]}: uint256 in {it}:"] + v_stmt(s[3], ind + 1, cx)
    if t == "SForList":
        it = {(ARR, "VStorage"): "self.arr", (ARR, "VLocal"): "la", (DARR, "VStorage"): "self.darr", (DARR, "VLocal"): "lda"}[(s[3], s[2])]
        return [pad + f"for i{s[1]}: uint256 in {it}:"] + v_stmt(s[5], ind + 1, cx)
    if t == "SReturn":
        return [pad + f"return {E(s[1])}"]
    raise ValueError(s)


def v_prog(prog, tgt):
    """returns (main source, lib source or None)"""
    funs = prog["funs"]
    has_lib = any(f.get("lib") for f in funs) or prog["owns"] != "NoOwn"
    imports = ""
    if has_lib:
        imports = "import lib1\n" + {"NoOwn": "", "Uses": "uses: lib1\n", "Initializes": "initializes: lib1\n"}[prog["owns"]]
    main = [COMMON.format(tgt=tgt, ev="Ev"), HEADER.format(imports=imports)]
    lib = [COMMON.format(tgt=tgt, ev="EvL"), LIB_HEADER]
    cm, cl = PCtx(prog, False), PCtx(prog, True)
    for i, f in enumerate(funs):
        if f["vis"] == "Ctor":
            main.append("@deploy")
            if f["mut"] == "Pay":
                main.append("@payable")
            main.append("def __init__():")
            main.append(LOCALS)
            main += v_stmt(f["body"], 1, cm)
            main.append("")
            continue
        out, cx, nm = (lib, cl, f"g{i}") if f.get("lib") else (main, cm, f"f{i}")
        out.append("@external" if f["vis"] == "External" else "@internal")
        dec = {"Pure": "@pure", "View": "@view", "NonPay": None, "Pay": "@payable"}[f["mut"]]
        if dec:
            out.append(dec)
        out.append(f"def {nm}(a: uint256) -> uint256:")
        out.append(LOCALS)
        out += v_stmt(f["body"], 1, cx)
        out.append("")
    return "\n".join(main), ("\n".join(lib) if has_lib else None)


# ------------------------------------------------------------------ printers: Coq
def c_expr(e):
    t = e[0]
    if t == "ELit":
        return f"(ELit {e[1]})"
    if t == "EVar":
        return f"(EVar {e[1]} {e[2]})"
    if t in ("EEnv", "EAddrMember"):
        return f"({t} {e[1]})"
    if t == "EMsgValue":
        return "EMsgValue"
    if t == "EBin":
        return f"(EBin {c_expr(e[1])} {c_expr(e[2])})"
    if t == "ECall":
        return f"(ECall {e[1]} {c_expr(e[2])})"
    if t == "EExtCall":
        return f"(EExtCall {e[1]} {e[2]} {c_expr(e[3])})"
    if t == "EBuiltin":
        return f"(EBuiltin {e[1]} {c_expr(e[2])})"
    raise ValueError(e)


def c_stmt(s):
    t = s[0]
    if t == "SSkip":
        return "SSkip"
    if t == "SSeq":
        return f"(SSeq {c_stmt(s[1])} {c_stmt(s[2])})"
    if t in ("SAssign", "SAug"):
        return f"({t} {s[1]} {s[2]} {c_expr(s[3])})"
    if t in ("SExpr", "SLog", "SReturn"):
        return f"({t} {c_expr(s[1])})"
    if t == "SIf":
        return f"(SIf {c_expr(s[1])} {c_stmt(s[2])} {c_stmt(s[3])})"
    if t == "SFor":
        r = s[2]
        rr = f"(RLit {r[1]})" if r[0] == "RLit" else (f"(RBound {c_expr(r[1])} {r[2]})" if r[0] == "RBound" else f"(RExpr {c_expr(r[1])})")
        return f"(SFor {s[1]} {rr} {c_stmt(s[3])})"
    if t == "SForList":
        return f"(SForList {s[1]} {s[2]} {s[3]} {s[4]} {c_stmt(s[5])})"
    raise ValueError(s)


def c_prog(prog):
    fs = "; ".join(f"(mk_fn {f['mut']} {f['vis']} {'true' if f.get('lib') else 'false'} {c_stmt(f['body'])})" for f in prog["funs"])
    return f"(mk_prog [{fs}] (fun _ => 7) {prog['owns']})"


# ------------------------------------------------------------------ static facts used by the generator
def callees(t, out=None):
    out = [] if out is None else out
    if isinstance(t, tuple):
        if t and t[0] == "ECall":
            out.append(t[1])
        for x in t:
            callees(x, out)
    return out


def direct_writes(s, out=None):
    out = set() if out is None else out
    t = s[0]
    if t in ("SSeq",):
        direct_writes(s[1], out), direct_writes(s[2], out)
    elif t == "SIf":
        direct_writes(s[2], out), direct_writes(s[3], out)
    elif t in ("SAssign", "SAug"):
        if s[1] in ("VStorage", "VTransient", "VImm"):
            out.add((s[1], s[2]))
    elif t == "SFor":
        direct_writes(s[3], out)
    elif t == "SForList":
        direct_writes(s[5], out)
    return out


def touches_lib(t):
    if isinstance(t, tuple):
        if len(t) >= 3 and t[0] in ("EVar", "SAssign", "SAug", "SForList"):
            k, x = (t[2], t[3]) if t[0] == "SForList" else (t[1], t[2])
            if k == "VStorage" and x in LIBVARS:
                return True
        return any(touches_lib(x) for x in t)
    return False


def summarize(funs):
    """per function: transitive state write set and 'uses lib state' flag"""
    W, U = {}, {}

    def go(i, depth=0):
        if i in W:
            return
        if i >= len(funs) or depth > len(funs):
            W[i], U[i] = set(), False
            return
        W[i], U[i] = set(), False  # cycle guard
        w = direct_writes(funs[i]["body"])
        u = touches_lib(funs[i]["body"])
        for j in callees(funs[i]["body"]):
            go(j, depth + 1)
            w |= W.get(j, set())
            u = u or U.get(j, False)
        W[i], U[i] = w, u
    for i in range(len(funs)):
        go(i)
    return W, U


def seq(stmts):
    if not stmts:
        return ("SSkip",)
    out = stmts[-1]
    for s in reversed(stmts[:-1]):
        out = ("SSeq", s, out)
    return out


NP_EXPR_TAGS = [None, "raw_call_value", "raw_call_delegate", "create_minimal", "create_copy"]


class Gen:
    def __init__(self, rnd):
        self.rnd = rnd

    def leaf(self, f, loops):
        r = self.rnd
        mut = f["mut"]
        opts = [("ELit", r.choice([0, 1, 2, 5])), ("EVar", "VLocal", r.choice([0, 1])), ("EVar", "VArg", 0)]
        if not f.get("lib"):
            opts.append(("EVar", "VConst", 0))
        if loops:
            opts.append(("EVar", "VLoop", r.choice(loops)))
        if RANK[mut] >= 1:
            opts += [("EEnv", r.randrange(5)), ("EAddrMember", r.randrange(4))]
            if f.get("lib"):
                opts += [("EVar", "VStorage", r.choice(LIBVARS))] * 2
            else:
                opts += [("EVar", "VStorage", r.choice([0, 1])), ("EVar", "VTransient", 0), ("EVar", "VImm", 0)]
                if self.owns != "NoOwn":
                    opts.append(("EVar", "VStorage", r.choice(LIBVARS)))
        if mut == "Pay":
            opts.append(("EMsgValue",))
        return r.choice(opts)

    def callable(self, f, j, iter_arrays):
        g = self.funs[j]
        mut = f["mut"]
        if not (RANK[g["mut"]] <= RANK[mut] or RANK[mut] >= 2):
            return False
        if f.get("lib") and not g.get("lib"):
            return False
        if not f.get("lib") and g.get("lib") and self.owns == "NoOwn" and self.U[j]:
            return False
        if any(q in self.W[j] for q in iter_arrays):
            return False
        return True

    def expr(self, f, callees_, loops, depth, iter_arrays=()):
        r = self.rnd
        mut = f["mut"]
        if depth <= 0 or r.random() < 0.3:
            return self.leaf(f, loops)
        k = r.random()
        sub = lambda: self.expr(f, callees_, loops, depth - 1, iter_arrays)  # noqa
        if k < 0.35:
            return ("EBin", sub(), sub())
        if k < 0.6:
            ok = [j for j in callees_ if self.callable(f, j, iter_arrays)]
            if ok:
                return ("ECall", r.choice(ok), sub())
        if k < 0.8:
            ms = [m for m in MUTS if RANK[m] <= RANK[mut] or RANK[mut] >= 2]
            m = r.choice(ms)
            return ("EExtCall", "KExt" if RANK[m] >= 2 else "KStatic", m, sub())
        ms = [m for m in ("Pure", "View", "NonPay") if RANK[m] <= RANK[mut] or RANK[mut] >= 2]
        m = r.choice(ms)
        tag = {"Pure": r.choice([None, "keccak"]), "View": r.choice([None, None, "blockhash"]), "NonPay": r.choice(NP_EXPR_TAGS)}[m]
        return ("EBuiltin", m, sub(), tag)

    def stmts(self, f, callees_, loops, depth, n, iter_arrays=()):
        r = self.rnd
        mut, vis, lib = f["mut"], f["vis"], f.get("lib")
        out = []
        for _ in range(n):
            E = lambda d=2: self.expr(f, callees_, loops, d, iter_arrays)  # noqa
            k = r.random()
            if k < 0.22:
                out.append(("SAssign", "VLocal", r.choice([0, 1]), E()))
            elif k < 0.3:
                out.append(("SAug", "VLocal", r.choice([0, 1]), E()))
            elif k < 0.42 and RANK[mut] >= 2:
                if lib:
                    tg = [("VStorage", x) for x in LIBVARS]
                else:
                    tg = [("VStorage", 0), ("VStorage", 1), ("VTransient", 0)]
                    if self.owns != "NoOwn":
                        tg.append(("VStorage", LIBVARS[0]))
                    if ("VStorage", ARR) not in iter_arrays:
                        tg.append(("VStorage", ARR))
                    if ("VStorage", DARR) not in iter_arrays:
                        tg.append(("VStorage", DARR))
                tgt = r.choice(tg)
                if tgt[1] == DARR:
                    out.append(("SAssign", tgt[0], tgt[1], E(1), "append"))
                elif tgt[1] == ARR:
                    out.append(("SAssign", tgt[0], tgt[1], E(1)))
                else:
                    out.append((r.choice(["SAssign", "SAug"]), tgt[0], tgt[1], E()))
            elif k < 0.47 and RANK[mut] >= 2:
                out.append(("SLog", E()))
            elif k < 0.52 and RANK[mut] >= 2:
                out.append(("SExpr", ("EBuiltin", "NonPay", E(1), r.choice(STMT_ONLY))))
            elif k < 0.56 and vis == "Internal":
                out.append(("SAssign", "VArg", 0, E()))
            elif k < 0.6 and ("VLocal", DARR) not in iter_arrays and ("VLocal", ARR) not in iter_arrays:
                out.append(("SAssign", "VLocal", DARR, E(1), r.choice(["append", "pop"])) if r.random() < 0.5 else ("SAssign", "VLocal", ARR, E(1)))
            elif k < 0.65:
                out.append(("SExpr", E()))
            elif k < 0.73 and depth > 0:
                out.append(("SIf", E(1), seq(self.stmts(f, callees_, loops, depth - 1, r.choice([1, 2]), iter_arrays)),
                            seq(self.stmts(f, callees_, loops, depth - 1, r.choice([0, 1]), iter_arrays))))
            elif k < 0.92 and depth > 0 and len(loops) < 2:
                i = len(loops)
                body = lambda ia=iter_arrays: seq(self.stmts(f, callees_, loops + [i], depth - 1, r.choice([1, 2]), ia))  # noqa
                kk = r.random()
                if kk < 0.3:
                    out.append(("SFor", i, ("RLit", r.choice([1, 2, 3])), body()))
                elif kk < 0.6:
                    leafs = [("EVar", "VLocal", r.choice([0, 1]))] + ([("EVar", "VArg", 0)] if vis != "Ctor" else [])
                    if RANK[mut] >= 1 and not lib:
                        leafs += [("EVar", "VStorage", r.choice([0, 1])), ("EVar", "VTransient", 0)]
                    e = r.choice(leafs)
                    if r.random() < 0.4:
                        e = ("EExtCall", "KStatic", "Pure" if RANK[mut] < 1 or r.random() < 0.5 else "View", e)
                    out.append(("SFor", i, ("RBound", e, r.choice([1, 3, 5])), body()))
                else:
                    ak = "VLocal" if RANK[mut] < 1 or lib or r.random() < 0.5 else "VStorage"
                    ax = r.choice([ARR, DARR])
                    out.append(("SForList", i, ak, ax, 3 if ax == ARR else 4, body(iter_arrays + ((ak, ax),))))
            else:
                out.append(("SAssign", "VLocal", 0, E(1)))
        if vis == "Ctor":
            out = [s for s in out if not _uses_arg(s)]
        return out

    def valid_program(self, nfun):
        r = self.rnd
        nlib = r.choice([0, 1, 1, 2]) if nfun >= 3 else 0
        self.owns = r.choice(["NoOwn", "Initializes"]) if nlib else "NoOwn"
        funs = [{"mut": r.choice(["NonPay", "Pay"]), "vis": "Ctor", "lib": False, "body": ("SSkip",)}]
        self.funs, self.W, self.U = funs, {0: set()}, {0: False}
        for i in range(1, nfun + 1):
            lib = i <= nlib
            vis = "Internal" if lib or i <= nlib + (nfun - nlib) // 2 or r.random() < 0.3 else "External"
            if i == nfun:
                vis = "External"
            f = {"mut": r.choice(MUTS), "vis": vis, "lib": lib, "body": None}
            cal = [j for j in range(1, i) if funs[j]["vis"] == "Internal"]
            body = self.stmts(f, cal, [], 2, r.choice([1, 2, 3]))
            f["body"] = seq(body + [("SReturn", self.expr(f, cal, [], 1))])
            funs.append(f)
            self.W, self.U = summarize(funs)
        for i, f in enumerate(funs):
            if f["vis"] == "External" and RANK[f["mut"]] <= 1 and r.random() < 0.7:
                hs = [j for j in range(1, i) if funs[j]["vis"] == "Internal" and self.callable(f, j, ())]
                if hs:
                    f["body"] = ("SSeq", ("SAug", "VLocal", 1, ("ECall", r.choice(hs), ("EVar", "VArg", 0))), f["body"])
        self.W, self.U = summarize(funs)
        c = funs[0]
        cb = [("SAssign", "VImm", 0, ("ELit", 5))] + self.stmts(c, [], [], 1, r.choice([0, 1]))
        c["body"] = seq(cb)
        return {"funs": funs, "owns": self.owns}


def _uses_arg(s):
    return "VArg" in repr(s)


# ------------------------------------------------------------------ positions and violations
def expr_positions(e, path=()):
    yield path
    t = e[0]
    if t == "EBin":
        yield from expr_positions(e[1], path + (1,))
        yield from expr_positions(e[2], path + (2,))
    elif t == "ECall":
        yield from expr_positions(e[2], path + (2,))
    elif t == "EExtCall":
        yield from expr_positions(e[3], path + (3,))
    elif t == "EBuiltin":
        yield from expr_positions(e[2], path + (2,))


def replace_at(term, path, new):
    if not path:
        return new
    l = list(term)
    l[path[0]] = replace_at(term[path[0]], path[1:], new)
    return tuple(l)


def stmt_expr_slots(s, path=(), loops=()):
    t = s[0]
    if t == "SSeq":
        yield from stmt_expr_slots(s[1], path + (1,), loops)
        yield from stmt_expr_slots(s[2], path + (2,), loops)
    elif t in ("SAssign", "SAug"):
        yield path + (3,), loops
    elif t in ("SExpr", "SLog", "SReturn"):
        yield path + (1,), loops
    elif t == "SIf":
        yield path + (1,), loops
        yield from stmt_expr_slots(s[2], path + (2,), loops)
        yield from stmt_expr_slots(s[3], path + (3,), loops)
    elif t == "SFor":
        if s[2][0] == "RBound":
            yield path + (2, 1), loops + ("RANGE",)
        yield from stmt_expr_slots(s[3], path + (3,), loops + (s[1],))
    elif t == "SForList":
        yield from stmt_expr_slots(s[5], path + (5,), loops + (s[1],))


def stmt_slots(s, path=(), loops=(), arrays=()):
    t = s[0]
    if t != "SSeq":
        yield path, loops, arrays
    if t == "SSeq":
        yield from stmt_slots(s[1], path + (1,), loops, arrays)
        yield from stmt_slots(s[2], path + (2,), loops, arrays)
    elif t == "SIf":
        yield from stmt_slots(s[2], path + (2,), loops, arrays)
        if s[3][0] != "SSkip":
            yield from stmt_slots(s[3], path + (3,), loops, arrays)
    elif t == "SFor":
        yield from stmt_slots(s[3], path + (3,), loops + (s[1],), arrays)
    elif t == "SForList":
        yield from stmt_slots(s[5], path + (5,), loops + (s[1],), arrays + ((s[2], s[3]),))


def get_at(term, path):
    for i in path:
        term = term[i]
    return term


def expr_violations(f, prog, fi, U):
    funs = prog["funs"]
    m = RANK[f["mut"]]
    a = ("EVar", "VLocal", 0)
    out = []
    okcallee = lambda j: j != fi and funs[j]["vis"] == "Internal" and (funs[j].get("lib") or not f.get("lib"))  # noqa
    if m <= 1:
        np_int = [j for j in range(1, len(funs)) if okcallee(j) and RANK[funs[j]["mut"]] >= 2]
        for j in np_int[:2]:
            out.append(("view_calls_modifying_lib" if funs[j].get("lib") else "view_calls_modifying_internal", ("ECall", j, a)))
        out += [("view_extcall", ("EExtCall", "KExt", "NonPay", a)), ("view_extcall_payable", ("EExtCall", "KExt", "Pay", a)),
                ("view_raw_call", ("EBuiltin", "NonPay", a, None)), ("view_raw_call_value", ("EBuiltin", "NonPay", a, "raw_call_value")),
                ("view_raw_call_delegate", ("EBuiltin", "NonPay", a, "raw_call_delegate")),
                ("view_create_minimal", ("EBuiltin", "NonPay", a, "create_minimal")), ("view_create_copy", ("EBuiltin", "NonPay", a, "create_copy"))]
    if m == 0:
        v_int = [j for j in range(1, len(funs)) if okcallee(j) and RANK[funs[j]["mut"]] == 1]
        for j in v_int[:1]:
            out.append(("pure_calls_view_internal", ("ECall", j, a)))
        out += [("pure_env", ("EEnv", 0)), ("pure_env_sender", ("EEnv", 2)), ("pure_balance", ("EAddrMember", 0)),
                ("pure_addr_member", ("EAddrMember", 2)),
                ("pure_staticcall_view", ("EExtCall", "KStatic", "View", a)), ("pure_raw_call_static", ("EBuiltin", "View", a, None)),
                ("pure_blockhash", ("EBuiltin", "View", a, "blockhash"))]
        if f.get("lib"):
            out.append(("pure_storage_read", ("EVar", "VStorage", LIBVARS[0])))
        else:
            out += [("pure_storage_read", ("EVar", "VStorage", 0)), ("pure_transient_read", ("EVar", "VTransient", 0)),
                    ("pure_immutable_read", ("EVar", "VImm", 0))]
    if f["mut"] != "Pay":
        out.append(("msg_value_internal" if f["vis"] == "Internal" else "msg_value_nonpayable", ("EMsgValue",)))
    out += [("keyword_staticcall_on_nonpayable", ("EExtCall", "KStatic", "NonPay", a)),
            ("keyword_extcall_on_view", ("EExtCall", "KExt", "View", a))]
    # module rules (main contract without `initializes`)
    if not f.get("lib") and prog["owns"] == "NoOwn" and any(g.get("lib") for g in funs):
        if m >= 1:
            out.append(("lib_state_read_without_initializes", ("EVar", "VStorage", LIBVARS[0])))
        st = [j for j in range(1, len(funs)) if funs[j].get("lib") and U.get(j) and (RANK[funs[j]["mut"]] <= m or m >= 2)]
        for j in st[:1]:
            out.append(("lib_stateful_call_without_initializes", ("ECall", j, a)))
    return out


def stmt_violations(f, prog, fi, loops, arrays, W):
    funs = prog["funs"]
    m = RANK[f["mut"]]
    lib = f.get("lib")
    a = ("ELit", 1)
    sv = ("VStorage", LIBVARS[0]) if lib else ("VStorage", 0)
    out = []
    if m <= 1:
        out += [("view_storage_write", ("SAssign",) + sv + (a,)), ("view_storage_augwrite", ("SAug",) + sv + (a,)), ("view_log", ("SLog", a)),
                ("view_send", ("SExpr", ("EBuiltin", "NonPay", a, "send"))), ("view_raw_log", ("SExpr", ("EBuiltin", "NonPay", a, "raw_log"))),
                ("view_selfdestruct", ("SExpr", ("EBuiltin", "NonPay", a, "selfdestruct")))]
        if not lib:
            out += [("view_transient_write", ("SAssign", "VTransient", 0, a)), ("view_array_write", ("SAssign", "VStorage", ARR, a)),
                    ("view_dynarray_append", ("SAssign", "VStorage", DARR, a, "append")), ("view_dynarray_pop", ("SAssign", "VStorage", DARR, a, "pop"))]
    if not lib:
        out.append(("constant_write", ("SAssign", "VConst", 0, a)))
        if f["vis"] != "Ctor":
            out.append(("immutable_write", ("SAssign", "VImm", 0, a)))
        if m >= 2 and prog["owns"] == "NoOwn" and any(g.get("lib") for g in funs):
            out.append(("lib_state_write_without_initializes", ("SAssign", "VStorage", LIBVARS[1], a)))
    if f["vis"] == "External":
        out.append(("calldata_write", ("SAssign", "VArg", 0, a)))
    real_loops = [l for l in loops if l != "RANGE"]
    if real_loops:
        out.append(("loopvar_write", ("SAssign", "VLoop", real_loops[-1], a)))
    i = len(real_loops)
    if i < 3:
        arg = ("EVar", "VLocal", 0)
        out += [("unbounded_range", ("SFor", i, ("RExpr", arg), ("SSkip",))),
                ("zero_bound", ("SFor", i, ("RBound", arg, 0), ("SSkip",))),
                ("empty_range", ("SFor", i, ("RLit", 0), ("SSkip",))),
                ("bound_with_literal", ("SFor", i, ("RBound", ("ELit", 2), 5), ("SSkip",)))]
        if not lib:
            out.append(("bound_with_constant", ("SFor", i, ("RBound", ("EBin", ("EVar", "VConst", 0), ("EBuiltin", "Pure", ("ELit", 1))), 9), ("SSkip",))))
        if m >= 2:
            out.append(("range_modifying_call", ("SFor", i, ("RBound", ("EExtCall", "KExt", "NonPay", arg), 4), ("SSkip",))))
        ak = "VLocal" if m < 2 or lib else "VStorage"
        out.append(("iterator_mutation", ("SForList", i, ak, ARR, 3, ("SIf", ("ELit", 1), ("SAssign", ak, ARR, a), ("SSkip",)))))
        out.append(("iterator_mutation_whole", ("SForList", i, ak, ARR, 3, ("SAssign", ak, ARR, a, "whole"))))
        out.append(("iterator_mutation_pop", ("SForList", i, ak, DARR, 4, ("SAssign", ak, DARR, a, "pop"))))
        out.append(("iterator_mutation_append", ("SForList", i, ak, DARR, 4, ("SIf", arg, ("SAssign", ak, DARR, a, "append"), ("SSkip",)))))
        if i < 2:
            # mutate the OUTER iterator from inside a NESTED list loop (inner loop over a different array)
            for (ox, oln), (ix, iln) in (((DARR, 4), (ARR, 3)), ((ARR, 3), (DARR, 4))):
                inner_k = "VLocal"
                for style, mut_stmt in (("elem", ("SAssign", ak, ox, a) if ox == ARR else None), ("whole", ("SAssign", ak, ox, a, "whole") if ox == ARR else None),
                                        ("pop", ("SAssign", ak, ox, a, "pop") if ox == DARR else None), ("append", ("SAssign", ak, ox, a, "append") if ox == DARR else None)):
                    if mut_stmt is None:
                        continue
                    if ak == "VLocal" and ix == ox:
                        continue
                    out.append((f"iterator_outer_mutation_nested_{style}",
                                ("SForList", i, ak, ox, oln, ("SForList", i + 1, inner_k, ix, iln, mut_stmt))))
            if m >= 2 and not lib:
                for ax, ln in ((ARR, 3), (DARR, 4)):
                    cs = [j for j in range(1, len(funs)) if j != fi and funs[j]["vis"] == "Internal" and ("VStorage", ax) in W.get(j, ())]
                    for j in cs[:1]:
                        out.append(("iterator_outer_mutation_nested_via_call",
                                    ("SForList", i, "VStorage", ax, ln, ("SForList", i + 1, "VLocal", ARR if ax == DARR else DARR, 3 if ax == DARR else 4,
                                                                          ("SAssign", "VLocal", 0, ("ECall", j, arg))))))
        if m >= 2 and not lib:
            # through an internal call: some callee (transitively) writes the iterated storage array
            for ax, ln in ((ARR, 3), (DARR, 4)):
                cs = [j for j in range(1, len(funs)) if j != fi and funs[j]["vis"] == "Internal" and ("VStorage", ax) in W.get(j, ())]
                for j in cs[:1]:
                    out.append(("iterator_mutation_via_call", ("SForList", i, "VStorage", ax, ln,
                                                               ("SAssign", "VLocal", 0, ("EBin", ("ELit", 1), ("ECall", j, arg))))))
    for (ak, ax) in arrays:
        if ak == "VLocal" or m >= 2:
            out.append(("iterator_mutation_nested", ("SAssign", ak, ax, a) if ax == ARR else ("SAssign", ak, ax, a, "pop")))
        if ak == "VStorage" and m >= 2 and not lib:
            cs = [j for j in range(1, len(funs)) if j != fi and funs[j]["vis"] == "Internal" and (ak, ax) in W.get(j, ())]
            for j in cs[:1]:
                out.append(("iterator_mutation_via_call_nested", ("SExpr", ("ECall", j, ("ELit", 1)))))
    return out


def _in_return(body, path):
    t = body
    for i in path:
        if t[0] == "SReturn":
            return True
        t = t[i]
    return False


def _is_return_root(body, path):
    t = body
    for n, i in enumerate(path):
        if t[0] == "SReturn":
            return n == len(path) - 1
        t = t[i]
    return False


BUILTIN_RULES = {"view_send", "view_selfdestruct", "view_raw_log", "view_create_minimal", "view_create_copy", "view_raw_call",
                 "view_raw_call_value", "view_raw_call_delegate"}


def reachable(funs, roots):
    seen, todo = set(), list(roots)
    while todo:
        i = todo.pop()
        if i in seen or i >= len(funs):
            continue
        seen.add(i)
        todo += callees(funs[i]["body"])
    return seen


def reachable_from_constant_externals(funs):
    return reachable(funs, [i for i, f in enumerate(funs) if f["vis"] == "External" and RANK[f["mut"]] <= 1])


def reachable_from_entry(funs):
    return reachable(funs, [i for i, f in enumerate(funs) if f["vis"] in ("External", "Ctor")])


def mutants(prog, rnd, per_prog):
    """single-rule violations of a valid program: list of (rule, where, program)"""
    funs = prog["funs"]
    W, U = summarize(funs)
    cands = []
    for fi, f in enumerate(funs):
        body = f["body"]
        for spath, loops in stmt_expr_slots(body):
            e0 = get_at(body, spath)
            for epath in expr_positions(e0):
                for rule, bad in expr_violations(f, prog, fi, U):
                    cands.append((rule, fi, "expr", spath + epath, bad, loops))
        for spath, loops, arrays in stmt_slots(body):
            for rule, bad in stmt_violations(f, prog, fi, loops, arrays, W):
                cands.append((rule, fi, "stmt", spath, bad, loops))
    out = []
    byrule = {}
    for c in cands:
        byrule.setdefault(c[0], []).append(c)
    rules = sorted(byrule)
    rnd.shuffle(rules)
    # rules that need special skeletons (modules, callee writing an iterated array) are rare: always take them
    rare = [x for x in rules if "lib" in x or "via_call" in x]
    rules = rare + [x for x in rules if x not in rare]
    for rule in rules[:max(per_prog, len(rare) + per_prog - 2)]:
        pool = byrule[rule]
        if rule.startswith("pure_") and rnd.random() < 0.8:
            pref = [c for c in pool if c[2] == "expr" and funs[c[1]]["vis"] == "External" and _in_return(funs[c[1]]["body"], c[3])]
            top = [c for c in pref if _is_return_root(funs[c[1]]["body"], c[3])]
            pool = top or pref or pool
        if rule in BUILTIN_RULES and rnd.random() < 0.8:
            reach = reachable_from_constant_externals(funs)
            pref = [c for c in pool if funs[c[1]]["vis"] == "Internal" and c[1] in reach]
            pool = pref or pool
        _, fi, kind, path, bad, loops = rnd.choice(pool)
        f2 = [dict(f) for f in funs]
        body = f2[fi]["body"]
        if kind == "expr":
            if funs[fi]["vis"] == "Ctor" and _uses_arg(bad):
                continue
            f2[fi]["body"] = replace_at(body, path, bad)
        else:
            old = get_at(body, path)
            f2[fi]["body"] = replace_at(body, path, ("SSeq", bad, old))
        # calling a later function must not create a cycle by accident: both verdicts are "reject" anyway
        out.append((rule, f"f{fi}:{kind}@{'.'.join(map(str, path))}", {"funs": f2, "owns": prog["owns"]}))
    ints = [j for j in range(1, len(funs)) if funs[j]["vis"] == "Internal"]
    if ints:
        j = rnd.choice(ints)
        later = [k for k in ints if k >= j and funs[k].get("lib") == funs[j].get("lib")]
        k = rnd.choice(later)
        f2 = [dict(f) for f in funs]
        m_ok = lambda a, b: RANK[funs[b]["mut"]] <= RANK[funs[a]["mut"]] or RANK[funs[a]["mut"]] >= 2  # noqa
        if m_ok(j, k) and m_ok(k, j):
            arg = ("EVar", "VLocal", 0)
            f2[j]["body"] = ("SSeq", ("SExpr", ("ECall", k, arg)), f2[j]["body"])
            if k != j:
                f2[k]["body"] = ("SSeq", ("SExpr", ("ECall", j, arg)), f2[k]["body"])
            out.append(("recursion" if k == j else "mutual_recursion", f"f{j}<->f{k}", {"funs": f2, "owns": prog["owns"]}))
    # module ownership
    has_lib = any(g.get("lib") for g in funs)
    if has_lib:
        out.append(("uses_without_initializes", "module", {"funs": funs, "owns": "Uses"}))
        main_touch = any(touches_lib(g["body"]) or any(U.get(j) for j in callees(g["body"])) for g in funs if not g.get("lib"))
        if prog["owns"] == "Initializes" and main_touch:
            out.append(("dropped_initializes", "module", {"funs": funs, "owns": "NoOwn"}))
    return out
