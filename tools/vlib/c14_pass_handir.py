"""C14 (pass level): hand-written Venom IR (parsed by the real parser) for shapes the front end never produces at the point
where a pass runs -- in particular phis at the successor of jump-only / chained blocks (SimplifyCFG `_merge_jump`,
`_merge_blocks`, `fix_phi_instructions`), loops with several phis, phis with equal values on two edges.

Every (program, pipeline) pair is run through the real passes in the harness process; the snapshots get the same
well-formedness checks as stage 1 and are handed to stage 2 (vrun translation validation, proved validators, back-end tie).
All programs read their inputs from calldata words and finish with return/revert/stop, so they are in the Venom.v core.
"""
import traceback

from vlib import c14_pass_harness as H
from vlib.evm import DEPLOYER

PROGRAMS = {}
# known-finding keys of programs on which the unchanged tree misbehaves
KEYS = {"merge_jump_phi_same": "C14:simplify-cfg-merge-jump-degenerate-phi"}


def _add(name, text):
    PROGRAMS[name] = "function runtime {\n" + text.strip("\n") + "\n}\n"


# a: jnz -> jump-only block b -> join with a phi naming b  (SimplifyCFG._merge_jump, `else` branch of the phi update)
_add("merge_jump_phi", """
  runtime:
    %x = calldataload 0
    %y = calldataload 32
    jnz %x, @b, @c
  b:
    jmp @join
  c:
    %z = add %y, 1
    jmp @join
  join:
    %p = phi @b, %y, @c, %z
    %m = alloca 32
    mstore %m, %p
    return %m, 32
""")

# both a and the jump-only block b are predecessors of join, same value on both edges (merge allowed: operand deleted)
_add("merge_jump_phi_same", """
  runtime:
    %x = calldataload 0
    %y = calldataload 32
    %w = add %y, 7
    jnz %x, @b, @join
  b:
    jmp @join
  join:
    %p = phi @runtime, %w, @b, %w
    %m = alloca 32
    mstore %m, %p
    return %m, 32
""")

# different values on the two edges: the jump-only block must stay
_add("merge_jump_phi_diff", """
  runtime:
    %x = calldataload 0
    %y = calldataload 32
    %w = add %y, 7
    jnz %x, @b, @join
  b:
    jmp @join
  join:
    %p = phi @runtime, %w, @b, %y
    %m = alloca 32
    mstore %m, %p
    return %m, 32
""")

# chain a -> mid (single pred / single succ) whose successors have phis naming mid (SimplifyCFG._merge_blocks)
_add("merge_blocks_phi", """
  runtime:
    %x = calldataload 0
    jmp @mid
  mid:
    %y = add %x, 1
    jnz %y, @t, @join
  t:
    %z = mul %y, 2
    jmp @join
  join:
    %p = phi @mid, %y, @t, %z
    %m = alloca 32
    mstore %m, %p
    return %m, 32
""")

# unreachable predecessor of a phi (remove_unreachable_blocks + fix_phi_instructions: phi -> assign)
_add("dead_pred_phi", """
  runtime:
    %x = calldataload 0
    jmp @then
  then:
    %a = add %x, 3
    jmp @join
  else:
    %b = add %x, 4
    jmp @join
  join:
    %p = phi @then, %a, @else, %b
    %m = alloca 32
    mstore %m, %p
    return %m, 32
""")

# loop with two loop-carried phis and a value live through the header (the shape of the former code-generator bug)
_add("loop_two_phis", """
  runtime:
    %n = calldataload 0
    %a = calldataload 32
    %lim = and %n, 7
    %zero = 0
    jmp @head
  head:
    %i = phi @runtime, %zero, @body, %i2
    %acc = phi @runtime, %a, @body, %acc2
    %done = eq %i, %lim
    jnz %done, @exit, @body
  body:
    %acc2 = add %acc, %a
    %i2 = add %i, 1
    jmp @head
  exit:
    sstore 0, %acc
    %m = alloca 32
    mstore %m, %acc
    return %m, 32
""")

# nested diamonds, jump-only arms on both levels, phis at both joins
_add("nested_diamonds", """
  runtime:
    %x = calldataload 0
    %y = calldataload 32
    %c1 = lt %x, 10
    jnz %c1, @l, @r
  l:
    %c2 = iszero %y
    jnz %c2, @ll, @lr
  ll:
    jmp @lj
  lr:
    %v1 = add %y, %x
    jmp @lj
  lj:
    %p1 = phi @ll, %x, @lr, %v1
    jmp @join
  r:
    jmp @join
  join:
    %p2 = phi @lj, %p1, @r, %y
    %q = mul %p2, 3
    %m = alloca 32
    mstore %m, %q
    return %m, 32
""")

# constant conditions: SCCP prunes an edge into a phi, SimplifyCFG then repairs the phi
_add("sccp_prunes_phi_edge", """
  runtime:
    %x = calldataload 0
    %k = 1
    %c = iszero %k
    jnz %c, @never, @always
  never:
    %a = add %x, 100
    jmp @join
  always:
    %b = add %x, 200
    jmp @join
  join:
    %p = phi @never, %a, @always, %b
    %c2 = lt %p, 300
    assert %c2
    %m = alloca 32
    mstore %m, %p
    return %m, 32
""")

# storage / memory effects around a diamond: dead store, redundant load, store forwarded through a phi
_add("effects_diamond", """
  runtime:
    %x = calldataload 0
    %y = calldataload 32
    sstore 1, %x
    %l1 = sload 1
    jnz %y, @t, @e
  t:
    sstore 1, %y
    %l2 = sload 1
    jmp @join
  e:
    %l3 = sload 1
    %m2 = alloca 32
    mstore %m2, %l3
    jmp @join
  join:
    %p = phi @t, %l2, @e, %l3
    %l4 = sload 1
    %s = add %p, %l4
    %s2 = add %s, %l1
    %m = alloca 32
    mstore %m, %s2
    log %m, 32, %x, 1
    return %m, 32
""")

# revert / assert / stop exits, unused values, copies
_add("exits_and_copies", """
  runtime:
    %x = calldataload 0
    %y = calldataload 32
    %u = mul %x, %y
    %cx = %x
    %cy = %y
    %s = add %cx, %cy
    %ov = lt %s, %cx
    %ok = iszero %ov
    assert %ok
    %c = gt %s, 100
    jnz %c, @big, @small
  big:
    %mr = alloca 32
    mstore %mr, %s
    revert %mr, 32
  small:
    %z = iszero %s
    jnz %z, @zero, @fin
  zero:
    stop
  fin:
    %t = %s
    %m = alloca 32
    mstore %m, %t
    return %m, 32
""")

# immutables region (memory-backed in the constructor context): istore / iload with distinguishable operands
_add("immutable_ops", """
  runtime:
    %a0 = calldataload 0
    %a1 = calldataload 32
    %k = and %a1, 4032
    %p = add 64, %k
    istore %a0, %p
    %q = add %p, 32
    %a2 = add %a0, 7
    istore %a2, %q
    %r = iload %p
    %r2 = iload %q
    %s = add %r, %r2
    %m = alloca 32
    mstore %m, %s
    return %m, 32
""")

# shaped like a constructor with immutables (compare the deploy function of corpus program immut_ctor): immutables
# written with istore, read back with iload inside a loop and read out at the end; as in the front end's output the immutables live in an
# alloca (pipeline inputs may not use concrete memory addresses); the final copy of the runtime code is left out
_add("ctor_immutables", """
  runtime:
    %cv = callvalue
    %nz = iszero %cv
    assert %nz
    %imm = alloca 64
    %a = calldataload 0
    istore %a, %imm
    %c = caller
    %imm1 = add %imm, 32
    istore %c, %imm1
    sstore 3, %c
    %i0 = 0
    jmp @cond
  cond:
    %i = phi @runtime, %i0, @body, %i2
    %x = xor 3, %i
    jnz %x, @body, @exit
  body:
    %v = iload %imm
    %t = mul %v, %i
    %u = mod %t, 1000
    sstore %i, %u
    %i2 = add 1, %i
    jmp @cond
  exit:
    %buf = alloca 128
    %b0 = iload %imm
    mstore %buf, %b0
    %b = iload %imm1
    %a1 = calldataload 32
    istore %a1, %imm1
    %b2 = iload %imm1
    %p1 = add %buf, 32
    mstore %p1, %b
    %p2 = add %buf, 64
    mstore %p2, %b2
    %p3 = add %buf, 96
    mstore %p3, %i
    return %buf, 128
""")

PIPELINES = {
    "SimplifyCFG": ["SimplifyCFGPass"],
    "SCCP+SimplifyCFG": ["SCCP", "SimplifyCFGPass"],
    "PhiElim": ["SimplifyCFGPass", "PhiEliminationPass"],
    "Algebraic+SCCP+SimplifyCFG": ["AlgebraicOptimizationPass", "SCCP", "SimplifyCFGPass"],
    "BranchOpt": ["SimplifyCFGPass", "BranchOptimizationPass"],
    "AssignElim+RUV": ["SimplifyCFGPass", "AssignElimination", "RemoveUnusedVariablesPass"],
    "LoadElim+DSE": ["SimplifyCFGPass", "LoadElimination", "AssignElimination", ("DeadStoreElimination", "STORAGE"), "RemoveUnusedVariablesPass"],
    "CSE": ["SimplifyCFGPass", "CSE", "AssignElimination", "RemoveUnusedVariablesPass"],
    "Mem2Var+MakeSSA": ["SimplifyCFGPass", "Mem2Var", "MakeSSA", "PhiEliminationPass", "SCCP", "SimplifyCFGPass"],
    "full-O2": "O2",
}

WORDS = [0, 1, 2, 5, 9, 10, 100, 2 ** 255, 2 ** 256 - 1]


def inputs(rnd, n):
    out = []
    pairs = [(0, 0), (1, 0), (0, 1), (1, 1), (5, 9), (2 ** 256 - 1, 1), (3, 2 ** 256 - 1)]
    while len(pairs) < n:
        pairs.append((rnd.choice(WORDS), rnd.choice(WORDS)))
    for a, b in pairs[:n]:
        out.append({"fn": "raw", "args": f"[{a}, {b}]", "data": (a.to_bytes(32, "big") + b.to_bytes(32, "big")).hex(), "value": 0,
                    "sender": DEPLOYER})
    return out


def run_all(ctx):
    """-> (progs dict in the stage-2 format, list of findings, stats)"""
    from vyper.compiler.settings import Settings, set_global_settings
    from vyper.evm.address_space import MEMORY, STORAGE, TRANSIENT
    from vyper.venom.analysis import IRAnalysesCache
    from vyper.venom.parser import parse_venom
    spaces = {"MEMORY": MEMORY, "STORAGE": STORAGE, "TRANSIENT": TRANSIENT}
    set_global_settings(Settings(evm_version="cancun"))
    H.install()
    progs, findings = {}, []
    stats = {"programs": len(PROGRAMS), "pipelines": 0, "invocations": 0, "changed": 0, "wf_checks": 0, "pass_exceptions": 0}
    rnd = ctx.rng("c14p-handir")
    ins = inputs(rnd, 8 if ctx.tier == "quick" else 16)
    for name, text in sorted(PROGRAMS.items()):
        for pk, (pname, passes) in enumerate(sorted(PIPELINES.items(), key=lambda kv: (kv[1] == "O2", kv[0]))):
            key = f"hand:{name}"
            st = H.State(record=True, wf=True, keep_text=True)
            try:
                ctx_ir = parse_venom(text)
                fn = list(ctx_ir.functions.values())[0]
                st.ssa[str(fn.name)] = True        # the hand-written programs are in SSA form
                ac = IRAnalysesCache(fn)
                H.STATE = st
                try:
                    if passes == "O2":
                        # the whole real pipeline, as vyper.cli.venom_main runs it on parsed IR
                        from vyper.compiler.settings import OptimizationLevel, VenomOptimizationFlags
                        from vyper.venom import run_passes_on
                        from vyper.venom.check_venom import check_venom_ctx
                        try:
                            check_venom_ctx(ctx_ir)
                        except BaseException:  # noqa  (input validator of venom_main rejects the program: not a pipeline input)
                            stats["rejected_inputs"] = stats.get("rejected_inputs", 0) + 1
                            H.STATE = None
                            continue
                        run_passes_on(ctx_ir, VenomOptimizationFlags(level=OptimizationLevel.O2))
                        passes = []
                    for p in passes:
                        kw = {}
                        if isinstance(p, tuple):
                            p, sp = p
                            kw = {"addr_space": spaces[sp]}
                        H.PASS_CLASSES[p](ac, fn).run_pass(**kw)
                finally:
                    H.STATE = None
            except Exception as e:  # noqa
                stats["pass_exceptions"] += 1
                if any(f["kind"] == "pass-exception" and f["program"] == key for f in findings):
                    continue
                findings.append({"kind": "pass-exception", "program": key, "pipeline": pname, "source": text,
                                 "error": f"{type(e).__name__}: {str(e)[:400]}", "trace": traceback.format_exc()[-1200:]})
                continue
            stats["pipelines"] += 1
            stats["invocations"] += st.n_invocations
            stats["changed"] += st.n_changed
            stats["wf_checks"] += st.n_wf_checks
            for w in st.wf_errors[:3]:
                findings.append(dict(w, kind="ill-formed", program=key, pipeline=pname, source=text))
            pr = progs.setdefault(key, {"entry": {"name": key, "src": text, "prio": 0, "key": None, "helper": None}, "snaps": [],
                                        "inputs": ins, "ref_runtime": None, "hand": True})
            for s in st.snaps:
                if s["changed"]:
                    pr["snaps"].append({"prog": key, "level": pname, "pass": s["pass"], "fn": "runtime", "idx": 1000 * pk + s["idx"], "arg": s["arg"],
                                        "before": s["before"], "after": s["after"]})
    return progs, findings, stats
