"""C12 extension O-tie: the USE-SITES of the call / create templates in both generators.

legacy: RawCall.build_IR, _create_ir and the _build_create_IR of every create builtin are called on symbolic operands
        (`to_sym`, `data_sym`, `gas_sym`, `value_sym`, `salt_sym` ...) for the whole finite family of keyword
        combinations; raw_call's IR is exported whole, for the create builtins the subtree around the CREATE opcode
        (eval-once wrapper, `with addr`, check_create_operation, the value) is cut out with the initcode buffer / length
        operands abstracted (those are tied differentially: deployed code, CREATE2 address formula).
venom : one-function probe contracts lowered by the real front end (before any pass); the call instruction's operands
        are exported as backward slices (add / mload / sload / gas / alloca / literals; marker literals for gas, value,
        salt), the failure handling with the existing c12_tpl site cutter, and the store of the capped length as
        (pointer tree, value tree)."""
import types

from vlib import c12_tpl
from vlib.coqrun import hexlit

KINDS = ("KCall", "KStatic", "KDelegate")
GAS_MARK, VALUE_MARK, SALT_MARK = 888, 777, 999
SALT_LIT = "0x" + SALT_MARK.to_bytes(32, "big").hex()


def raw_family():
    fam = []
    for k in KINDS:
        for M in (0, 32):
            for R in (True, False):
                for hv in ((False, True) if k == "KCall" else (False,)):
                    for hg in (False, True):
                        fam.append((k, M, R, hv, hg))
        fam.append((k, 7, True, False, False))
        fam.append((k, 7, False, False, True))
    return fam


def create_family():
    fam = []
    for b in ("raw_create", "raw_create_args", "proxy", "copy", "blueprint", "blueprint_raw"):
        for salt in (False, True):
            for R in (True, False):
                fam.append((b, salt, R, False))
        fam.append((b, False, True, True))
        fam.append((b, True, False, True))
    return fam


# ---------------------------------------------------------------- s-expressions
def sx(node):
    v = node.value
    if isinstance(v, int):
        if node.args:
            raise ValueError("int node with args")
        return f"SL {hexlit(v)}"
    if v == "unique_symbol":
        return 'SN "unique_symbol" []'
    return f'SN "{v}" [' + "; ".join(sx(a) for a in node.args) + "]"


def _symn(s, typ=None, location=None):
    from vyper.codegen.ir_node import IRnode
    return IRnode.from_list(s, typ=typ, location=location)


def _context():
    from vyper.codegen.context import Context
    from vyper.codegen.memory_allocator import MemoryAllocator
    return Context(module_ctx=None, memory_allocator=MemoryAllocator())


def legacy_rawcall(k, M, R, hv, hg):
    from vyper.builtins.functions import DISPATCH_TABLE, STMT_DISPATCH_TABLE, zero_value
    from vyper.codegen.ir_node import IRnode
    from vyper.evm.address_space import MEMORY
    from vyper.semantics.types import AddressT, BytesT
    from vyper.semantics.types.shortcuts import UINT256_T

    rc = DISPATCH_TABLE.get("raw_call") or STMT_DISPATCH_TABLE["raw_call"]
    kwargs = {"gas": _symn("gas_sym", UINT256_T) if hg else "gas",
              "value": _symn("value_sym", UINT256_T) if hv else zero_value,
              "max_outsize": M, "is_delegate_call": k == "KDelegate", "is_static_call": k == "KStatic",
              "revert_on_failure": R}
    ir = type(rc).build_IR.__wrapped__(rc, None, [_symn("to_sym", AddressT()), _symn("data_sym", BytesT(64), MEMORY)],
                                       kwargs, _context())
    return sx(IRnode.from_list(ir))


def legacy_create_ir(salt, R):
    from vyper.builtins.functions import CREATE2_SENTINEL, _create_ir
    from vyper.codegen.ir_node import IRnode

    ir = _create_ir(_symn("value_sym"), _symn("buf_sym"), _symn("len_sym"), _symn("salt_sym") if salt else CREATE2_SENTINEL, R)
    return sx(IRnode.from_list(ir))


def _cut_create(ir):
    """the subtree around the unique create/create2 node, initcode buffer/length abstracted"""
    from vyper.codegen.ir_node import IRnode

    found = []

    def walk(n, path):
        if n.value in ("create", "create2"):
            found.append(path + [n])
        for a in n.args:
            walk(a, path + [n])

    walk(ir, [])
    if len(found) != 1:
        raise ValueError(f"expected exactly one create opcode, found {len(found)}")
    path = found[0]
    node = path[-1]
    args = list(node.args)
    args[1], args[2] = _symn("buf_sym"), _symn("len_sym")
    cur_old, cur_new = node, IRnode.from_list([node.value] + args)
    for parent in reversed(path[:-1]):
        pa = list(parent.args)
        idx = next(i for i, a in enumerate(pa) if a is cur_old)
        if parent.value == "seq" and len(pa) == 2 and pa[0].value == "unique_symbol" and idx == 1:
            pass
        elif parent.value == "with" and idx == 1 and pa[0].value == "addr":
            pass
        else:
            break
        pa[idx] = cur_new
        cur_old, cur_new = parent, IRnode.from_list([parent.value] + pa)
    return sx(cur_new)


def legacy_create_usesite(b, salt, R, hv):
    from vyper.builtins.functions import DISPATCH_TABLE, STMT_DISPATCH_TABLE, zero_value
    from vyper.codegen.ir_node import IRnode
    from vyper.evm.address_space import MEMORY
    from vyper.semantics.types import AddressT, BytesT
    from vyper.semantics.types.shortcuts import BYTES32_T, UINT256_T

    name = {"raw_create": "raw_create", "raw_create_args": "raw_create", "proxy": "create_minimal_proxy_to",
            "copy": "create_copy_of", "blueprint": "create_from_blueprint", "blueprint_raw": "create_from_blueprint"}[b]
    fn = {**STMT_DISPATCH_TABLE, **DISPATCH_TABLE}[name]
    kwargs = {"value": _symn("value_sym", UINT256_T) if hv else zero_value, "salt": _symn("salt_sym", BYTES32_T),
              "revert_on_failure": R}
    if b.startswith("raw_create"):
        args = [_symn("data_sym", BytesT(64), MEMORY)] + ([_symn("x_sym", UINT256_T)] if b == "raw_create_args" else [])
    elif b == "blueprint":
        args = [_symn("to_sym", AddressT()), _symn("x_sym", UINT256_T)]
        kwargs.update(raw_args=False, code_offset=IRnode.from_list(3, typ=UINT256_T))
    elif b == "blueprint_raw":
        args = [_symn("to_sym", AddressT()), _symn("data_sym", BytesT(64), MEMORY)]
        kwargs.update(raw_args=True, code_offset=IRnode.from_list(3, typ=UINT256_T))
    else:
        args = [_symn("to_sym", AddressT())]
    expr = types.SimpleNamespace(keywords=[types.SimpleNamespace(arg="salt")] if salt else [])
    ir = type(fn).build_IR.__wrapped__(fn, expr, args, kwargs, _context())
    return _cut_create(IRnode.from_list(ir))


# ---------------------------------------------------------------- venom
PURE = ("add", "mload", "gas")
CAP = PURE + ("xor", "mul", "lt", "returndatasize")


def raw_probe(k, M, R, hv, hg):
    kws = (f", max_outsize={M}" if M else "") + (f", gas={GAS_MARK}" if hg else "") + (f", value={VALUE_MARK}" if hv else "")
    kws += {"KCall": "", "KStatic": ", is_static_call=True", "KDelegate": ", is_delegate_call=True"}[k]
    kws += "" if R else ", revert_on_failure=False"
    if M == 0:
        ret, body = ("", "") if R else (" -> bool", "return ")
    else:
        ret, body = (f" -> Bytes[{M}]", "return ") if R else (f" -> (bool, Bytes[{M}])", "return ")
    return f"@external\n@payable\ndef a(d: Bytes[64]){ret}:\n    {body}raw_call(self.t, d{kws})\n"


def create_probe(b, salt, R, hv):
    kws = (f", value={VALUE_MARK}" if hv else "") + (f", salt={SALT_LIT}" if salt else "") + ("" if R else ", revert_on_failure=False")
    call = {"raw_create": "raw_create(d", "raw_create_args": "raw_create(d, x", "proxy": "create_minimal_proxy_to(self.t",
            "copy": "create_copy_of(self.t", "blueprint": "create_from_blueprint(self.t, x",
            "blueprint_raw": "create_from_blueprint(self.t, d, raw_args=True"}[b]
    return f"@external\n@payable\ndef a(d: Bytes[64], x: uint256) -> address:\n    return {call}{kws})\n"


def _compile(src, evm):
    from vyper.codegen_venom.module import generate_runtime_venom
    from vyper.compiler.phases import CompilerData
    from vyper.compiler.settings import Settings, anchor_settings

    cd = CompilerData(c12_tpl.HEAD + src, settings=Settings(experimental_codegen=True, evm_version=evm))
    with anchor_settings(cd.settings):
        return generate_runtime_venom(cd.global_ctx, cd.settings)


def venom_usesite(src, evm, create=False):
    from vyper.venom.basicblock import IRLabel, IRLiteral, IRVariable

    ctx = _compile(src, evm)
    defs, blocks, sites = {}, {}, []
    for fn in ctx.functions.values():
        for bb in fn.get_basic_blocks():
            blocks[bb.label.value] = bb
            for i, inst in enumerate(bb.instructions):
                for o in inst.get_outputs():
                    defs[o.name] = inst
                if inst.opcode in c12_tpl.CALL_OPS:
                    if inst.opcode in ("call", "staticcall") and isinstance(inst.operands[-2], IRLiteral) \
                            and inst.operands[-2].value == 4:
                        continue   # memory copy through the identity precompile (pre-cancun targets)
                    sites.append((bb, i, inst))
    if len(sites) != 1:
        raise ValueError(f"expected exactly one call site, found {len(sites)}")
    bb, i, call = sites[0]
    allocas = {}

    def tree(o, allowed, depth=0):
        if isinstance(o, IRLiteral):
            return f"SL {hexlit(o.value)}"
        if isinstance(o, IRLabel) or depth > 8:
            return 'SN "ext" []'
        d = defs.get(o.name)
        if d is None:
            return 'SN "ext" []'
        if d.opcode == "sload":
            return 'SN "to_sym" []'    # the target expression `self.t` (its slot depends on the evm version)
        if d.opcode == "alloca":
            if o.name not in allocas:
                allocas[o.name] = len(allocas) + 1
            return f'SN "alloca{allocas[o.name]}" []'
        if d.opcode in allowed:
            # printed order = reverse of the internal operand order
            return f'SN "{d.opcode}" [' + "; ".join(tree(x, allowed, depth + 1) for x in reversed(d.operands)) + "]"
        return 'SN "ext" []'

    printed = list(reversed(call.operands))
    if create:
        args = [tree(printed[0], PURE), 'SN "buf_sym" []', 'SN "len_sym" []'] + [tree(x, PURE) for x in printed[3:]]
    else:
        args = [tree(x, PURE) for x in printed]
    # the store of the capped length: first mstore after the call whose pointer is the alloca of the output pointer
    lenstore = "None"
    if not create:
        outp = printed[-2]
        out_alloca = None
        if isinstance(outp, IRVariable):
            d = defs.get(outp.name)
            if d is not None and d.opcode == "alloca":
                out_alloca = outp.name
            elif d is not None and d.opcode == "add":
                for x in d.operands:
                    if isinstance(x, IRVariable) and defs.get(x.name) is not None and defs[x.name].opcode == "alloca":
                        out_alloca = x.name
        after = list(bb.instructions[i + 1:])
        term = after[-1] if after else None
        if term is not None and term.opcode == "jnz":
            for lab in term.operands[1:]:
                sb = blocks[lab.value]
                if sb.instructions[-1].opcode != "revert":
                    after = after[:-1] + list(sb.instructions)
        for inst in after:
            if inst.opcode in c12_tpl.CALL_OPS:
                break
            if inst.opcode == "mstore":
                val, ptr = inst.operands[0], inst.operands[1]
                if isinstance(ptr, IRVariable) and ptr.name == out_alloca:
                    lenstore = f"Some ({tree(ptr, CAP)}, {tree(val, CAP)})"
                    break
    return args, lenstore


def observe():
    """-> (GenSites.v text, number of templates)"""
    lines = ["(* GENERATED by tools/vlib/c12_sites.py from the real generators. *)",
             "From Coq Require Import ZArith List String.",
             "From Verif Require Import C12.ExtCall C12.Builtins C12.CallTpl C12.EvmFrag.",
             "Import ListNotations.", "Open Scope string_scope.", "Open Scope Z_scope."]
    n = 0
    b = lambda x: "true" if x else "false"  # noqa
    from vyper.compiler.settings import Settings, anchor_settings
    with anchor_settings(Settings(evm_version="cancun")):
        items = []
        for k, M, R, hv, hg in raw_family():
            items.append(f"(({k}, {M}, {b(R)}, {b(hv)}, {b(hg)}), {legacy_rawcall(k, M, R, hv, hg)})")
            n += 1
        lines.append("Definition obs_rawcall_legacy : list ((ckind * Z * bool * bool * bool) * sx) :=\n [" + ";\n  ".join(items) + "].")
        items = []
        for salt in (False, True):
            for R in (True, False):
                items.append(f"(({b(salt)}, {b(R)}), {legacy_create_ir(salt, R)})")
                n += 1
        lines.append("Definition obs_create_ir_legacy : list ((bool * bool) * sx) :=\n [" + ";\n  ".join(items) + "].")
        items = []
        for bn, salt, R, hv in create_family():
            items.append(f'(("{bn}", {b(salt)}, {b(R)}, {b(hv)}), {legacy_create_usesite(bn, salt, R, hv)})')
            n += 1
        lines.append("Definition obs_create_use_legacy : list ((string * bool * bool * bool) * sx) :=\n [" + ";\n  ".join(items) + "].")
    for evm in ("cancun", "london"):
        items = []
        for k, M, R, hv, hg in raw_family():
            if evm == "london" and not (M == 32 and not hg):
                continue
            src = raw_probe(k, M, R, hv, hg)
            args, ls = venom_usesite(src, evm)
            site = c12_tpl.venom_site(src, evm)
            items.append(f'(({k}, {M}, {b(R)}, {b(hv)}, {b(hg)}), mkVS "{site.split(chr(34))[1]}" [{"; ".join(args)}] ({site}) ({ls}) {b(not R)})')
            n += 1
        lines.append(f"Definition obs_rawcall_venom_{evm} : list ((ckind * Z * bool * bool * bool) * vsite) :=\n [" + ";\n  ".join(items) + "].")
        items = []
        for bn, salt, R, hv in create_family():
            if evm == "london" and hv:
                continue
            src = create_probe(bn, salt, R, hv)
            args, _ls = venom_usesite(src, evm, create=True)
            site = c12_tpl.venom_site(src, evm)
            items.append(f'(("{bn}", {b(salt)}, {b(R)}, {b(hv)}), mkVS "{site.split(chr(34))[1]}" [{"; ".join(args)}] ({site}) None false)')
            n += 1
        lines.append(f"Definition obs_create_venom_{evm} : list ((string * bool * bool * bool) * vsite) :=\n [" + ";\n  ".join(items) + "].")
    return "\n".join(lines) + "\n", n
