"""C05 extension: O-tie exporter for CALLDATA-source (external-function arguments, keyword-argument entry points) and
CODE/DATA-source (constructor arguments) ABI decoding.  Runs the REAL decoder generators of both pipelines the way the
entry-point code does (legacy: external_function._register_function_args / _generate_kwarg_handlers =
make_setter(dst, get_element_ptr(base_args_ofst, k)) with base 4@CALLDATA or 0@DATA; venom: module.
_register_positional_args / _register_constructor_args = abi_decode_to_buf(dst, _getelemptr_abi(tuple@4|0, arg, so)),
no `hi`) for every shape of the C06 shape family at two argument positions (k = 0 in (T,), k = 1 in (uint256, T)) and
serialises what they emit as Coq `sx` terms: coq/C05/GenTplDecC.v."""
from . import c06_abi as A
from . import c06_tpl as TP

# (location tag, base offset of the argument tuple)
LOCS = [("cd", 4), ("code", 0)]
POS = [0, 1]      # argument index: T alone, or T after one uint256


# shapes on both sides of the copy-the-maximum heuristics of the legacy copier for the two sources
# (_prefer_copy_maxbound_heuristic: calldata 9 / 17, data 29 / 37 words of cost)
EXTRA = [("bytes", 288), ("bytes", 289), ("darr", ("uint", 256), 5), ("darr", ("uint", 256), 6),
         ("darr", ("uint", 256), 12), ("darr", ("uint", 256), 13), ("darr", ("sarr", ("uint", 256), 2), 7)]


def family():
    fam = TP.shape_family()
    return fam + [t for t in EXTRA if t not in fam]


# -O codesize: the copy heuristics move by 45 (calldata 54 / 62, data 74 / 82)
EXTRA_CS = [("bytes", 576), ("bytes", 577), ("bytes", 768), ("bytes", 800), ("darr", ("uint", 256), 20),
            ("darr", ("uint", 256), 21), ("darr", ("uint", 256), 27), ("darr", ("uint", 256), 28)]


def family_cs():
    fam = family()
    return fam[::2] + [t for t in EXTRA_CS if t not in fam]


def codesize_settings():
    from vyper.compiler.settings import OptimizationLevel, Settings, anchor_settings
    return anchor_settings(Settings(evm_version="cancun", optimize=OptimizationLevel.CODESIZE))


def export_legacy(fam, loc, k, codesize=False):
    from vyper.codegen.core import get_element_ptr, make_setter, reset_names
    from vyper.codegen.ir_node import Encoding, IRnode
    from vyper.evm.address_space import CALLDATA, DATA, MEMORY
    space, base = (CALLDATA, 4) if loc == "cd" else (DATA, 0)
    out = []
    with (codesize_settings() if codesize else TP.legacy_settings()):
        for t in fam:
            reset_names()
            tt = ("tuple", (("uint", 256),) * k + (t,))
            b = IRnode(base, location=space, typ=TP.vy_type(tt), encoding=Encoding.ABI)
            arg = get_element_ptr(b, k)
            dst = IRnode.from_list("dst", typ=TP.vy_type(t), location=MEMORY)
            out.append((t, TP.sx_of_ir(make_setter(dst, arg))))
    return out


def export_venom(fam, loc, k):
    from vyper.codegen_venom.abi.abi_decoder import _getelemptr_abi, abi_decode_to_buf
    from vyper.codegen_venom.buffer import Ptr
    from vyper.codegen_venom.context import VenomCodegenContext
    from vyper.codegen_venom.value import VyperValue
    from vyper.semantics.data_locations import DataLocation
    from vyper.venom.basicblock import IRLiteral
    from vyper.venom.builder import VenomBuilder
    from vyper.venom.context import IRContext
    dl, base = (DataLocation.CALLDATA, 4) if loc == "cd" else (DataLocation.CODE, 0)
    out = []
    with TP.venom_settings():
        for t in fam:
            ctx = IRContext()
            fn = ctx.create_function("probe")
            b = VenomBuilder(ctx, fn)
            dst = b.param()
            cg = VenomCodegenContext(module_ctx=None, builder=b)
            tt = TP.vy_type(("tuple", (("uint", 256),) * k + (t,)))
            tup = VyperValue.from_ptr(Ptr(operand=IRLiteral(base), location=dl), tt)
            elem = _getelemptr_abi(cg, tup, TP.vy_type(t), 32 * k)
            abi_decode_to_buf(cg, dst, elem)
            b.stop()
            out.append((t, TP.sx_of_venom_fn(fn)))
    return out


def fam_for(loc, k):
    """whole family at the position the entry points use most (calldata: first argument; constructor: second), every
    4th shape at the other position (only the argument pointer differs)"""
    fam = family()
    return fam if (loc, k) in (("cd", 0), ("code", 1)) else fam[::4]


def tables(pipe):
    tabs = []
    for loc, _ in LOCS:
        for k in POS:
            ex = export_legacy if pipe == "l" else export_venom
            tabs.append((f"obs_cd_{pipe}_{loc}{k}", ex(fam_for(loc, k), loc, k)))
    if pipe == "l":
        tabs.append(("obs_cd_l_cs_cd0", export_legacy(family_cs(), "cd", 0, codesize=True)))
        tabs.append(("obs_cd_l_cs_code1", export_legacy(family_cs(), "code", 1, codesize=True)))
    return tabs


GEN_FILES = {"l": "GenTplDecCL.v", "v": "GenTplDecCV.v"}


def write_gen(coq_dir):
    """regenerate the observed tables from the current /repo tree (rewritten only when the content changes, so that
    content-keyed .vo reuse works)"""
    for pipe, fn in GEN_FILES.items():
        txt = TP.HEADER.replace("c06_tpl.py", "c05_cdtpl.py") + "\n".join(TP.coq_table(n, rows) for n, rows in tables(pipe))
        p = coq_dir / "C05" / fn
        if not p.exists() or p.read_text() != txt:
            p.write_text(txt)
    return family()


TABLES = [(f"obs_cd_{p}_{loc}{k}", p, loc, k) for loc, _ in LOCS for k in POS for p in ("l", "v")]


def coq_gen_call(p, loc, k):
    return f"tpl_cd_{p} {'LCd' if loc == 'cd' else 'LCode'} {k}"


CS_TABLES = [("obs_cd_l_cs_cd0", "tpl_cd_l_opt LCd true 0"), ("obs_cd_l_cs_code1", "tpl_cd_l_opt LCode true 1")]


def differing_shapes():
    """Search step after a broken tie: which shapes' observed templates differ from the Coq generators"""
    from . import coqrun
    imp = "From Verif Require Import C06.Abi C06.Sexp C05.TplDecC C05.GenTplDecCL C05.GenTplDecCV.\n"
    ex = [f"map (fun p => if sx_eqb ({coq_gen_call(p, loc, k)} (fst p)) (snd p) then 1 else 0) {name}"
          for name, p, loc, k in TABLES]
    ex += [f"map (fun p => if sx_eqb ({g} (fst p)) (snd p) then 1 else 0) {name}" for name, g in CS_TABLES]
    outs = coqrun.eval_zlists(imp, ex, "c05cdtie", shard=1)
    res = {}
    for (name, _), o in zip(CS_TABLES, outs[len(TABLES):]):
        bad = [A.eth_ty(t) for t, ok in zip(family_cs(), o) if not ok]
        if bad:
            res[name] = bad
    for (name, p, loc, k), o in zip(TABLES, outs):
        bad = [A.eth_ty(t) for t, ok in zip(fam_for(loc, k), o) if not ok]
        if bad:
            res[name] = bad
    return res
