"""Tie of Base/Word256.v to a real EVM: each opcode is executed by pyrevm on a boundary
grid and compared with the Coq definition evaluated by vm_compute."""
import re

from . import coqrun
from .evm import Chain
from .grid import HALF, W, small_word_grid, word_grid

BINOPS = {
    "add": 0x01, "mul": 0x02, "sub": 0x03, "div": 0x04, "sdiv": 0x05, "mod": 0x06, "smod": 0x07,
    "exp": 0x0A, "signextend": 0x0B, "lt": 0x10, "gt": 0x11, "slt": 0x12, "sgt": 0x13, "eq": 0x14,
    "and": 0x16, "or": 0x17, "xor": 0x18, "byte": 0x1A, "shl": 0x1B, "shr": 0x1C, "sar": 0x1D,
}
UNOPS = {"iszero": 0x15, "not": 0x19}
TERNOPS = {"addmod": 0x08, "mulmod": 0x09}


def _prog(opcode, arity):
    # load operands from calldata: first operand ends on top of the stack
    code = b""
    for i in reversed(range(arity)):
        code += bytes([0x60, 32 * i, 0x35])  # PUSH1 off; CALLDATALOAD
    code += bytes([opcode])
    code += bytes([0x60, 0x00, 0x52, 0x60, 0x20, 0x60, 0x00, 0xF3])  # MSTORE 0; RETURN(0,32)
    return code


def parse_zlist(s):
    s = s.strip()
    assert s.startswith("[") and s.endswith("]"), s[:80]
    inner = s[1:-1].strip()
    if not inner:
        return []
    return [int(x.strip().replace("%Z", "").replace("(", "").replace(")", "")) for x in inner.split(";")]


def run(ctx, quick=True):
    """Returns number of (op, operands) cases compared; records a violation on mismatch."""
    chain = Chain("cancun")
    rnd = ctx.rng("wordtie")
    full = word_grid()
    g2 = full if not quick else sorted(set(rnd.sample(full, 22) + [0, 1, 2, 255, 256, HALF - 1, HALF, W - 1]))
    g2 = g2 + [rnd.randrange(W) for _ in range(4)]
    g3 = small_word_grid()[::2] + [rnd.randrange(W) for _ in range(2)]
    gexp_b = g2[::2]
    gexp_e = [0, 1, 2, 3, 8, 255, 256, 257, 65535, HALF, W - 1] + ([rnd.randrange(W)] if not quick else [])
    imports = ("From Verif Require Import Base.Word256.\n"
               f"Definition G2 := {coqrun.zlist(g2)}.\nDefinition G3 := {coqrun.zlist(g3)}.\n"
               f"Definition GB := {coqrun.zlist(gexp_b)}.\nDefinition GE := {coqrun.zlist(gexp_e)}.")
    exprs, meta = [], []
    for name in BINOPS:
        if name == "exp":
            exprs.append("map (fun p => w_exp (fst p) (snd p)) (list_prod GB GE)")
            meta.append((name, 2, [(a, b) for a in gexp_b for b in gexp_e]))
            continue
        exprs.append(f"map (fun p => w_{name} (fst p) (snd p)) (list_prod G2 G2)")
        meta.append((name, 2, [(a, b) for a in g2 for b in g2]))
    for name in UNOPS:
        exprs.append(f"map w_{name} G2")
        meta.append((name, 1, [(a,) for a in g2]))
    for name in TERNOPS:
        exprs.append(f"map (fun p => w_{name} (fst (fst p)) (snd (fst p)) (snd p)) (list_prod (list_prod G3 G3) G3)")
        meta.append((name, 3, [(a, b, c) for a in g3 for b in g3 for c in g3]))
    outs = coqrun.eval_zlists(imports, exprs, f"wordtie_{ctx.pid}", shard=2)
    total = 0
    mism = []
    for (name, ar, cases), exp in zip(meta, outs):
        assert len(exp) == len(cases), (name, len(exp), len(cases))
        opc = {**BINOPS, **UNOPS, **TERNOPS}[name]
        addr = chain.set_code(None, _prog(opc, ar))
        for args, e in zip(cases, exp):
            data = b"".join(x.to_bytes(32, "big") for x in args)
            r = chain.call(addr, data)
            got = int.from_bytes(r.out, "big") if r.ok else None
            total += 1
            if got != e:
                mism.append({"op": name, "args": [str(x) for x in args], "coq": str(e), "evm": str(got)})
    if mism:
        ctx.violation("correspondence-broken", "Word256.v disagrees with pyrevm", {"mismatches": mism[:5]})
    ctx.trusted.append(f"Word256.v tied to pyrevm on {total} opcode cases (boundary grid)")
    return total
