"""C14: whole-function verified validation of the SCCP pass (vyper/venom/passes/sccp/sccp.py).

Every real invocation of `SCCP.run_pass` (while corpus contracts are compiled, and on hand-written families pushed
through the real parser + pass) is observed in-process: the function before and after the pass and the certificate =
the pass object's final lattice and executable-edge sets (`cfg_in_exec`) are exported, and the Gallina checker
`sccp_check before cert after` (coq/C14/Sccp.v) is evaluated by vm_compute.  By PropsSccp.sccp_check_sound /
sccp_preserves_executions an accepted triple means: on every execution only executable blocks are entered, every
assigned variable marked CONST k holds k, and `after` has exactly the reachable configurations of `before`.
The harness additionally supplies (and the checker verifies) the variables definitely assigned at each block entry.
Evidence classes: accepted / unsupported (a construct outside the model: phi with a literal operand, a constant folded
through exp/addmod/mulmod which RangeFix.v does not interpret) / rejected (-> Search: execution of before/after on
random inputs for a different instruction result or a lattice violation)."""
import hashlib
import warnings

from vlib import coqrun

PROOF_FILES = ["C14/Sccp.v", "C14/SccpProofs.v", "C14/PropsSccp.v"]
DEPS = ["C14/RangeBase.v", "C14/GenRange.v", "C14/GenRangeClients.v", "C14/RangeFix.v"]
IMPORTS = ("From Coq Require Import NArith.\nFrom Verif Require Import Base.PyInt C14.RangeBase C14.RangeFix C14.Sccp.\n"
           "Open Scope string_scope.\nOpen Scope Z_scope.\n")
FIELDS = ["lattice_ok", "rewrite_ok", "rw_safe", "shape", "undefined_read", "not_postfix", "edge_missing", "def_sets",
          "phi_operand", "first_bad_block", "const_vars", "exec_blocks", "changed_insts"]
UNINTERPRETED_ARITH = ("exp", "addmod", "mulmod")
W256 = 2 ** 256


def build(ctx, deps=None):
    return ctx.coq_build_cached(PROOF_FILES, deps=list(deps) if deps is not None else DEPS, timeout=600)


def prebuild(ctx):
    build(ctx)


# ------------------------------------------------------------------ export
def must_defined(struct, preds):
    """variables definitely assigned at the entry of each executable block (forward must analysis over executable edges)"""
    n = len(struct)
    gen = [set(o for (_, _, outs) in blk for o in outs) for blk in struct]
    defs = [None] * n        # None = not yet known (universe)
    defs[0] = set()
    changed = True
    while changed:
        changed = False
        for b in range(1, n):
            acc = None
            for p in preds[b]:
                if defs[p] is None:
                    continue
                s = defs[p] | gen[p]
                acc = s if acc is None else (acc & s)
            if acc is not None and acc != defs[b]:
                defs[b] = acc
                changed = True
    return [sorted(d) if d is not None else [] for d in defs]


def certificate(ex, sccp):
    """-> (coq term of type cert, python dict) from the pass object after run_pass"""
    from vyper.venom.basicblock import IRLabel, IRLiteral
    from vyper.venom.passes.sccp.sccp import LatticeEnum
    lat, plat = [], {}
    for var, item in sccp.lattice.items():
        x = ex.v(var)
        if isinstance(item, IRLiteral):
            lat.append(f"({x}%N, LConst {coqrun.hexlit(item.value)})")
            plat[x] = item.value
        elif item == LatticeEnum.BOTTOM or isinstance(item, IRLabel):
            lat.append(f"({x}%N, LBot)")
            plat[x] = "bot"
        else:
            plat[x] = "top"
    preds = []
    exe = []
    for bb in ex.blocks:
        ins = sccp.cfg_in_exec.get(bb, ())
        exe.append(len(ins) > 0)
        preds.append(sorted(ex.lab[p.label.value] for p in ins if p.label.value in ex.lab))
    return lat, exe, preds, plat


def coq_cert(lat, exe, preds, defs):
    def nl(xs):
        return "[" + "; ".join(f"{x}%N" for x in xs) + "]"
    return ("(mkCert [" + "; ".join(lat) + "] [" + "; ".join("true" if e else "false" for e in exe) + "] ["
            + "; ".join(nl(p) for p in preds) + "] [" + "; ".join(nl(d) for d in defs) + "])")


def unsupported_reason(before_s, plat):
    for blk in before_s:
        for (op, ops, outs) in blk:
            if op == "phi" and any(o[0] == "lit" for o in ops):
                return "phi with a literal operand"
            if op in UNINTERPRETED_ARITH and any(isinstance(plat.get(o), int) for o in outs):
                return f"constant folded through {op} (not interpreted by RangeFix.v)"
    return None


class Observer:
    """Wraps SCCP.run_pass for the duration of a `with` block; records (before, certificate, after) per invocation."""

    def __init__(self, max_insts=600):
        self.max_insts = max_insts
        self.samples = []
        self.keys = set()
        self.calls = 0
        self.skipped_big = 0
        self.static_assert = 0
        self.errors = []

    def __enter__(self):
        from vlib import c14_fix
        from vyper.venom.passes.sccp.sccp import SCCP
        self.cls = SCCP
        self.orig = SCCP.run_pass
        obs = self

        def run_pass(self_, *a, **k):
            obs.calls += 1
            ex = before = before_s = None
            try:
                ex = c14_fix.Export(self_.function, None)
                if ex.ninsts <= obs.max_insts:
                    before, before_s = ex.func(), ex.struct()
                else:
                    obs.skipped_big += 1
            except Exception as e:  # the observer must never change what the compiler does
                obs.errors.append("before: " + repr(e))
            try:
                r = obs.orig(self_, *a, **k)
            except Exception:
                obs.static_assert += 1
                raise
            try:
                if before is not None:
                    obs.record(ex, before, before_s, self_)
            except Exception as e:
                obs.errors.append("after: " + repr(e))
            return r
        SCCP.run_pass = run_pass
        return self

    def __exit__(self, *a):
        self.cls.run_pass = self.orig

    def record(self, ex, before, before_s, sccp, text_before=None):
        after, after_s = ex.func(), ex.struct()
        lat, exe, preds, plat = certificate(ex, sccp)
        defs = must_defined(before_s, preds)
        cert = coq_cert(lat, exe, preds, defs)
        key = hashlib.sha256((before + cert + after).encode()).hexdigest()[:16]
        if key in self.keys:
            return None
        self.keys.add(key)
        s = dict(key=key, name=ex.name, before=before, after=after, cert=cert, before_s=before_s, after_s=after_s, plat=plat,
                 exe=exe, ninsts=ex.ninsts, nblocks=len(ex.blocks), text=str(sccp.function), text_before=text_before,
                 unsupported=unsupported_reason(before_s, plat))
        self.samples.append(s)
        return s


def run_on_text(obs, text):
    """hand-written Venom text -> the real parser -> the real SCCP pass (observed through obs.record)"""
    from vlib import c14_fix
    from vyper.venom.analysis import IRAnalysesCache
    from vyper.venom.parser import parse_venom
    from vyper.venom.passes.sccp.sccp import SCCP
    vctx = parse_venom(text)
    out = []
    for fn in vctx.functions.values():
        ex = c14_fix.Export(fn, None)
        before, before_s = ex.func(), ex.struct()
        p = SCCP(IRAnalysesCache(fn), fn)
        obs.orig(p) if hasattr(obs, "orig") else p.run_pass()
        obs.calls += 1
        out.append(obs.record(ex, before, before_s, p, text_before=text))
    return out


# ------------------------------------------------------------------ hand-written families
def families(rnd, n=40):
    """constant branches, loops with invariant constants, phis of equal / different constants, unreachable blocks
    feeding phis, signed/unsigned comparisons of boundary constants, asserts on constants"""
    LITS = [0, 1, 2, 3, 5, 7, 31, 32, 255, 256, 2**128, 2**255 - 1, 2**255, 2**255 + 1, 2**256 - 2, 2**256 - 1]
    CMP = ["lt", "gt", "slt", "sgt", "eq"]
    BIN = ["add", "sub", "mul", "div", "sdiv", "mod", "smod", "and", "or", "xor", "shl", "shr", "sar", "byte", "signextend"]
    out = []
    for t in range(n):
        a, b, c = rnd.choice(LITS), rnd.choice(LITS), rnd.choice(LITS)
        op, cmp_, op2 = rnd.choice(BIN), rnd.choice(CMP), rnd.choice(BIN)
        kind = t % 6
        if kind == 0:      # decided branch on a signed/unsigned comparison of constants; phi joins the arms
            txt = f"""function main {{
  main:
    %a = {a}
    %b = {b}
    %c = {cmp_} %a, %b
    jnz %c, @then, @else
  then:
    %x = {op} %a, %b
    jmp @join
  else:
    %y = {op2} %b, %a
    jmp @join
  join:
    %z = phi @then, %x, @else, %y
    sstore 0, %z
    stop
}}
"""
        elif kind == 1:    # loop with an invariant constant and a varying counter
            txt = f"""function main {{
  main:
    %k = {a}
    %n = calldataload 0
    jmp @head
  head:
    %i = phi @main, %k, @body, %j
    %inv = phi @main, %k, @body, %inv2
    %c = lt %i, %n
    jnz %c, @body, @exit
  body:
    %j = add %i, 1
    %inv2 = {op} %inv, 0
    jmp @head
  exit:
    %r = {op2} %inv, {b}
    sstore 0, %r
    sstore 1, %i
    stop
}}
"""
        elif kind == 2:    # phi of equal constants from two executable predecessors
            same = rnd.random() < 0.6
            b2 = a if same else b
            txt = f"""function main {{
  main:
    %p = calldataload 0
    jnz %p, @l, @r
  l:
    %x = {a}
    jmp @join
  r:
    %y = {b2}
    jmp @join
  join:
    %z = phi @l, %x, @r, %y
    %w = {op} %z, {c}
    sstore 0, %w
    stop
}}
"""
        elif kind == 3:    # unreachable block feeding a phi
            txt = f"""function main {{
  main:
    %one = {1 if a % 2 else 0}
    jnz %one, @live, @dead
  live:
    %x = {a}
    jmp @join
  dead:
    %y = calldataload 0
    jmp @join
  join:
    %z = phi @live, %x, @dead, %y
    %w = {cmp_} %z, {b}
    jnz %w, @t, @f
  t:
    sstore 0, %z
    stop
  f:
    sstore 1, %z
    stop
}}
"""
        elif kind == 4:    # assertion on a constant, constants flowing into unmodelled instructions
            nz = a if a % W256 != 0 else 1
            txt = f"""function main {{
  main:
    %a = {nz}
    %b = iszero %a
    %c = iszero %b
    assert %c
    %d = {op} %a, {b}
    mstore %d, %a
    %e = mload %d
    %f = {op2} %e, %a
    sstore %a, %f
    stop
}}
"""
        else:              # nested decided / undecided branches
            txt = f"""function main {{
  main:
    %u = calldataload 0
    %a = {a}
    %c1 = {cmp_} %a, {b}
    jnz %c1, @A, @B
  A:
    %c2 = iszero %u
    jnz %c2, @A1, @A2
  A1:
    %x1 = {c}
    jmp @J
  A2:
    %x2 = {c}
    jmp @J
  B:
    %x3 = {op} %a, %u
    jmp @J
  J:
    %z = phi @A1, %x1, @A2, %x2, @B, %x3
    sstore 0, %z
    stop
}}
"""
        out.append(txt)
    return out



# ------------------------------------------------------------------ independent reference: EVM words in plain python
def _sg(x):
    return x - W256 if x >= 2 ** 255 else x


def _sdiv(a, b):
    if b == 0:
        return 0
    x, y = _sg(a), _sg(b)
    q = abs(x) // abs(y)
    return (q if (x < 0) == (y < 0) else -q) % W256


def _smod(a, b):
    if b == 0:
        return 0
    x, y = _sg(a), _sg(b)
    r = abs(x) % abs(y)
    return (r if x >= 0 else -r) % W256


def _signext(b, x):
    if b >= 31:
        return x
    bits = 8 * (b + 1)
    low = x % (1 << bits)
    return low if low < (1 << (bits - 1)) else low + W256 - (1 << bits)


WORD2 = {  # opcode -> f(first EVM operand, second EVM operand); written from the Yellow Paper, not from vyper
    "add": lambda a, b: (a + b) % W256, "sub": lambda a, b: (a - b) % W256, "mul": lambda a, b: (a * b) % W256,
    "div": lambda a, b: 0 if b == 0 else a // b, "mod": lambda a, b: 0 if b == 0 else a % b, "sdiv": _sdiv, "smod": _smod,
    "exp": lambda a, b: pow(a, b, W256), "eq": lambda a, b: int(a == b), "lt": lambda a, b: int(a < b),
    "gt": lambda a, b: int(a > b), "slt": lambda a, b: int(_sg(a) < _sg(b)), "sgt": lambda a, b: int(_sg(a) > _sg(b)),
    "and": lambda a, b: a & b, "or": lambda a, b: a | b, "xor": lambda a, b: a ^ b,
    "signextend": _signext, "shr": lambda s_, x: x >> s_ if s_ < 256 else 0, "shl": lambda s_, x: (x << s_) % W256 if s_ < 256 else 0,
    "sar": lambda s_, x: (_sg(x) >> s_) % W256 if s_ < 256 else (W256 - 1 if _sg(x) < 0 else 0),
    "byte": lambda i, x: (x >> (8 * (31 - i))) & 0xFF if i < 32 else 0,
}
WORD1 = {"not": lambda a: W256 - 1 - a, "iszero": lambda a: int(a == 0)}
WORD3 = {"addmod": lambda a, b, n: 0 if n == 0 else (a + b) % n, "mulmod": lambda a, b, n: 0 if n == 0 else (a * b) % n}


def word_eval(op, vals):
    """vals in IR operand order (the last one is the first EVM operand); None when op is not a pure word opcode"""
    v = [x % W256 for x in reversed(vals)]
    if op in WORD2 and len(v) == 2:
        return WORD2[op](v[0], v[1])
    if op in WORD1 and len(v) == 1:
        return WORD1[op](v[0])
    if op in WORD3 and len(v) == 3:
        return WORD3[op](v[0], v[1], v[2])
    return None


BOUNDARY = [0, 1, 2, 3, 31, 32, 33, 127, 128, 255, 256, 2**128, 2**255 - 1, 2**255, 2**255 + 1, 2**256 - 2, 2**256 - 1]


def run_struct(fs, seed, max_steps=400, pool=None):
    """Execute a structured function with the reference word semantics; unmodelled instructions return words that depend
    only on (seed, block, index, visit), so before/after see the same environment.
    Yields (block, index, outs, value) and (block, -1, (), 'enter')."""
    env, b, pred, steps, visits, log = {}, 0, None, 0, {}, []
    pool = pool or BOUNDARY

    def havoc(bi, idx):
        n = visits.get((bi, idx), 0)
        visits[(bi, idx)] = n + 1
        d = int.from_bytes(hashlib.sha256(f"{seed}:{bi}:{idx}:{n}".encode()).digest(), "big")
        return pool[(d >> 8) % len(pool)] if d % 4 else d % W256

    while b is not None and 0 <= b < len(fs) and steps < max_steps:
        blk = fs[b]
        log.append((b, -1, (), "enter"))
        upd = {}
        for idx, (op, ops, outs) in enumerate(blk):
            if op != "phi":
                break
            src = None
            for j in range(0, len(ops) - 1, 2):
                if ops[j][0] == "lab" and ops[j][1] == pred:
                    src = ops[j + 1]
            if src is None:
                return log
            upd[outs[0]] = src[1] % W256 if src[0] == "lit" else env.get(src[1], havoc(b, idx))
        env.update(upd)
        for o, v in upd.items():
            log.append((b, -2, (o,), v))
        nxt = None
        for idx, (op, ops, outs) in enumerate(blk):
            if op == "phi":
                continue
            steps += 1

            def val(o):
                if o[0] == "lit":
                    return o[1] % W256
                if o[0] == "var":
                    if o[1] not in env:
                        env[o[1]] = havoc(b, -1 - o[1])
                    return env[o[1]]
                return None
            if op == "jmp":
                nxt = ops[0][1]
            elif op == "jnz":
                nxt = ops[1][1] if val(ops[0]) != 0 else ops[2][1]
            elif op == "djmp":
                labs = [o[1] for o in ops if o[0] == "lab" and o[1] >= 0]
                nxt = labs[havoc(b, idx) % len(labs)] if labs else None
            elif op == "assert":
                if len(ops) == 1 and val(ops[0]) == 0:
                    log.append((b, idx, (), "revert"))
                    return log
            elif op in ("stop", "return", "revert", "invalid", "selfdestruct", "ret"):
                log.append((b, idx, (), op))
                return log
            elif outs:
                vals = [val(o) for o in ops]
                res = None
                if len(outs) == 1 and all(v is not None for v in vals):
                    res = vals[0] if (op == "assign" and len(vals) == 1) else word_eval(op, vals)
                if res is None:
                    res = havoc(b, idx)
                for o in outs:
                    env[o] = res
                log.append((b, idx, tuple(outs), res))
        pred, b = b, nxt
    return log


def reference_sccp(fs):
    """Least fixpoint of sparse conditional constant propagation on a structured function, with the reference word
    semantics (independent of vyper's eval_arith).  -> (lattice dict var -> 'top' | 'bot' | int, executable edge sets)."""
    TOP, BOT = "top", "bot"
    lat = {}
    for blk in fs:
        for (_, _, outs) in blk:
            for o in outs:
                lat[o] = TOP
    exec_in = [set() for _ in fs]
    exec_in[0].add(-1)

    def meet(x, y):
        if x == TOP:
            return y
        if y == TOP or x == y:
            return x
        return BOT

    def aval(o):
        if o[0] == "lit":
            return o[1]
        if o[0] == "var":
            return lat.get(o[1], TOP)
        return BOT

    changed = True
    while changed:
        changed = False

        def setl(o, v):
            nonlocal changed
            if lat.get(o, TOP) != v:
                lat[o] = v
                changed = True

        def edge(p, b):
            nonlocal changed
            if 0 <= b < len(fs) and p not in exec_in[b]:
                exec_in[b].add(p)
                changed = True
        for b, blk in enumerate(fs):
            if not exec_in[b]:
                continue
            for (op, ops, outs) in blk:
                if op == "phi":
                    v = TOP
                    for j in range(0, len(ops) - 1, 2):
                        if ops[j][0] == "lab" and ops[j][1] in exec_in[b]:
                            x = aval(ops[j + 1])
                            v = meet(v, x if ops[j + 1][0] != "lab" else BOT)
                    setl(outs[0], v)
                elif op == "assign" and len(outs) == 1 and len(ops) == 1:
                    setl(outs[0], aval(ops[0]) if ops[0][0] != "lab" else BOT)
                elif op == "jmp":
                    edge(b, ops[0][1])
                elif op == "jnz":
                    c = aval(ops[0])
                    if isinstance(c, int):
                        edge(b, ops[2][1] if c == 0 else ops[1][1])
                    else:
                        for o in ops[1:]:
                            if o[0] == "lab":
                                edge(b, o[1])
                elif op == "djmp":
                    c = aval(ops[0])
                    if not isinstance(c, int):
                        for o in ops[1:]:
                            if o[0] == "lab":
                                edge(b, o[1])
                elif (op in WORD2 or op in WORD1 or op in WORD3) and len(outs) == 1:
                    res = None
                    vals = []
                    for o in ops:            # operands are scanned in order, as in SCCP._eval
                        if o[0] == "lab":
                            res = BOT
                            break
                        x = aval(o)
                        if x == BOT or x == TOP:
                            res = x
                            break
                        vals.append(x)
                    if res is None:
                        r = word_eval(op, vals)
                        res = BOT if r is None else r
                    setl(outs[0], res)
                else:
                    for o in outs:
                        setl(o, BOT)
    return lat, exec_in


def precision_diff(sample):
    """compare the real pass's certificate with the reference least fixpoint; None when equal"""
    lat, exec_in = reference_sccp(sample["before_s"])
    plat = sample["plat"]
    for x in sorted(set(lat) | set(plat)):
        a, r = plat.get(x, "top"), lat.get(x, "top")
        a = a % W256 if isinstance(a, int) else a
        r = r % W256 if isinstance(r, int) else r
        if a != r:
            return {"variable": x, "real_lattice": str(a), "reference_lattice": str(r)}
    for b, e in enumerate(sample["exe"]):
        if bool(e) != bool(exec_in[b]):
            return {"block": b, "real_executable": bool(e), "reference_executable": bool(exec_in[b])}
    return None


# ------------------------------------------------------------------ Coq evaluation
def evaluate(samples, name="c14sccp", shard=6, timeout=600):
    exprs = [f"let f : func := {s['before']} in let g : func := {s['after']} in sccp_report f {s['cert']} g" for s in samples]
    return coqrun.eval_zlists(IMPORTS, exprs, name, shard=shard, timeout=timeout)


# ------------------------------------------------------------------ search for a failing input
def search(sample, rnd, tries=80):
    """(1) before and after run on the same inputs/environment: first position where an instruction produces a different
    word or control diverges; (2) on an execution of `before` an assigned variable differs from its CONST lattice value,
    a variable marked TOP is assigned, or a block that is not marked executable is entered.  The executor uses the
    reference word semantics above (not vyper's eval_arith)."""
    fb, fa, plat, exe = sample["before_s"], sample["after_s"], sample["plat"], sample["exe"]
    # unmodelled instructions return boundary words, the literals of the function and selector-shifted literals
    lits = sorted({o[1] % W256 for blk in fb for (_, ops, _) in blk for o in ops if o[0] == "lit"})
    pool = BOUNDARY + lits + [(x << 224) % W256 for x in lits if 0 < x < 2 ** 32] + [x + 1 for x in lits[:40]]
    for _ in range(tries):
        seed = rnd.randrange(2 ** 32)
        lb, la = run_struct(fb, seed, pool=pool), run_struct(fa, seed, pool=pool)
        for (b, idx, outs, res) in lb:
            if idx == -1 and not exe[b]:
                return {"function_after": sample["text"][:6000], "entered_block_not_executable": b, "seed": seed}
            if isinstance(res, int):
                for o in outs:
                    k = plat.get(o)
                    if isinstance(k, int) and k % W256 != res:
                        return {"function_after": sample["text"][:6000], "block": b, "index": idx, "variable": o,
                                "lattice_constant": hex(k % W256), "value": hex(res), "seed": seed,
                                "function_before": (sample.get("text_before") or "")[:4000]}
                    if k == "top":
                        return {"function_after": sample["text"][:6000], "block": b, "index": idx, "variable": o,
                                "lattice": "TOP but assigned", "value": hex(res), "seed": seed}
        # nop'ed asserts drop out of the `after` log only when they pass; compare the value-producing steps and block entries
        kb = [x for x in lb if x[3] != "enter" or True]
        ka = [x for x in la if x[3] != "enter" or True]
        for x, y in zip(kb, ka):
            if x != y:
                return {"function_after": sample["text"][:6000], "block": x[0], "index": x[1],
                        "before": repr(fb[x[0]][x[1]]) if x[1] >= 0 else "block entry / phi", "step_before": str(x)[:300],
                        "step_after": str(y)[:300], "seed": seed, "function_before": (sample.get("text_before") or "")[:4000]}
        if len(kb) != len(ka):
            return {"function_after": sample["text"][:6000], "trace_lengths": [len(kb), len(ka)], "seed": seed}
    return None


# ------------------------------------------------------------------ the part
def collect(ctx, obs, max_programs):
    from vlib import c14_pass_corpus as PC
    from vyper.compiler import compile_code
    from vyper.compiler.settings import OptimizationLevel, Settings
    rnd = ctx.rng("sccp-corpus")
    progs = PC.select(ctx.tier, rnd)
    if max_programs is not None and len(progs) > max_programs:
        progs = rnd.sample(progs, max_programs)
    levels = [OptimizationLevel.GAS] if ctx.tier == "quick" else [OptimizationLevel.GAS, OptimizationLevel.CODESIZE, OptimizationLevel.O3]
    nfail = 0
    for c in progs:
        for lvl in levels:
            try:
                compile_code(c["src"], output_formats=["bytecode"], settings=Settings(experimental_codegen=True, optimize=lvl))
            except Exception:
                nfail += 1
    return {"programs": len(progs), "compile_failures": nfail}


def part_sccp(ctx, deps=None):
    b = build(ctx, deps)
    stats = {"invocations": 0, "distinct": 0, "family": 0, "accepted": 0, "unsupported": 0, "rejected": 0, "instructions": 0,
             "changed_instructions": 0, "const_vars": 0, "nontrivial_accepted": 0, "static_assertion_exceptions": 0,
             "too_big_skipped": 0}
    found = False
    if not b["ok"]:
        ctx.violation("theorem-broken", f"{b.get('failed_lemma')} in {b['file']}",
                      {"theorem": b.get("failed_lemma"), "file": b["file"], "coq_output": b["out"][-1500:]})
    rnd = ctx.rng("sccp")
    with warnings.catch_warnings():
        warnings.simplefilter("ignore")
        with Observer(max_insts=400 if ctx.tier == "quick" else 1200) as obs:
            stats.update(collect(ctx, obs, 10 if ctx.tier == "quick" else None))
            n_corpus = len(obs.samples)
            fam_err = 0
            for txt in families(rnd, 36 if ctx.tier == "quick" else 240):
                try:
                    run_on_text(obs, txt)
                except Exception as e:
                    fam_err += 1
                    if fam_err <= 2 and "StaticAssertion" not in repr(e):
                        ctx.violation("correspondence-broken", "a hand-written SCCP family could not be pushed through the real "
                                      "parser + pass", {"error": repr(e)[:500], "text": txt})
    samples = obs.samples
    stats["invocations"] = obs.calls
    stats["distinct"] = len(samples)
    stats["family"] = len(samples) - n_corpus
    stats["static_assertion_exceptions"] = obs.static_assert
    stats["too_big_skipped"] = obs.skipped_big
    if obs.errors:
        ctx.violation("correspondence-broken", "cannot export an SCCP invocation: " + obs.errors[0], {"errors": obs.errors[:5]})
    cap = 120 if ctx.tier == "quick" else 100000
    if len(samples) > cap:
        fam = samples[n_corpus:]
        cor = sorted(samples[:n_corpus], key=lambda s_: -s_["ninsts"])
        keep = cap - len(fam)
        samples = cor[:keep // 3] + rnd.sample(cor[keep // 3:], keep - keep // 3) + fam
    res = None
    if b["ok"] and samples:
        try:
            res = evaluate(samples, shard=max(1, len(samples) // 10), timeout=900)
        except RuntimeError as e:
            ctx.violation("correspondence-broken", "the SCCP validator could not be evaluated on the exported invocations",
                          {"error": str(e)[-1500:]})
    if res is not None:
        rejected = []
        for s_, r in zip(samples, res):
            d = dict(zip(FIELDS, r))
            stats["instructions"] += s_["ninsts"]
            ok = len(r) == len(FIELDS) and d["lattice_ok"] == 1 and d["rewrite_ok"] == 1
            if ok:
                stats["accepted"] += 1
                stats["changed_instructions"] += d["changed_insts"]
                stats["const_vars"] += d["const_vars"]
                stats["nontrivial_accepted"] += 1 if d["changed_insts"] > 0 else 0
                continue
            if s_["unsupported"]:
                stats["unsupported"] += 1
                stats.setdefault("unsupported_reasons", {})
                stats["unsupported_reasons"][s_["unsupported"]] = stats["unsupported_reasons"].get(s_["unsupported"], 0) + 1
                continue
            stats["rejected"] += 1
            rejected.append((s_, d))
        # Search: smallest functions first (a failing input is most likely found and easiest to read there)
        rejected.sort(key=lambda t: t[0]["ninsts"])
        inputs = []
        for s_, d in rejected[:24]:
            ff = search(s_, ctx.rng("sccp-search:" + s_["key"]))
            if ff is not None:
                inputs.append((s_, d, ff))
                if len(inputs) >= 2:
                    break
        for s_, d, ff in inputs:
            found = True
            ctx.violation("failing-input", "SCCP changes what function " + s_["name"] + " computes (or its lattice claims a "
                          "constant that an execution contradicts)", ff, key="sccp:" + s_["name"] + ":" + str(d.get("first_bad_block")))
        if rejected and not inputs:
            s_, d = rejected[0]
            ctx.violation("theorem-broken", "sccp_check_sound does not apply: the SCCP invocation on " + s_["name"] +
                          " is rejected by the verified checker", {"theorem": "sccp_check_sound / sccp_preserves_executions "
                          "(sccp_check = false)", "report": d, "function_after": s_["text"][:5000],
                          "function_before": (s_.get("text_before") or "")[:3000], "certificate": s_["cert"][:3000]})
        stats["rejected_with_failing_input"] = len(inputs)
    # precision: the real result equals the least fixpoint computed by an independent reference implementation
    pdiff = 0
    for s_ in samples:
        try:
            dd = precision_diff(s_)
        except Exception as e:  # noqa
            dd = {"error": repr(e)[:300]}
        if dd is not None:
            pdiff += 1
            if pdiff <= 2 and stats["rejected"] == 0:
                ctx.violation("correspondence-broken", "SCCP's final lattice / executable set differs from the reference least "
                              "fixpoint (independent implementation) on " + s_["name"],
                              {"difference": dd, "function_after": s_["text"][:5000], "function_before": (s_.get("text_before") or "")[:3000]},
                              key="sccp:reference:" + s_["name"])
    stats["reference_fixpoint_differs"] = pdiff
    ctx.corr["sccp_validation"] = stats
    ctx.log("sccp " + " ".join(f"{k}={v}" for k, v in stats.items()))
    ctx.trusted.append("tools/vlib/c14_sccp.py: export of SCCP.lattice / cfg_in_exec (the certificate is checked, not trusted; "
                       "the before/after exports use the c14_fix exporter, tied to the Venom.v exporter by part_fixvenom)")
    ctx.assumptions.append("sccp_check_sound is stated over the RangeFix.v semantics (pure opcodes = Word256, other instructions "
                           "write arbitrary words) with the ghost set of assigned variables")
    if samples:
        big = max(samples, key=lambda s_: s_["ninsts"])
        ctx.samples.append({"sccp_validated_function": big["name"], "blocks": big["nblocks"], "instructions": big["ninsts"]})
    _ = found
    return stats["accepted"] + stats["rejected"] + stats["unsupported"]
