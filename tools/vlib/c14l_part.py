"""C14 (small rewriting passes): literals_codesize, revert_to_assert, assert_combiner (+ search for phi_elimination,
lower_dload).

Coq (coq/C14L): a labelled small-step semantics of exported Venom functions (Sem.v: events, outcomes incl. `revert 0,0` =
failing `assert`), and for each pass a Gallina MODEL OF THE WHOLE PASS with a theorem for ALL functions:
  lit_pass  (Lit.v; decision kernel = py2coq translation of the loop body of `_process_bb`, GenLit.v)   lit_pass_correct
  rta_pass  (Rta.v)                                                                                        rta_pass_correct
  ac_pass   (AssertComb.v)                                                                                 (tie + search)
Tie (this module, every run): the REAL pass is run (a) on a family of small functions built with parse_venom and
(b) on every invocation while the corpus contracts of c14_pass_corpus compile (run_pass wrapped in-process); the function
before and after is exported with one variable numbering and `func_eqb (model before) after` is evaluated by vm_compute.
Equal => the theorem applies to that invocation.  Different => Search: before/after are executed by an independent
word-level interpreter on a grid of inputs (and through the real back end on pyrevm); a changed observation is a
failing input."""
import hashlib
import time

from . import coqrun
from .common import COQ

W = 2**256
H = 2**255

MODEL_FILES = ["C14L/Sem.v", "C14L/LitBase.v", "C14L/GenLit.v", "C14L/Lit.v", "C14L/Rta.v", "C14L/AssertComb.v", "C14L/Dload.v", "C14L/PhiElim.v"]
PROOF_FILES = ["C14L/SemProofs.v", "C14L/Pointwise.v", "C14L/Steps.v", "C14L/LitProofs.v", "C14L/RtaProofs.v",
               "C14L/AcProofs.v", "C14L/SegRepl.v", "C14L/AcStep.v", "C14L/PhiElimProofs.v", "C14L/PropsSmall.v"]
MODEL_DEPS = ["C14/RangeBase.v", "C14/GenRange.v", "C14/GenRangeClients.v", "C14/RangeFix.v"]
IMPORTS = ("From Coq Require Import NArith.\nFrom Verif Require Import Base.PyInt C14.RangeBase C14.RangeFix C14L.Sem C14L.LitBase "
           "C14L.GenLit C14L.Lit C14L.Rta C14L.AssertComb C14L.Dload.\nOpen Scope string_scope.\nOpen Scope Z_scope.\n"
           "Definition bz (b : bool) : Z := if b then 1 else 0.\n")


def _proof_deps():
    from . import c14_fixvenom
    return list(c14_fixvenom.DEPS) + ["C14/WordClosed.v"]


def _gen_and_build(ctx):
    from . import c14l_lit
    from .py2coq import Unsupported
    gen_err = None
    try:
        text, _ = c14l_lit.gen_coq()
        p = COQ / "C14L" / "GenLit.v"
        if not p.exists() or p.read_text() != text:
            p.write_text(text)
    except Unsupported as e:
        gen_err = str(e)
    if gen_err is not None:
        return {"ok": False, "gen_err": gen_err, "file": "C14L/GenLit.v", "failed_lemma": None, "out": gen_err}
    b = ctx.coq_build_cached(MODEL_FILES, deps=MODEL_DEPS, timeout=600)
    if not b["ok"]:
        return b
    # SemProofs.v needs C14/WordClosed.vo; in a fresh copy nothing has built it yet when this part (or its prebuild) runs
    # first, so build it here (content-keyed: a no-op when the rangefix/venom link part already did)
    from . import c14_fixvenom
    b = ctx.coq_build_cached(["C14/WordClosed.v"], deps=list(c14_fixvenom.DEPS), timeout=900)
    if not b["ok"]:
        return b
    files = [f for f in PROOF_FILES if (COQ / f).exists()]
    return ctx.coq_build_cached(files, deps=_proof_deps() + MODEL_FILES, timeout=900)


def prebuild(ctx):
    return _gen_and_build(ctx)


# ------------------------------------------------------------------ export (shared numbering before/after)
def export_pair(fn_before_export, fn):
    """second export of the same function object (after the pass) with the numbering of the first"""
    from . import c14_fix
    ex2 = c14_fix.Export(fn, None)
    ex2.var, ex2.lab, ex2.foreign = fn_before_export.var, fn_before_export.lab, fn_before_export.foreign
    return ex2


def new_export(fn):
    from . import c14_fix
    return c14_fix.Export(fn, None)


def msgs_of(ex, table):
    """error-message ids per instruction (0 = none), for AssertCombiner"""
    out = []
    for bb in ex.blocks:
        row = []
        for i in bb.instructions:
            m = getattr(i, "error_msg", None)
            if i.opcode != "assert":
                row.append(0)
            else:
                key = repr(m)
                if key not in table:
                    table[key] = len(table) + 1
                row.append(table[key])
        out.append("[" + "; ".join(f"{x}%N" for x in row) + "]")
    return "[" + "; ".join(out) + "]"


def coq_check_expr(kind, s):
    """[below; verdict]: verdict 1 = real output equals the model's, 0 = differs, 2 = model error"""
    f, g, nv = s["before"], s["after"], s["nv"]
    if kind == "lit":
        m = "match lit_pass f with Ok m => bz (func_eqb m g) | Err _ => 2 end"
    elif kind == "rta":
        m = f"bz (func_eqb (rta_pass f {nv}%N) g)"
    elif kind == "dl":
        m = f"bz (func_eqb (dl_pass f {s['ce']}%N {nv}%N) g)"
    else:
        m = f"bz (func_eqb (ac_pass f {s['msgs']} {nv}%N) g)"
    return f"let f : func := {f} in let g : func := {g} in [bz (func_below {nv}%N f); {m}]"


def evaluate(kind, samples, name):
    if not samples:
        return []
    exprs = [coq_check_expr(kind, s) for s in samples]
    return coqrun.eval_zlists(IMPORTS, exprs, name, shard=max(1, (len(exprs) + 7) // 8), timeout=600)


# ------------------------------------------------------------------ independent interpreter (Search)
def ts(x):
    return x - W if x >= H else x


def w_eval(op, a):
    from .c14a_part import w_eval as we
    return we(op, a)


PURE_ENV = {"calldatasize": 68, "caller": 0xCA11E4, "callvalue": 0, "address": 0xADD4, "origin": 0xCA11E4, "gasprice": 1,
            "coinbase": 0, "timestamp": 1700000000, "number": 17, "prevrandao": 7, "gaslimit": 30_000_000, "chainid": 1,
            "basefee": 7, "gas": 1_000_000, "msize": 0, "codesize": 100, "returndatasize": 0}


def run_fn(fn, inputs, fuel=600, storage=None):
    """(events, outcome) of a small call-free venom function on the real IR objects.  events: stores / logs in order.
    outcome: ('revert0',) for assert failure or revert with size 0, ('revert', off, size), ('stop',), ('return', off, size),
    ('invalid',), ('fuel',).  Raises KeyError on opcodes it does not know."""
    from vyper.venom.basicblock import IRLabel, IRLiteral, IRVariable
    env, ev = {}, []
    st = dict(storage or {})
    mem = {}
    bb, prev = fn.entry, None
    while fuel > 0:
        nxt = None
        upd = {}
        for inst in bb.instructions:
            if inst.opcode != "phi":
                break
            for lbl, var in inst.phi_operands:
                if prev is not None and lbl.value == prev.label.value:
                    upd[inst.output.name] = env[var.name] if isinstance(var, IRVariable) else var.value % W
        env.update(upd)
        for inst in bb.instructions:
            opc = inst.opcode
            if opc == "phi":
                continue
            fuel -= 1

            def val(o):
                if isinstance(o, IRLiteral):
                    return o.value % W
                if isinstance(o, IRVariable):
                    return env[o.name]
                return 0xC0DE
            if opc == "nop":
                continue
            vals = [val(o) for o in inst.operands]
            if opc == "calldataload":
                env[inst.output.name] = inputs.get(vals[0], 0)
            elif opc in PURE_ENV:
                env[inst.output.name] = PURE_ENV[opc]
            elif opc == "mstore":
                mem[vals[1]] = vals[0]
                ev.append(("mstore", vals[1], vals[0]))
            elif opc == "mload":
                env[inst.output.name] = mem.get(vals[0], 0)
            elif opc == "sstore":
                st[vals[1]] = vals[0]
                ev.append(("sstore", vals[1], vals[0]))
            elif opc == "sload":
                env[inst.output.name] = st.get(vals[0], 0)
            elif opc == "log":
                ev.append(("log",) + tuple(vals))
            elif opc == "assert":
                if vals[0] == 0:
                    return ev, ("revert0",)
            elif opc == "assert_unreachable":
                if vals[0] == 0:
                    return ev, ("invalid",)
            elif opc == "jmp":
                nxt = fn.get_basic_block(inst.operands[0].value)
            elif opc == "jnz":
                nxt = fn.get_basic_block(inst.operands[1].value if vals[0] != 0 else inst.operands[2].value)
            elif opc == "stop":
                return ev, ("stop",)
            elif opc == "invalid":
                return ev, ("invalid",)
            elif opc == "revert":
                size, off = vals[0], vals[1]
                return ev, (("revert0",) if size == 0 else ("revert", off, size, tuple(mem.get(off + 32 * k, 0) for k in range((size + 31) // 32))))
            elif opc == "return":
                size, off = vals[0], vals[1]
                return ev, ("return", off, size, tuple(mem.get(off + 32 * k, 0) for k in range((size + 31) // 32)))
            else:
                if not vals:
                    raise KeyError(opc)
                env[inst.output.name] = w_eval(opc, list(reversed(vals)))
        if nxt is None:
            return ev, ("fell-off",)
        prev, bb = bb, nxt
    return ev, ("fuel",)


GRID = [0, 1, 2, 5, 255, 256, H - 1, H, W - 2, W - 1]


def search_text(text, run_pass, prepare=None, grid=None):
    """parse twice, run the pass on one copy, compare on an input grid (calldata words 0, 32, 64)"""
    from vyper.venom.parser import parse_venom
    f0 = list(parse_venom(text).functions.values())[0]
    f1 = list(parse_venom(text).functions.values())[0]
    if prepare is not None:
        prepare(f0)
        prepare(f1)
    run_pass(f1)
    g = grid or GRID
    for xv in g:
        for yv in (0, 1, 7, W - 1):
            for zv in (0, 3):
                inp = {0: xv, 32: yv, 64: zv}
                try:
                    a, b = run_fn(f0, inp), run_fn(f1, inp)
                except KeyError:
                    return None
                if a != b:
                    return {"calldata_words": {str(k): hex(v) for k, v in inp.items()}, "before": str(a), "after": str(b),
                            "function_after_pass": str(f1)}
    return None


MEMSZ = 96


def evm_run(text, run_pass, inputs, chain, prepare=None, suffix=b"", extra_passes=()):
    """compile with the real venom back end (`stop` -> return of the first MEMSZ bytes), run on pyrevm -> (ok, out hex)"""
    from vyper.compiler.settings import OptimizationLevel
    from vyper.ir.compile_ir import assembly_to_evm
    from vyper.venom import generate_assembly_experimental
    from vyper.venom.analysis import IRAnalysesCache
    from vyper.venom.parser import parse_venom
    from vyper.venom.passes import CFGNormalization, DFTPass, SimplifyCFGPass, SingleUseExpansion
    pctx = parse_venom(text.replace("    stop\n", f"    return 0, {MEMSZ}\n"))
    fn = list(pctx.functions.values())[0]
    if prepare is not None:
        prepare(fn)
    if run_pass is not None:
        run_pass(fn)
    for f in pctx.functions.values():
        ac = IRAnalysesCache(f)
        import vyper.venom.passes as _P
        for pcls in [getattr(_P, x) for x in extra_passes] + [SimplifyCFGPass, SingleUseExpansion, DFTPass, CFGNormalization]:
            pcls(ac, f).run_pass()
    r = assembly_to_evm(generate_assembly_experimental(pctx, OptimizationLevel.NONE))
    code = (r[0] if isinstance(r, tuple) else r) + suffix
    addr = chain.deploy(bytes([0x61]) + len(code).to_bytes(2, "big") + bytes([0x80, 0x60, 0x0C, 0x60, 0, 0x39, 0x60, 0, 0xF3]) + code)
    data = b"".join(inputs.get(k, 0).to_bytes(32, "big") for k in (0, 32, 64))
    res = chain.call(addr, data)
    return (bool(res.ok), res.out.hex())


def obs_to_evm(obs):
    ev, out = obs
    if out[0] in ("revert0", "invalid"):
        return (False, "")
    if out[0] == "revert":
        return (False, None)
    mem = bytearray(MEMSZ)
    for e in ev:
        if e[0] == "mstore" and e[1] + 32 <= MEMSZ:
            mem[e[1]:e[1] + 32] = e[2].to_bytes(32, "big")
    return (True, bytes(mem).hex())


# ------------------------------------------------------------------ running the real passes
def _run(cls_name):
    def run(fn):
        import vyper.venom.passes as P
        from vyper.venom.analysis import IRAnalysesCache
        getattr(P, cls_name)(IRAnalysesCache(fn), fn).run_pass()
    return run


def real_pair(text, cls_name, prepare=None, want_msgs=False):
    """parse `text` (one function), export, run the real pass, export again"""
    from vyper.venom.parser import parse_venom
    fn = list(parse_venom(text).functions.values())[0]
    if prepare is not None:
        prepare(fn)
    ex = new_export(fn)
    before = ex.func()
    s = {"before": before, "nv": len(ex.var), "text": text}
    if want_msgs:
        s["msgs"] = msgs_of(ex, {})
    _run(cls_name)(fn)
    ex2 = export_pair(ex, fn)
    s["after"] = ex2.func()
    s["ce"] = ex2.foreign.get("code_end", 1_000_000 + len(ex2.foreign))
    s["after_text"] = str(fn)
    s["changed"] = s["after"] != before
    return s


# ------------------------------------------------------------------ family: literals
def lit_family():
    L = [0, 1, 2, 3, 0x7F, 0x80, 0xFF, 0x100, 0xFFFF, 0x10000, 0x123456, W - 1, W - 2, W - 3, W - 0x100, W - 0x101, W - 0x10000,
         H, H - 1, H + 1, -1, -2, -255, -256, -257, -H, -H + 1, 0xFF << 248, 0xFFFF << 240, 0xFF00FF << 232,
         int("aa" * 32, 16), int("55" * 32, 16), int("f0" * 32, 16), int("0f" * 32, 16), int("ff" * 16 + "00" * 16, 16),
         int("00" * 16 + "ff" * 16, 16), int("ff" * 31, 16), int("ff" * 30, 16), int("ff" * 29 + "00", 16)]
    for k in list(range(0, 40)) + [47, 48, 63, 64, 100, 127, 128, 200, 247, 248, 249, 254, 255]:
        L += [1 << k, (1 << k) - 1, (1 << k) + 1]
    for s_ in (1, 3, 0xFF, 0x1234, 0x101, 0xFFFFFF):
        for k in (7, 8, 15, 16, 22, 23, 24, 25, 26, 31, 32, 33, 100, 200, 231, 232, 240, 248):
            v = (s_ << k)
            if v < W:
                L.append(v)
    for x in (0, 1, 2, 0xFE, 0xFF, 0x100, 0xFFFF, 0x10000, 0xFFFFFF, 0x1000000, 1 << 64, (1 << 128) - 1, 1 << 200, (1 << 240) + 5,
              (1 << 247), (1 << 248) - 1, (1 << 248), (1 << 248) + 1):
        L.append(W - 1 - x)
    seen, out = set(), []
    for v in L:
        if v not in seen:
            seen.add(v)
            out.append(v)
    return out


def lit_texts(lits, per=40):
    texts = []
    for i in range(0, len(lits), per):
        body = "\n".join(f"    %v{k} = {v}" for k, v in enumerate(lits[i:i + per]))
        texts.append(f"function l{i} {{\nl{i}:\n{body}\n    stop\n}}\n")
    return texts


def part_lit(ctx, model_ok):
    from . import c14l_lit
    rnd = ctx.rng("c14l-lit")
    lits = lit_family() + [rnd.randrange(W) for _ in range(20)] + [rnd.randrange(1 << 40) << rnd.randrange(200) for _ in range(20)] \
        + [W - 1 - rnd.randrange(1 << rnd.randrange(1, 250)) for _ in range(20)]
    lits = [v for v in lits if -H <= v < W]
    n = 0
    found = False
    # (1) the property itself on the real pass: the rewritten instruction computes the literal (independent evaluator)
    samples = []
    from vyper.venom.basicblock import IRLiteral
    n_rewritten = {"not": 0, "shl": 0}
    for text, chunk in zip(lit_texts(lits), [lits[i:i + 40] for i in range(0, len(lits), 40)]):
        try:
            s = real_pair(text, "ReduceLiteralsCodesize")
        except Exception as ex:  # noqa  -- the pass itself raises: find the literal
            for v in chunk:
                t1 = f"function l {{\nl:\n    %v = {v}\n    mstore 0, %v\n    stop\n}}\n"
                try:
                    real_pair(t1, "ReduceLiteralsCodesize")
                except Exception as ex1:  # noqa
                    if not found:
                        found = True
                        ctx.violation("failing-input", f"ReduceLiteralsCodesize raises {type(ex1).__name__} on a literal (compiler crash)",
                                      {"venom": t1, "literal": hex(v % W), "exception": repr(ex1)[:300],
                                       "call": "ReduceLiteralsCodesize(IRAnalysesCache(fn), fn).run_pass() on parse_venom(venom)",
                                       "oracle": "a pass must not raise on well-formed IR"}, key=f"literals_codesize:raise:{v % W:#x}")
                    break
            continue
        samples.append(s)
        from vyper.venom.parser import parse_venom
        fn = list(parse_venom(text).functions.values())[0]
        _run("ReduceLiteralsCodesize")(fn)
        for v, inst in zip(chunk, fn.entry.instructions):
            n += 1
            ops = [o.value % W for o in inst.operands if isinstance(o, IRLiteral)]
            if inst.opcode == "assign":
                got = ops[0]
            elif inst.opcode == "not":
                got = W - 1 - ops[0]
                n_rewritten["not"] += 1
            elif inst.opcode == "shl":
                got = (ops[0] << ops[1]) % W if ops[1] < 256 else 0
                n_rewritten["shl"] += 1
            else:
                got = None
            if got != v % W and not found:
                found = True
                t1 = f"function l {{\nl:\n    %v = {v}\n    mstore 0, %v\n    stop\n}}\n"
                detail = {"venom": t1, "literal": hex(v % W), "rewritten_instruction": str(inst), "value_of_rewritten": hex(got) if got is not None else None,
                          "call": "ReduceLiteralsCodesize(IRAnalysesCache(fn), fn).run_pass() on parse_venom(venom)",
                          "oracle": "EVM word semantics of not/shl on the rewritten operands vs the literal mod 2^256"}
                try:
                    from . import evm
                    ch = evm.Chain("cancun")
                    detail["pyrevm_through_real_backend"] = {"before_pass": evm_run(t1, None, {}, ch), "after_pass": evm_run(t1, _run("ReduceLiteralsCodesize"), {}, ch)}
                except Exception as ex:  # noqa
                    detail["pyrevm_through_real_backend"] = f"not available: {type(ex).__name__}: {ex}"
                ctx.violation("failing-input", "ReduceLiteralsCodesize changes the value of a literal", detail, key=f"literals_codesize:{v % W:#x}")
    # (2) translator validation + exact tie: lit_decide (Coq) = sliced code (CPython); lit_pass f = real output
    bad = 0
    if model_ok:
        mod, _ = c14l_lit.load_module()
        outs = coqrun.eval_zlists(IMPORTS, ["flat_map enc_decide " + coqrun.zlist(lits)], "c14l_litdec", shard=1, timeout=300)[0]
        for k, v in enumerate(lits):
            try:
                py = list(mod.lit_decide(v))
            except Exception:
                py = [-1, 0, 0]
            n += 1
            if py != outs[3 * k:3 * k + 3]:
                bad += 1
                if not found and bad <= 2:
                    ctx.violation("correspondence-broken", "py2coq model lit_decide (GenLit.v / LitBase.v) disagrees with CPython on the sliced code",
                                  {"literal": hex(v), "python": py, "coq": outs[3 * k:3 * k + 3]})
        res = evaluate("lit", samples, "c14l_litfam")
        for s, r in zip(samples, res):
            n += 1
            if r != [1, 1]:
                bad += 1
                if not found and bad <= 2:
                    ctx.violation("correspondence-broken", "lit_pass model differs from the real ReduceLiteralsCodesize output on a family member",
                                  {"venom": s["text"][:3000], "after": s["after_text"][:3000], "verdict": r})
    ctx.corr["literals_family"] = {"literals": len(lits), "rewritten_by_real_pass": n_rewritten, "model_mismatches": bad}
    return n


# ------------------------------------------------------------------ family: revert_to_assert
def rta_family():
    """(name, text)"""
    fam = []
    conds = [("var", "%c"), ("lit0", "0"), ("lit1", "1"), ("litbig", str(W - 1)), ("isz", "%z")]
    revs = [("r00", "revert 0, 0"), ("r0_32", "revert 0, 32"), ("r32_0", "revert 32, 0"), ("r1_0", "revert 1, 0"),
            ("extra", "mstore 0, 1\n    revert 0, 0"), ("nop", "nop\n    revert 0, 0"), ("stop", "stop"), ("inv", "invalid")]
    k = 0
    for cn, cv in conds:
        for rn, rv in revs:
            for shape in ("then", "else", "both", "two_tr", "two_rt"):
                k += 1
                nm = f"r{k}"
                pre = "    %c = calldataload 0\n    %z = iszero %c\n    mstore 0, 7\n"
                if shape == "then":
                    body = f"{pre}    jnz {cv}, @rv, @ct\nrv:\n    {rv}\nct:\n    mstore 32, 9\n    stop\n"
                elif shape == "else":
                    body = f"{pre}    jnz {cv}, @ct, @rv\nct:\n    mstore 32, 9\n    stop\nrv:\n    {rv}\n"
                elif shape == "both":
                    body = f"{pre}    jnz {cv}, @rv, @rv\nrv:\n    {rv}\n"
                elif shape == "two_tr":
                    body = f"{pre}    jnz {cv}, @rv, @rw\nrv:\n    {rv}\nrw:\n    revert 0, 0\n"
                else:
                    body = f"{pre}    jnz {cv}, @rv, @rw\nrw:\n    revert 0, 0\nrv:\n    {rv}\n"
                fam.append((f"{cn}/{rn}/{shape}", f"function {nm} {{\n{nm}:\n{body}}}\n"))
    # shared revert block, phis in the continuation, a jmp predecessor, nested
    fam.append(("shared", """function s1 {
s1:
    %a = calldataload 0
    %b = calldataload 32
    jnz %a, @rv, @m
m:
    mstore 0, %a
    jnz %b, @n, @rv
n:
    %d = add %a, %b
    jnz %d, @j, @k
k:
    jmp @rv
j:
    mstore 32, %d
    stop
rv:
    revert 0, 0
}
"""))
    fam.append(("phi", """function s2 {
s2:
    %a = calldataload 0
    %b = calldataload 32
    jnz %a, @p, @q
p:
    %u = add %a, 1
    jnz %b, @rv, @j
q:
    %v = add %a, 2
    jnz %b, @j, @rv
j:
    %w = phi @p, %u, @q, %v
    mstore 0, %w
    stop
rv:
    revert 0, 0
}
"""))
    fam.append(("loop", """function s3 {
s3:
    %n = calldataload 0
    %i0 = 0
    jmp @h
h:
    %i = phi @s3, %i0, @b, %i2
    %c = lt %i, %n
    jnz %c, @b, @x
b:
    %i2 = add %i, 1
    %o = gt %i2, 3
    jnz %o, @rv, @h
x:
    mstore 0, %i
    stop
rv:
    revert 0, 0
}
"""))
    return fam


def part_rta(ctx, model_ok):
    fam = rta_family()
    samples = [dict(real_pair(t, "RevertToAssert"), name=n_) for n_, t in fam]
    n = 0
    found = False
    # Search first (always on): before/after observations on the input grid
    for s in samples:
        n += 1
        w = search_text(s["text"], _run("RevertToAssert"))
        if w is not None and not found:
            found = True
            detail = dict(w, venom=s["text"], family_member=s["name"], call="RevertToAssert(IRAnalysesCache(fn), fn).run_pass() on parse_venom(venom)",
                          oracle="events (stores) and outcome (stop / revert with empty data / revert with data / invalid) before vs after the pass")
            try:
                from . import evm
                ch = evm.Chain("cancun")
                inp = {int(k): int(v, 16) for k, v in w["calldata_words"].items()}
                detail["pyrevm_through_real_backend"] = {"before_pass": evm_run(s["text"], None, inp, ch), "after_pass": evm_run(s["text"], _run("RevertToAssert"), inp, ch)}
            except Exception as ex:  # noqa
                detail["pyrevm_through_real_backend"] = f"not available: {type(ex).__name__}: {ex}"
            ctx.violation("failing-input", "RevertToAssert changes the behaviour of a function", detail, key="revert_to_assert:" + s["name"])
    bad = 0
    if model_ok:
        res = evaluate("rta", samples, "c14l_rtafam")
        for s, r in zip(samples, res):
            n += 1
            if r != [1, 1]:
                bad += 1
                if not found and bad <= 2:
                    ctx.violation("correspondence-broken", "rta_pass model differs from the real RevertToAssert output on a family member (" + s["name"] + ")",
                                  {"venom": s["text"], "after": s["after_text"], "verdict": r})
    ctx.corr["revert_to_assert_family"] = {"members": len(fam), "changed_by_real_pass": sum(1 for s in samples if s["changed"]), "model_mismatches": bad}
    return n


# ------------------------------------------------------------------ family: assert_combiner
BETWEEN = [("none", []), ("add", ["%k = add %x, 1"]), ("cdl", ["%k = calldataload 64"]), ("gas", ["%k = gas"]), ("nop", ["nop"]),
           ("caller", ["%k = caller"]), ("two", ["%k = add %x, %y", "%k2 = iszero %k"]),
           ("mstore", ["mstore 64, 5"]), ("mload", ["%k = mload 64"]), ("sload", ["%k = sload 1"]), ("sstore", ["sstore 1, 2"]),
           ("log", ["log 0, 0, 0"]), ("unreach", ["assert_unreachable %x"]), ("plain_assert", ["assert %x"]),
           ("retsz", ["%k = returndatasize"])]


def ac_family():
    """(name, text, msgs or None): msgs = error message per assert in order"""
    fam = []
    k = 0
    hdr = "    %x = calldataload 0\n    %y = calldataload 32\n    %w = calldataload 64\n"
    preds = [("xy", "%x", "%y"), ("xx", "%x", "%x"), ("x0", "%x", "0"), ("00", "0", "0"), ("5x", "5", "%x")]
    for bn, bl in BETWEEN:
        for pn, p1, p2 in preds:
            for msgs in (None, ("a", "a"), ("a", "b")):
                k += 1
                nm = f"a{k}"
                lines = [f"%t1 = iszero {p1}", "assert %t1"] + bl + [f"%t2 = iszero {p2}", "assert %t2", "mstore 0, 1", "stop"]
                fam.append((f"pair/{bn}/{pn}/{msgs}", f"function {nm} {{\n{nm}:\n{hdr}    " + "\n    ".join(lines) + "\n}\n", msgs))
    # chains
    for length in (3, 4, 5):
        for variant in ("distinct", "same_mid", "assigns", "break"):
            k += 1
            nm = f"a{k}"
            lines = []
            for j in range(length):
                src = ["%x", "%y", "%w"][j % 3] if variant != "same_mid" else ["%x", "%y", "%y", "%w", "%x"][j]
                lines.append(f"%p{j} = add {src}, {j}")
                lines.append(f"%t{j} = iszero %p{j}")
                if variant == "assigns":
                    lines.append(f"%u{j} = %t{j}")
                    lines.append(f"assert %u{j}")
                else:
                    lines.append(f"assert %t{j}")
                if variant == "break" and j == 1:
                    lines.append("mstore 64, 1")
            lines += ["mstore 0, 1", "stop"]
            fam.append((f"chain/{length}/{variant}", f"function {nm} {{\n{nm}:\n{hdr}    " + "\n    ".join(lines) + "\n}\n", None))
    # same predicate variable in all (a_pred == b_pred path), iszero defined before both
    k += 1
    fam.append(("shared_iszero", f"function a{k} {{\na{k}:\n{hdr}    %t = iszero %x\n    assert %t\n    %q = add %y, 1\n    assert %t\n    %t2 = iszero %y\n    assert %t2\n    stop\n}}\n", None))
    return fam


def _set_msgs(msgs):
    def prep(fn):
        if msgs is None:
            return
        k = 0
        for bb in fn.get_basic_blocks():
            for i in bb.instructions:
                if i.opcode == "assert" and k < len(msgs):
                    i.error_msg = msgs[k]
                    k += 1
    return prep


def part_ac(ctx, model_ok):
    fam = ac_family()
    n = 0
    found = False
    samples = []
    for name, text, msgs in fam:
        prep = _set_msgs(msgs)
        s = dict(real_pair(text, "AssertCombinerPass", prepare=prep, want_msgs=True), name=name, msgs_py=msgs)
        samples.append(s)
        n += 1
        w = search_text(text, _run("AssertCombinerPass"), prepare=prep)
        if w is not None and not found:
            found = True
            detail = dict(w, venom=text, family_member=name, error_messages=msgs,
                          call="AssertCombinerPass(IRAnalysesCache(fn), fn).run_pass() on parse_venom(venom)",
                          oracle="events (stores, logs) and outcome before vs after the pass (EVM word semantics)")
            try:
                from . import evm
                ch = evm.Chain("cancun")
                inp = {int(k): int(v, 16) for k, v in w["calldata_words"].items()}
                detail["pyrevm_through_real_backend"] = {"before_pass": evm_run(text, None, inp, ch, prep), "after_pass": evm_run(text, _run("AssertCombinerPass"), inp, ch, prep)}
            except Exception as ex:  # noqa
                detail["pyrevm_through_real_backend"] = f"not available: {type(ex).__name__}: {ex}"
            ctx.violation("failing-input", "AssertCombinerPass changes the behaviour of a function", detail, key="assert_combiner:" + name)
    bad = 0
    if model_ok:
        res = evaluate("ac", samples, "c14l_acfam")
        for s, r in zip(samples, res):
            n += 1
            if r != [1, 1]:
                bad += 1
                if not found and bad <= 2:
                    ctx.violation("correspondence-broken", "ac_pass model differs from the real AssertCombinerPass output on a family member (" + s["name"] + ")",
                                  {"venom": s["text"], "after": s["after_text"], "verdict": r, "error_messages": s["msgs_py"]})
    ctx.corr["assert_combiner_family"] = {"members": len(fam), "changed_by_real_pass": sum(1 for s in samples if s["changed"]), "model_mismatches": bad}
    return n


DL_TEXTS = [
    "    %p = calldataload 0\n    %v = dload %p\n    mstore 0, %v\n    stop\n",
    "    %v = dload 64\n    %w = dload 0\n    mstore 0, %v\n    mstore 32, %w\n    stop\n",
    "    %p = calldataload 0\n    dloadbytes 64, %p, 40\n    dloadbytes 128, 7, 0\n    %v = dload %p\n    mstore 0, %v\n    stop\n",
    "    %p = calldataload 0\n    %n = calldataload 32\n    dloadbytes %p, %n, %n\n    stop\n",
    "    %p = calldataload 0\n    jnz %p, @a, @b\na:\n    %v = dload 1\n    mstore 0, %v\n    jmp @b\nb:\n    %w = dload %p\n    mstore 32, %w\n    stop\n",
    "    %x = add 1, 2\n    mstore 0, %x\n    stop\n",
]


def part_dload_model(ctx, model_ok):
    """exact tie of the model dl_pass to the real LowerDloadPass"""
    samples = []
    for k, body in enumerate(DL_TEXTS):
        text = f"function d{k} {{\nd{k}:\n{body}}}\n"
        samples.append(dict(real_pair(text, "LowerDloadPass"), name=f"dload{k}"))
    bad = 0
    if model_ok:
        res = evaluate("dl", samples, "c14l_dlfam")
        for s, r in zip(samples, res):
            if r != [1, 1]:
                bad += 1
                if bad <= 2:
                    ctx.violation("correspondence-broken", "dl_pass model differs from the real LowerDloadPass output (" + s["name"] + ")",
                                  {"venom": s["text"], "after": s["after_text"], "verdict": r})
    ctx.corr["lower_dload_family"] = {"members": len(samples), "model_mismatches": bad}
    return len(samples)


def part_safe_table(ctx):
    """the model's `ac_safe` against the real `_is_safe_between`, one probe instruction per opcode"""
    from vyper.venom.basicblock import IRInstruction, IRLiteral, IRVariable
    from vyper.venom.passes.assert_combiner import _AssertCombineAnalysis
    import vyper.venom.effects as eff
    from vyper.venom.basicblock import BB_TERMINATORS, NO_OUTPUT_INSTRUCTIONS, VOLATILE_INSTRUCTIONS
    from vyper.venom.venom_to_assembly import _ONE_TO_ONE_INSTRUCTIONS
    ops = sorted(set(_ONE_TO_ONE_INSTRUCTIONS) | set(BB_TERMINATORS) | set(VOLATILE_INSTRUCTIONS) | set(eff.reads) | set(eff.writes)
                 | {"nop", "assign", "alloca", "palloca", "calloca", "offset", "iszero", "not", "add"})
    ops = [o for o in ops if o not in ("phi",)]
    an = _AssertCombineAnalysis(None)
    ARITY = {"iszero": 1, "not": 1, "assign": 1, "nop": 0}
    real = []
    exprs = []
    for op in ops:
        outs = [] if op in NO_OUTPUT_INSTRUCTIONS else [IRVariable("%o")]
        nargs = ARITY.get(op, 2)
        inst = IRInstruction(op, [IRVariable("%a"), IRVariable("%b")][:nargs], outs or None)
        real.append(1 if an._is_safe_between(inst) else 0)
        args = "; ".join(["OVar 1%N", "OVar 2%N"][:nargs])
        exprs.append(f'bz (ac_safe (mkI "{op}" [{args}] [{"0%N" if outs else ""}]))')
    model = coqrun.eval_zlists(IMPORTS, ["[" + "; ".join(exprs) + "]"], "c14l_safe", shard=1, timeout=120)[0]
    unsound = [o for o, r, m in zip(ops, real, model) if m == 1 and r == 0]
    missing = [o for o, r, m in zip(ops, real, model) if m == 0 and r == 1]
    ctx.corr["assert_combiner_safe_between_table"] = {"opcodes": len(ops), "model_safe_real_unsafe": unsound, "real_safe_model_unsafe": missing}
    if unsound:
        ctx.violation("correspondence-broken", "ac_safe accepts opcodes that _is_safe_between rejects", {"opcodes": unsound})
    return len(ops)


# ------------------------------------------------------------------ phi_elimination / lower_dload: search only
PHI_TEXTS = ["""function p1 {
p1:
    %a = calldataload 0
    %b = calldataload 32
    jnz %a, @l, @r
l:
    %d = %b
    jmp @j
r:
    jmp @j
j:
    %f = phi @l, %d, @r, %b
    mstore 0, %f
    stop
}
""", """function p2 {
p2:
    %a = calldataload 0
    %b = calldataload 32
    jnz %a, @l, @r
l:
    %d = add %b, 1
    jmp @j
r:
    %e = add %b, 2
    jmp @j
j:
    %c = phi @l, %d, @r, %e
    %g = %c
    jnz %b, @m, @n
m:
    jmp @k
n:
    jmp @k
k:
    %f = phi @m, %g, @n, %c
    mstore 0, %f
    stop
}
""", """function p3 {
p3:
    %n = calldataload 0
    %x = calldataload 32
    %i0 = 0
    jmp @h
h:
    %i = phi @p3, %i0, @b, %i2
    %y = phi @p3, %x, @b, %y2
    %c = lt %i, %n
    jnz %c, @b, @e
b:
    %i2 = add %i, 1
    %y2 = %y
    jmp @h
e:
    mstore 0, %y
    mstore 32, %i
    stop
}
""", """function p4 {
p4:
    %a = calldataload 0
    %b = calldataload 32
    jnz %a, @l, @r
l:
    jmp @j
r:
    jmp @j
j:
    %f = phi @l, %a, @r, %b
    %g = phi @l, %b, @r, %b
    mstore 0, %f
    mstore 32, %g
    stop
}
"""]


def phi_sample(fn, run):
    """export before, run the pass, export after, build the certificate"""
    from . import c14l_phi
    ex = new_export(fn)
    before = c14l_phi.snapshot(fn, ex)
    nv = len(ex.var)
    text_before = str(fn)
    run(fn)
    ex2 = export_pair(ex, fn)
    after = c14l_phi.snapshot(fn, ex2)
    As, Rs, nrep = c14l_phi.certificate(before, after)
    return {"before": c14l_phi.coq_func(before), "after": c14l_phi.coq_func(after), "As": As, "Rs": Rs, "replaced": nrep, "nv": nv,
            "changed": before != after, "text_before": text_before, "text_after": str(fn), "ninsts": sum(len(b) for b in before)}


PHI_IMPORTS = ("From Coq Require Import NArith.\nFrom Verif Require Import Base.PyInt C14.RangeBase C14.RangeFix C14L.Sem C14L.PhiElim.\n"
               "Open Scope string_scope.\nOpen Scope Z_scope.\nDefinition bz (b : bool) : Z := if b then 1 else 0.\n")


def evaluate_phi(samples, name):
    if not samples:
        return []
    exprs = [f"let f : func := {s['before']} in let g : func := {s['after']} in let As := {s['As']} in let Rs := {s['Rs']} in "
             "[bz (phi_check f As Rs); bz (func_eqb (phi_apply f Rs) g)]" for s in samples]
    return coqrun.eval_zlists(PHI_IMPORTS, exprs, name, shard=max(1, (len(exprs) + 7) // 8), timeout=900)


def part_phi_model(ctx, model_ok):
    from vyper.venom.parser import parse_venom
    samples = []
    for k, text in enumerate(PHI_TEXTS):
        fn = list(parse_venom(text).functions.values())[0]
        samples.append(dict(phi_sample(fn, _run("PhiEliminationPass")), name=f"phi{k}", text=text))
    bad = 0
    if model_ok and (COQ / "C14L" / "PhiElim.vo").exists():
        res = evaluate_phi(samples, "c14l_phifam")
        for s, r in zip(samples, res):
            if r != [1, 1]:
                bad += 1
                if bad <= 2 and not any("PhiEliminationPass changes" in v["name"] for v in ctx.violations):
                    ctx.violation("theorem-broken", "phi_check (validator of PhiEliminationPass; phi_edge/repl/transfer_sound_partial) rejects the output of the pass (" + s["name"] + ")",
                                  {"venom": s["text"], "after": s["text_after"], "verdict [phi_check, output = phi_apply]": r, "certificate": s["As"][:2000], "replaced": s["Rs"]})
    ctx.corr["phi_elimination_family"] = {"members": len(samples), "phis_replaced": sum(s["replaced"] for s in samples), "rejected": bad}
    return len(samples)


def part_phi_dload(ctx):
    n = 0
    for text in PHI_TEXTS:
        n += 1
        w = search_text(text, _run("PhiEliminationPass"), grid=[0, 1, 2, 3, 5, W - 1])
        if w is not None:
            ctx.violation("failing-input", "PhiEliminationPass changes the behaviour of a function",
                          dict(w, venom=text, call="PhiEliminationPass(IRAnalysesCache(fn), fn).run_pass() on parse_venom(venom)",
                               oracle="events and outcome before vs after the pass"), key="phi_elimination:" + text.split()[1])
            break
    ctx.corr["phi_elimination_scenarios"] = len(PHI_TEXTS)
    # lower_dload: the lowered code must read the data section at code_end + ptr (real back end, pyrevm)
    try:
        from . import evm
        ch = evm.Chain("cancun")
        data = bytes(range(1, 97))
        for ptr in (0, 1, 31, 32, 64, 70, 95, 200):
            # `code_end` is the end of the runtime code: the immutables/data region the deployer appends after it
            text = "function d {\nd:\n    %p = calldataload 0\n    %v = dload %p\n    mstore 0, %v\n    mstore 32, 7\n    stop\n}\n"
            got = evm_run(text, _run("LowerDloadPass"), {0: ptr}, ch, suffix=data, extra_passes=("ConcretizeMemLocPass",))
            want = (data[ptr:ptr + 32] + bytes(32))[:32].hex() + (7).to_bytes(32, "big").hex() + bytes(32).hex()
            n += 1
            if got != (True, want):
                ctx.violation("failing-input", "LowerDloadPass: lowered dload does not read the data section at code_end + ptr",
                              {"venom": text, "ptr": ptr, "bytes_appended_after_code_end": data.hex(), "expected_memory": want, "pyrevm": got,
                               "call": "LowerDloadPass + venom back end, run on pyrevm"}, key=f"lower_dload:{ptr}")
                break
        ctx.corr["lower_dload_pyrevm_runs"] = 8
    except Exception as ex:  # noqa
        ctx.corr["lower_dload_pyrevm_runs"] = f"not available: {type(ex).__name__}: {str(ex)[:200]}"
    return n


# ------------------------------------------------------------------ back end + pyrevm on the families (second oracle)
def part_evm(ctx):
    from . import evm
    rnd = ctx.rng("c14l-evm")
    ch = evm.Chain("cancun")
    jobs = []
    for name, text in rnd.sample(rta_family(), 14 if ctx.tier == "quick" else 80):
        jobs.append(("RevertToAssert", name, text, None))
    for name, text, msgs in rnd.sample(ac_family(), 14 if ctx.tier == "quick" else 80):
        jobs.append(("AssertCombinerPass", name, text, _set_msgs(msgs)))
    for v in rnd.sample(lit_family(), 12 if ctx.tier == "quick" else 60):
        if 0 <= v < W:
            jobs.append(("ReduceLiteralsCodesize", hex(v), f"function l {{\nl:\n    %v = {v}\n    mstore 0, %v\n    stop\n}}\n", None))
    n = skipped = 0
    from vyper.venom.parser import parse_venom
    for cls_name, name, text, prep in jobs:
        inp = {0: rnd.choice(GRID), 32: rnd.choice([0, 1, 7]), 64: rnd.choice([0, 3])}
        try:
            f0 = list(parse_venom(text).functions.values())[0]
            if prep:
                prep(f0)
            want = obs_to_evm(run_fn(f0, inp))
        except KeyError:
            continue
        try:
            before = evm_run(text, None, inp, ch, prep)
        except Exception:  # noqa  (e.g. `log` operand shapes the back end rejects)
            skipped += 1
            continue
        try:
            after = evm_run(text, _run(cls_name), inp, ch, prep)
        except Exception as ex:  # noqa
            ctx.violation("correspondence-broken", f"output of {cls_name} cannot be compiled by the back end although the input can: "
                          f"{type(ex).__name__}: {ex}", {"venom": text})
            return n
        n += 1
        if want[1] is not None and (before[0] != want[0] or (before[0] and before[1] != want[1])):
            ctx.violation("correspondence-broken", "the interpreter used by Search disagrees with pyrevm on back-end output",
                          {"venom": text, "calldata_words": {k: hex(v) for k, v in inp.items()}, "interpreter": want, "pyrevm": before})
            return n
        if after[0] != before[0] or after[1] != before[1]:
            ctx.violation("failing-input", f"{cls_name} changes the behaviour observed on pyrevm",
                          {"venom": text, "family_member": name, "calldata_words": {k: hex(v) for k, v in inp.items()}, "before_pass": before, "after_pass": after,
                           "call": f"{cls_name} on parse_venom(venom); both versions compiled with the venom back end, run on pyrevm"},
                          key=f"small_passes:evm:{cls_name}")
            return n
    ctx.corr["small_passes_evm_runs"] = n
    ctx.corr["small_passes_evm_skipped"] = skipped
    return n


# ------------------------------------------------------------------ every invocation while the corpus compiles
PASSES = {"ReduceLiteralsCodesize": "lit", "RevertToAssert": "rta", "AssertCombinerPass": "ac", "LowerDloadPass": "dl",
          "PhiEliminationPass": "phi"}


class Observer:
    def __init__(self, max_insts=500):
        self.max_insts = max_insts
        self.samples = {k: {} for k in PASSES.values()}
        self.invocations = {k: 0 for k in PASSES.values()}
        self.too_big = 0
        self.errors = []

    def __enter__(self):
        import vyper.venom.passes as P
        self.orig = []
        obs = self
        for cls_name, kind in PASSES.items():
            cls_ = getattr(P, cls_name)
            orig_run = cls_.run_pass
            self.orig.append((cls_, orig_run))

            def run_pass(self_, *a, _orig=orig_run, _kind=kind, **k):
                pre = None
                try:
                    pre = obs.before(self_.function, _kind)
                except Exception as e:  # the observer must never change what the compiler does
                    obs.errors.append("before: " + repr(e))
                r = _orig(self_, *a, **k)
                if pre is not None:
                    try:
                        obs.after(self_.function, _kind, pre)
                    except Exception as e:
                        obs.errors.append("after: " + repr(e))
                return r
            cls_.run_pass = run_pass
        return self

    def __exit__(self, *a):
        for cls_, orig_run in self.orig:
            cls_.run_pass = orig_run

    def before(self, fn, kind):
        self.invocations[kind] += 1
        ex = new_export(fn)
        if ex.ninsts > self.max_insts:
            self.too_big += 1
            return None
        if kind == "phi":
            from . import c14l_phi
            return ex, {"snap": c14l_phi.snapshot(fn, ex), "nv": len(ex.var), "text_before": str(fn), "ninsts": ex.ninsts, "name": ex.name}
        s = {"before": ex.func(), "nv": None, "text_before": str(fn), "ninsts": ex.ninsts, "name": ex.name}
        s["nv"] = len(ex.var)
        if kind == "ac":
            s["msgs"] = msgs_of(ex, {})
            s["cross_block"] = _cross_block_iszero(fn)
        return ex, s

    def after(self, fn, kind, pre):
        ex, s = pre
        ex2 = export_pair(ex, fn)
        if kind == "phi":
            from . import c14l_phi
            after = c14l_phi.snapshot(fn, ex2)
            before = s.pop("snap")
            if before == after:
                return                      # nothing replaced: nothing to validate
            As, Rs, nrep = c14l_phi.certificate(before, after)
            s.update(before=c14l_phi.coq_func(before), after=c14l_phi.coq_func(after), As=As, Rs=Rs, replaced=nrep, changed=True, text_after=str(fn))
            key = hashlib.sha256((s["before"] + "|" + s["after"]).encode()).hexdigest()[:16]
            self.samples[kind].setdefault(key, s)
            return
        s["after"] = ex2.func()
        s["ce"] = ex2.foreign.get("code_end", 1_000_000 + len(ex2.foreign))
        s["changed"] = s["after"] != s["before"]
        s["text_after"] = str(fn)
        key = hashlib.sha256((s["before"] + "|" + s["after"] + "|" + s.get("msgs", "")).encode()).hexdigest()[:16]
        self.samples[kind].setdefault(key, s)


def _cross_block_iszero(fn):
    """does some assertion's operand reach (through copies) an iszero defined in another block, or is some definition on
    the way in another block?  Then the DFG-based real pass may merge where the block-local model does not."""
    from vyper.venom.analysis import DFGAnalysis, IRAnalysesCache
    from vyper.venom.basicblock import IRVariable
    dfg = IRAnalysesCache(fn).request_analysis(DFGAnalysis)
    for bb in fn.get_basic_blocks():
        for i in bb.instructions:
            if i.opcode != "assert" or len(i.operands) != 1:
                continue
            op = i.operands[0]
            for _ in range(50):
                if not isinstance(op, IRVariable):
                    break
                p = dfg.get_producing_instruction(op)
                if p is None:
                    break
                if p.parent is not bb and p.opcode in ("assign", "iszero"):
                    return True
                if p.opcode == "assign":
                    op = p.operands[0]
                    continue
                break
    return False


def part_corpus(ctx, model_ok):
    import warnings
    from . import c14_pass_corpus as PC
    from vyper.compiler import compile_code
    from vyper.compiler.settings import OptimizationLevel, Settings
    rnd = ctx.rng("c14l-corpus")
    progs = PC.select(ctx.tier, rnd)
    if ctx.tier == "quick":
        progs = progs[:8]
    levels = [OptimizationLevel.CODESIZE] if ctx.tier == "quick" else [OptimizationLevel.GAS, OptimizationLevel.CODESIZE, OptimizationLevel.O3]
    nfail = 0
    with warnings.catch_warnings():
        warnings.simplefilter("ignore")
        with Observer(max_insts=700 if ctx.tier == "quick" else 1500) as obs:
            for c in progs:
                for lvl in levels:
                    try:
                        compile_code(c["src"], output_formats=["bytecode"], settings=Settings(experimental_codegen=True, optimize=lvl))
                    except Exception:
                        nfail += 1
    if obs.errors:
        ctx.violation("correspondence-broken", "cannot export a pass invocation: " + obs.errors[0], {"errors": obs.errors[:5]})
    total = 0
    stats = {"programs": len(progs), "levels": [str(l) for l in levels], "compile_failures": nfail, "too_big_skipped": obs.too_big,
             "invocations": obs.invocations}
    names = {v: k for k, v in PASSES.items()}
    for kind in ("lit", "rta", "ac", "dl", "phi"):
        allv = sorted(obs.samples[kind].values(), key=lambda s_: (not s_["changed"], -s_["ninsts"], s_["name"]))
        changed = [s_ for s_ in allv if s_["changed"]]
        same = [s_ for s_ in allv if not s_["changed"]]
        cap_c, cap_s = (24, 4) if ctx.tier == "quick" else (100000, 200)
        pick = changed[:cap_c] + (rnd.sample(same, cap_s) if len(same) > cap_s else same)
        st = {"distinct": len(allv), "changed": len(changed), "checked": len(pick), "accepted": 0, "unsupported": 0, "rejected": 0}
        if model_ok and pick:
            try:
                res = evaluate(kind, pick, f"c14l_corpus_{kind}") if kind != "phi" else evaluate_phi(pick, "c14l_corpus_phi")
            except RuntimeError as e:
                res = None
                ctx.violation("correspondence-broken", f"the {names[kind]} model could not be evaluated on the exported invocations", {"error": str(e)[-1500:]})
            if res is not None:
                for s_, r in zip(pick, res):
                    if r == [1, 1]:
                        st["accepted"] += 1
                    elif kind == "ac" and s_.get("cross_block") and r[:1] == [1]:
                        st["unsupported"] += 1
                    else:
                        st["rejected"] += 1
                        if st["rejected"] <= 2:
                            thm = {"lit": "lit_pass_correct", "rta": "rta_pass_correct", "ac": "ac_pass_correct", "dl": "dl_pass (exact model) + lower_dload_sound", "phi": "phi_check (validator; soundness proved for its three local steps only)"}[kind]
                            ctx.violation("theorem-broken", f"{thm} does not apply: the output of {names[kind]} on a corpus function "
                                          f"({s_['name']}) is not the model's output", {"theorem": thm, "verdict": r, "function_before": s_["text_before"][:5000],
                                                                                        "function_after": s_["text_after"][:5000]})
                total += st["accepted"]
        stats[names[kind]] = st
    ctx.corr["small_passes_corpus"] = stats
    return total


# ------------------------------------------------------------------ entry
def part_small_passes(ctx):
    t0 = time.time()
    b = _gen_and_build(ctx)
    ctx.log(f"C14L coq build: {time.time() - t0:.1f}s ok={b['ok']}")
    model_ok = all((COQ / f[:-2]).with_suffix(".vo").exists() for f in MODEL_FILES) and not b.get("gen_err")
    nviol = len(ctx.violations)
    total = 0
    t0 = time.time()
    total += part_phi_dload(ctx)
    ctx.log(f"C14L phi/dload search: {time.time() - t0:.1f}s")
    for nm, fn in (("literals", part_lit), ("revert_to_assert", part_rta), ("assert_combiner", part_ac), ("lower_dload model", part_dload_model), ("phi_elimination validator", part_phi_model)):
        t0 = time.time()
        k = fn(ctx, model_ok)
        total += k
        ctx.log(f"C14L {nm}: {k} cases, {time.time() - t0:.1f}s")
    if model_ok:
        t0 = time.time()
        total += part_safe_table(ctx)
        ctx.log(f"C14L safe-between table: {time.time() - t0:.1f}s")
    t0 = time.time()
    total += part_evm(ctx)
    ctx.log(f"C14L back end + pyrevm: {time.time() - t0:.1f}s")
    t0 = time.time()
    total += part_corpus(ctx, model_ok)
    ctx.log(f"C14L corpus invocations: {time.time() - t0:.1f}s")
    if not b["ok"] and len(ctx.violations) == nviol:
        if b.get("gen_err"):
            ctx.violation("translator-rejected", "cannot slice/translate literals_codesize._process_bb: " + b["gen_err"], {"error": b["gen_err"]})
        else:
            ctx.violation("theorem-broken", f"{b.get('failed_lemma')} in {b['file']}",
                          {"theorem": b.get("failed_lemma"), "file": b["file"], "coq_output": b["out"][-1500:]})
    ctx.trusted += ["C14L: coq/C14L/Sem.v (labelled semantics over RangeFix.v's syntax: which instructions are events, oracle for "
                    "environment reads, `assert` failure = revert with empty data)",
                    "C14L: exporter tools/vlib/c14_fix.py:Export (shared by before/after); parse_venom; pyrevm"]
    return total
