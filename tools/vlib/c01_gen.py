"""Seeded generator of well-typed VyCore programs (Vyper text + Coq term) and call sequences."""
from vlib.c01_ast import E, S, Fun, Program, U256, BOOL, ADDR, DEC, DEC_SCALE, is_int, int_bounds, zero_val
from vlib.c01_harness import Call
from vlib.evm import DEPLOYER, SENDER2

INT_TYPES = [("int", 256, False)] * 6 + [("int", 256, True)] * 3 + [("int", 128, True)] * 3 + \
            [("int", 8, False)] * 2 + [("int", 8, True)] * 2 + [("int", 128, False), ("int", 64, False), ("int", 64, True),
                                                                ("int", 16, False), ("int", 16, True), ("int", 32, True),
                                                                ("int", 248, False), ("int", 40, True)]
ARITH = ["Add"] * 4 + ["Sub"] * 3 + ["Mul"] * 3 + ["Div"] * 2 + ["Mod"] * 2 + ["BAnd", "BOr", "BXor"]
CMPS = ["Lt", "Le", "Gt", "Ge", "Eq", "Ne"]

BL = ("bytes", "string")
PRIMS = ("int", "bool", "addr", "flag", "dec", "bytesm")
DEC_ARITH = ["Add", "Add", "Sub", "Sub", "DMul", "DMul", "DDiv", "DDiv", "Mod"]
PRINTABLE = b"abcdefghijklmnopqrstuvwxyzABCDEFGHIJKLMNOPQRSTUVWXYZ0123456789 _-+*/.,:;!?()[]{}<>=#@%&^~|"

ALL_FEATURES = {"probes", "maps", "reasons", "bytes", "strings", "shifts", "pow", "defaults", "ctor", "flags", "decimals", "bytesm", "extcalls", "convert", "ifexp", "minmax", "bitops", "internal", "loops", "arrays", "dynarrays", "structs",
                "transient", "sender", "value", "fordyn", "forin", "balance"}


class Ctx:
    """per-function generation context"""
    def __init__(self, fidx, external, ret, payable=False):
        self.fidx, self.external, self.ret, self.payable = fidx, external, ret, payable
        self.next_id = 0
        self.nloc = 0
        self.loop_depth = 0
        self.iter_locked = set()   # storage/transient names being iterated (may not be modified)
        self.is_ctor = False
        self.no_calls = 0          # > 0 while generating a range bound / iterator (no state-modifying calls allowed there)


class Gen:
    def __init__(self, rng, features=None, size=1.0, index=None, probe_only=False):
        self.index = index           # position of this program in the run: drives the systematic operator table
        self.probe_only = probe_only  # a program made of probe functions only (small: cheap to run under EVERY configuration)
        self.r = rng
        self.feat = set(ALL_FEATURES if features is None else features)
        self.size = size
        self.prog = None
        self.writes = {}  # internal fn index -> set of storage names it (transitively) may write

    # ---------------------------------------------------------------- types / literals
    def int_type(self):
        return self.r.choice(INT_TYPES)

    def elem_type(self):
        for _ in range(10):
            t = self.prim_type()
            if t[0] != "flag":
                return t
        return U256

    def prim_type(self):
        x = self.r.random()
        if getattr(self, "flag_types", None) and x > 0.9:
            return self.r.choice(self.flag_types)
        if getattr(self, "use_dec", False) and 0.8 < x <= 0.9:
            return DEC
        if getattr(self, "bytesm_types", None) and 0.7 < x <= 0.8:
            return self.r.choice(self.bytesm_types)
        if x < 0.2:
            return BOOL
        if x < 0.25 and "sender" in self.feat:
            return ADDR
        return self.int_type()

    def lit_val(self, t):
        r = self.r
        if t[0] == "flag":
            return r.randrange(0, 2 ** t[2]) if r.random() < 0.8 else r.choice([0, 2 ** t[2] - 1])
        if t[0] == "bytesm":
            top = 2 ** (8 * t[1])
            return r.choice([0, 1, top - 1, top // 2, r.randrange(top), r.randrange(top)])
        if t[0] == "dec":
            lo, hi = int_bounds(t)
            x = r.random()
            if x < 0.7:
                return r.choice([0, 1, 2, 3, 10, -1, -2, 7]) * DEC_SCALE + r.choice([0, 0, 5 * 10 ** 9, 25 * 10 ** 8, 1, 10 ** 9 + 1, 3333333333])
            if x < 0.85:
                return r.choice([hi, lo, hi - 1, lo + 1, hi // 2])
            return r.randrange(-10 ** 15, 10 ** 15)
        if t[0] == "bool":
            return r.random() < 0.5
        if t[0] == "addr":
            return r.choice([0, 1, int(DEPLOYER, 16), int(SENDER2, 16), 2 ** 160 - 1])
        lo, hi = int_bounds(t)
        x = r.random()
        if x < 0.55:
            v = r.choice([0, 1, 1, 2, 2, 3, 4, 5, 7, 10, 16, 100])
        elif x < 0.7:
            v = r.choice([hi, hi - 1, lo, lo + 1, hi // 2, hi // 2 + 1])
        elif x < 0.8 and lo < 0:
            v = -r.choice([1, 1, 2, 3, 7, 100])
        elif x < 0.9:
            v = r.randrange(lo, hi + 1)
        else:
            v = r.randrange(0, 300)
        return min(max(v, lo), hi)

    def lit(self, t, nonzero=False):
        if t[0] in BL:
            return self.bytes_lit(t[1], t[0])
        if t[0] in ("sarr", "darr", "struct"):
            return self.composite_lit(t)
        v = self.lit_val(t)
        if nonzero and v == 0:
            v = 1
        return E("const", t, v=v)

    def composite_lit(self, t):
        if t[0] == "sarr":
            return E("list", t, elems=[self.lit(t[1]) for _ in range(t[2])])
        if t[0] == "darr":
            n = self.r.randrange(0, t[2] + 1)
            if n == 0:
                return E("const", t, v=[])
            return E("list", t, elems=[self.lit(t[1]) for _ in range(n)])
        return E("list", t, elems=[self.lit(ft) for _, ft in t[2]])

    # ---------------------------------------------------------------- expressions
    def readable(self, cx, scope, t):
        """non-literal leaves of exactly type t"""
        out = []
        for (name, vid, vt, _m) in scope:
            if vt == t:
                out.append(E("var", t, name=name, id=vid))
        for i, (name, vt) in enumerate(self.prog.sto):
            if name.startswith("$"):
                continue
            if vt == t and not (cx.is_ctor and name in self.prog.imm):
                out.append(E("self", t, name=name, id=i))
        for i, (name, vt) in enumerate(self.prog.tra):
            if vt == t:
                out.append(E("tra", t, name=name, id=i))
        if t == U256 and getattr(self, "bal_random", False) and not cx.is_ctor:
            out.append(E("balance", U256, hid=self.bid))
        return out

    def ensure_bal(self):
        """the contract's ether balance as a reserved cell of the reference program's state (hidden variable)"""
        if not getattr(self, "use_bal", False):
            self.use_bal = True
            self.bid = len(self.prog.sto)
            self.prog.sto.append(("$balance", U256))

    def containers(self, cx, scope):
        """readable composite-typed places as expressions"""
        out = []
        for (name, vid, vt, _m) in scope:
            if vt[0] in ("sarr", "darr", "struct"):
                out.append(E("var", vt, name=name, id=vid))
        for i, (name, vt) in enumerate(self.prog.sto):
            if name.startswith("$"):
                continue
            if vt[0] in ("sarr", "darr", "struct", "map"):
                out.append(E("self", vt, name=name, id=i))
        for i, (name, vt) in enumerate(self.prog.tra):
            if vt[0] in ("sarr", "darr", "struct"):
                out.append(E("tra", vt, name=name, id=i))
        return out

    def key_expr(self, cx, scope, kt, d):
        """a HashMap key: mostly one of a few small literals so that reads meet earlier writes"""
        r = self.r
        if r.random() < 0.65:
            if kt == BOOL:
                return E("const", BOOL, v=r.random() < 0.5)
            if kt == ADDR:
                return E("const", ADDR, v=r.choice([0, 1, int(DEPLOYER, 16)])) if r.random() < 0.6 or "sender" not in self.feat \
                    else E("sender", ADDR)
            lo, hi = int_bounds(kt)
            return E("const", kt, v=r.choice([0, 1, 2, 3, hi, lo]))
        e = self.nonlit(cx, scope, kt, d - 1)
        return e if e is not None else self.lit(kt)

    def index_expr(self, cx, scope, n, d, static=True):
        """uint256 index, mostly in range [0, n); a literal index of a static array must be in range (compile-time check)"""
        r = self.r
        x = r.random()
        if n > 0 and x < 0.5:
            return E("const", U256, v=r.randrange(n))
        if x < 0.6 and not static and n >= 2:
            return E("const", U256, v=n + r.randrange(2))    # possibly beyond the live length (run-time check); < capacity
        # calls inside a subscript mostly hit the legacy front end's "risky overlap" guard (a compile-time rejection):
        # keep them rare
        if r.random() < 0.85:
            cx.no_calls += 1
            try:
                e = self.nonlit(cx, scope, U256, d - 1)
            finally:
                cx.no_calls -= 1
        else:
            e = self.nonlit(cx, scope, U256, d - 1)
        if e is None:
            return E("const", U256, v=r.randrange(max(n, 1)))
        if n > 0 and r.random() < 0.7:
            return E("bin", U256, op="Mod", a=e, b=E("const", U256, v=n))
        return e

    def sub_access(self, cx, scope, t, d):
        """an element/field read of type t out of some container, or None"""
        cands = []
        for c in self.containers(cx, scope):
            ct = c.ty
            if ct[0] in ("sarr", "darr") and ct[1] == t:
                cands.append(("idx", c))
            elif ct[0] == "struct":
                for k, (fn, ft) in enumerate(ct[2]):
                    if ft == t:
                        cands.append(("fld", c, fn, k))
                    elif ft[0] in ("sarr", "darr") and ft[1] == t:
                        cands.append(("fldidx", c, fn, k, ft))
            elif ct[0] in ("sarr", "darr") and ct[1][0] == "struct":
                for k, (fn, ft) in enumerate(ct[1][2]):
                    if ft == t:
                        cands.append(("idxfld", c, fn, k))
            elif ct[0] in ("sarr", "darr") and ct[1][0] in ("sarr", "darr") and ct[1][1] == t:
                cands.append(("idxidx", c))
            elif ct[0] == "map":
                vt = ct[2]
                if vt == t:
                    cands += [("map", c)] * 2
                elif vt[0] == "map" and vt[2] == t:
                    cands.append(("mapmap", c))
                elif vt[0] in ("sarr", "darr") and vt[1] == t:
                    cands.append(("mapidx", c))
                elif vt[0] == "struct":
                    for k, (fn, ft) in enumerate(vt[2]):
                        if ft == t:
                            cands.append(("mapfld", c, fn, k))
        if not cands:
            return None
        c = self.r.choice(cands)

        def n_of(ct):
            return ct[2] if ct[0] == "sarr" else max(1, ct[2] // 2)
        if c[0] == "map":
            return E("idx", t, a=c[1], i=self.key_expr(cx, scope, c[1].ty[1], d))
        if c[0] == "mapmap":
            inner = E("idx", c[1].ty[2], a=c[1], i=self.key_expr(cx, scope, c[1].ty[1], d))
            return E("idx", t, a=inner, i=self.key_expr(cx, scope, c[1].ty[2][1], d))
        if c[0] == "mapidx":
            inner = E("idx", c[1].ty[2], a=c[1], i=self.key_expr(cx, scope, c[1].ty[1], d))
            return E("idx", t, a=inner, i=self.index_expr(cx, scope, n_of(c[1].ty[2]), d, static=(c[1].ty[2])[0] == "sarr"))
        if c[0] == "mapfld":
            inner = E("idx", c[1].ty[2], a=c[1], i=self.key_expr(cx, scope, c[1].ty[1], d))
            return E("fld", t, a=inner, name=c[2], id=c[3])
        if c[0] == "idx":
            return E("idx", t, a=c[1], i=self.index_expr(cx, scope, n_of(c[1].ty), d, static=(c[1].ty)[0] == "sarr"))
        if c[0] == "fld":
            return E("fld", t, a=c[1], name=c[2], id=c[3])
        if c[0] == "fldidx":
            base = E("fld", c[4], a=c[1], name=c[2], id=c[3])
            return E("idx", t, a=base, i=self.index_expr(cx, scope, n_of(c[4]), d, static=(c[4])[0] == "sarr"))
        if c[0] == "idxfld":
            base = E("idx", c[1].ty[1], a=c[1], i=self.index_expr(cx, scope, n_of(c[1].ty), d, static=(c[1].ty)[0] == "sarr"))
            return E("fld", t, a=base, name=c[2], id=c[3])
        base = E("idx", c[1].ty[1], a=c[1], i=self.index_expr(cx, scope, n_of(c[1].ty), d, static=(c[1].ty)[0] == "sarr"))
        return E("idx", t, a=base, i=self.index_expr(cx, scope, n_of(c[1].ty[1]), d, static=(c[1].ty[1])[0] == "sarr"))

    def callable_funs(self, cx, t, any_ret=False):
        if "internal" not in self.feat or cx.is_ctor or cx.no_calls:
            return []
        out = []
        for i, f in enumerate(self.prog.ints):
            if (cx.external or i < cx.fidx) and (any_ret or f.ret == t):
                if cx.iter_locked & self.writes.get(i, set()):
                    continue
                out.append(i)
        return out

    def call_expr(self, cx, scope, i, d):
        f = self.prog.ints[i]
        args = [self.expr(cx, scope, pt, min(d - 1, 1) if (pt[0] in PRIMS or self.r.random() < 0.6) else 2) for _, pt in f.params]
        given = None
        if f.defaults and self.r.random() < 0.6:
            given = self.r.randrange(len(f.params) - len(f.defaults), len(f.params) + 1)
            args = args[:given] + [f.defaults[j].clone() for j in range(given, len(f.params))]
        return E("call", f.ret if f.ret is not None else None, name=f.name, id=i, args=args, given=given)

    def nonlit(self, cx, scope, t, d):
        """an expression of type t that is not a compile-time constant; None if impossible at depth 0"""
        r = self.r
        leaves = self.readable(cx, scope, t)
        if d <= 0:
            if leaves:
                return r.choice(leaves)
            if t == ADDR and "sender" in self.feat:
                return E("sender", ADDR)
            return None
        opts = ["leaf"] * 3 if leaves else []
        if is_int(t):
            opts += ["bin"] * 5
            if t[2]:
                opts += ["neg"]
            if "minmax" in self.feat:
                opts += ["minmax"]
            if "shifts" in self.feat and t[1] == 256:
                opts += ["shift"]
            if self.ext_ok(cx) and t == U256:
                opts += ["ext_add", "ext_get", "ext_echo_u"] + (["ext_len_b"] if self.bkind == "bytes" and self.bytes_leaves(cx, scope, 64) else [])
            if self.ext_ok(cx) and t == ("int", 8, True):
                opts += ["ext_echo_i8"] * 2
            if "pow" in self.feat:
                opts += ["pow"]
            if getattr(self, "use_dec", False):
                opts += ["fromdec"]
            if not t[2] and any(bt[1] * 8 == t[1] for bt in getattr(self, "bytesm_types", [])):
                opts += ["uint_from_bm"]
            if "convert" in self.feat:
                opts += ["conv"] * 2
            if t == U256 and "dynarrays" in self.feat and any(c.ty[0] == "darr" for c in self.containers(cx, scope)):
                opts += ["len"]
            if t == U256 and self.bytes_leaves(cx, scope, 10 ** 6):
                opts += ["blen"]
            if t == U256 and "value" in self.feat and cx.external and cx.payable:
                opts += ["value"]
        elif t == BOOL:
            opts += ["cmp"] * 4 + ["and", "or", "not"]
            if self.bytes_leaves(cx, scope, 10 ** 6):
                opts += ["bcmp"]
            if getattr(self, "flag_types", None):
                opts += ["flagin", "flagcmp"]
            if getattr(self, "bytesm_types", None):
                opts += ["bmcmp"]
            if "convert" in self.feat:
                opts += ["conv"]
        elif t == ADDR:
            if "sender" in self.feat:
                opts += ["sender"] * 2
        elif t[0] == "flag":
            opts += ["flagbit"] * 3 + ["flagnot"]
        elif t[0] == "bytesm":
            opts += ["bm_from_uint"]
        elif t[0] == "dec":
            opts += ["decbin"] * 5 + ["neg", "todec"] + (["minmax"] if "minmax" in self.feat else [])
        if "ifexp" in self.feat and t[0] in ("int", "bool"):
            opts += ["ifexp"]
        if self.callable_funs(cx, t):
            opts += ["call"] * 3
        if t[0] in PRIMS and (self.feat & {"arrays", "dynarrays", "structs"}):
            opts += ["sub"] * 2
        if not opts:
            return None
        k = r.choice(opts)
        if k == "leaf":
            return r.choice(leaves)
        if k == "bin":
            op = r.choice(ARITH if "bitops" in self.feat else ARITH[:-3])
            a = self.nonlit(cx, scope, t, d - 1)
            if a is None:
                return None
            if op in ("Div", "Mod"):
                b = self.lit(t, nonzero=True) if r.random() < 0.7 else self.expr(cx, scope, t, d - 1, nonzero_lit=True)
            else:
                b = self.expr(cx, scope, t, d - 1)
            if op in ("Add", "Mul", "BAnd", "BOr", "BXor") and r.random() < 0.3 and not b.is_lit():
                a, b = b, a
            elif op in ("Add", "Mul", "Sub") and r.random() < 0.2 and b.is_lit():
                a, b = b, a
            return E("bin", t, op=op, a=a, b=b)
        if k == "neg":
            a = self.nonlit(cx, scope, t, d - 1)
            return None if a is None else E("neg", t, a=a)
        if k == "ext_add":
            return E("ext", U256, fn="add", args=[self.expr(cx, scope, U256, d - 1), self.expr(cx, scope, U256, d - 1)])
        if k == "ext_get":
            return E("ext", U256, fn="get", args=[], hid=self.hid)
        if k == "ext_echo_u":
            return E("ext", U256, fn="echo_u", args=[self.expr(cx, scope, U256, d - 1)])
        if k == "ext_echo_i8":
            return E("ext", t, fn="echo_i8", args=[self.expr(cx, scope, t, d - 1)])
        if k == "ext_len_b":
            return E("ext", U256, fn="len_b", args=[self.bytes_expr(cx, scope, 64, 1)])
        if k == "shift":
            a = self.nonlit(cx, scope, t, d - 1)
            if a is None:
                return None
            st = r.choice([U256, U256, ("int", 8, False)])
            if r.random() < 0.6:
                b = E("const", st, v=r.choice([0, 1, 2, 7, 8, 31, 128, 254, 255] + ([256, 300] if st == U256 else [])))
            else:
                b = self.expr(cx, scope, st, d - 1)
            return E("shift", t, left=r.random() < 0.5, a=a, b=b)
        if k == "pow":
            return self.pow_expr(cx, scope, t, d)
        if k == "minmax":
            a = self.nonlit(cx, scope, t, d - 1)
            if a is None:
                return None
            b = self.expr(cx, scope, t, d - 1)
            if r.random() < 0.5:
                a, b = b, a
            return E(r.choice(["min", "max"]), t, a=a, b=b)
        if k == "conv":
            if t == BOOL:
                st = self.int_type()
            else:
                st = self.int_type() if r.random() < 0.85 else BOOL
            if st == t:
                return None
            a = self.nonlit(cx, scope, st, d - 1)
            return None if a is None else E("conv", t, a=a)
        if k == "len":
            cs = [c for c in self.containers(cx, scope) if c.ty[0] == "darr"]
            return E("len", U256, a=r.choice(cs))
        if k == "blen":
            return E("len", U256, a=self.bytes_expr(cx, scope, 10 ** 6, 1, nonlit=True))
        if k == "value":
            return E("value", U256)
        if k == "sender":
            return E("sender", ADDR)
        if k == "cmp":
            avail = sorted({vt for (_n, _i, vt, _m) in scope if is_int(vt) or vt == DEC} | {vt for _n, vt in self.prog.sto if is_int(vt) or vt == DEC})
            if avail and r.random() < 0.75:
                ct = r.choice(avail)
            else:
                ct = self.int_type() if r.random() < 0.9 else BOOL
            op = r.choice(CMPS) if ct != BOOL else r.choice(["Eq", "Ne"])
            a = self.nonlit(cx, scope, ct, d - 1)
            if a is None:
                return None
            b = self.expr(cx, scope, ct, d - 1)
            if r.random() < 0.3:
                a, b = b, a
            return E("cmp", BOOL, op=op, a=a, b=b)
        if k == "bm_from_uint":
            a = self.nonlit(cx, scope, ("int", 8 * t[1], False), d - 1)
            return None if a is None else E("conv", t, a=a)
        if k == "uint_from_bm":
            bt = [b_ for b_ in self.bytesm_types if b_[1] * 8 == t[1]][0]
            a = self.nonlit(cx, scope, bt, d - 1)
            return None if a is None else E("conv", t, a=a)
        if k == "bmcmp":
            bt = r.choice(self.bytesm_types)
            a = self.nonlit(cx, scope, bt, d - 1)
            if a is None:
                return None
            b = self.expr(cx, scope, bt, d - 1)
            if r.random() < 0.4:
                a, b = b, a
            return E("cmp", BOOL, op=r.choice(["Eq", "Ne"]), a=a, b=b)
        if k == "decbin":
            op = r.choice(DEC_ARITH)
            a = self.nonlit(cx, scope, t, d - 1)
            if a is None:
                return None
            if op in ("DDiv", "Mod"):
                b = self.lit(t, nonzero=True) if r.random() < 0.7 else self.expr(cx, scope, t, d - 1, nonzero_lit=True)
            else:
                b = self.expr(cx, scope, t, d - 1)
            if op in ("Add", "DMul") and r.random() < 0.3:
                a, b = b, a
            return E("bin", t, op=op, a=a, b=b)
        if k == "todec":
            st = self.int_type()
            a = self.nonlit(cx, scope, st, d - 1)
            return None if a is None else E("dec", DEC, mode="ToDec", a=a)
        if k == "fromdec":
            a = self.nonlit(cx, scope, DEC, d - 1)
            if a is None:
                return None
            if t == ("int", 256, True) and r.random() < 0.5:
                return E("dec", t, mode=r.choice(["Floor", "Ceil"]), a=a)
            return E("dec", t, mode="FromDec", a=a)
        if k in ("flagbit", "flagnot"):
            a = self.nonlit(cx, scope, t, d - 1)
            if a is None:
                return None
            if k == "flagnot":
                return E("flagnot", t, a=a)
            b = self.expr(cx, scope, t, d - 1)
            if r.random() < 0.4:
                a, b = b, a
            return E("bin", t, op=r.choice(["BAnd", "BOr", "BXor"]), a=a, b=b)
        if k in ("flagin", "flagcmp"):
            ft = r.choice(self.flag_types)
            a = self.nonlit(cx, scope, ft, d - 1)
            if a is None:
                return None
            b = self.expr(cx, scope, ft, d - 1)
            if r.random() < 0.4:
                a, b = b, a
            if k == "flagcmp":
                return E("cmp", BOOL, op=r.choice(["Eq", "Ne"]), a=a, b=b)
            return E("flagin", BOOL, neg=r.random() < 0.4, a=a, b=b)
        if k == "bcmp":
            a = self.bytes_expr(cx, scope, 10 ** 6, 1, nonlit=True)
            b = self.bytes_expr(cx, scope, 10 ** 6, 1)
            if a is None:
                return None
            return E("cmp", BOOL, op=r.choice(["Eq", "Ne"]), a=a, b=b)
        if k in ("and", "or"):
            a = self.nonlit(cx, scope, BOOL, d - 1)
            b = self.nonlit(cx, scope, BOOL, d - 1)
            if a is None or b is None:
                return None
            return E(k, BOOL, a=a, b=b)
        if k == "not":
            a = self.nonlit(cx, scope, BOOL, d - 1)
            return None if a is None else E("not", BOOL, a=a)
        if k == "ifexp":
            c = self.nonlit(cx, scope, BOOL, d - 1)
            a = self.nonlit(cx, scope, t, d - 1)
            if c is None or a is None:
                return None
            b = self.expr(cx, scope, t, d - 1)
            if r.random() < 0.5:
                a, b = b, a
            return E("ifexp", t, c=c, a=a, b=b)
        if k == "call":
            return self.call_expr(cx, scope, r.choice(self.callable_funs(cx, t)), d)
        if k == "sub":
            return self.sub_access(cx, scope, t, d)
        raise ValueError(k)

    def rand_bytes(self, ln, kind):
        r = self.r
        if kind == "string":
            return bytes(r.choice(PRINTABLE) for _ in range(ln))
        return bytes(r.randrange(256) for _ in range(ln))

    def bytes_lit(self, n, kind=None):
        r = self.r
        kind = kind or self.bkind
        n = min(n, 72)
        ln = r.choice([0, 1, 1, 2, 3, 5, 31, 32, 33, n, n]) if n > 0 else 0
        ln = min(ln, n)
        return E("const", (kind, ln), v=self.rand_bytes(ln, kind))

    def bytes_leaves(self, cx, scope, n):
        """readable Bytes places whose bound fits into n"""
        out = []
        for (name, vid, vt, _m) in scope:
            if vt[0] == self.bkind and vt[1] <= n:
                out.append(E("var", vt, name=name, id=vid))
        for i, (name, vt) in enumerate(self.prog.sto):
            if name.startswith("$"):
                continue
            if vt[0] == self.bkind and vt[1] <= n:
                out.append(E("self", vt, name=name, id=i))
        for i, (name, vt) in enumerate(self.prog.tra):
            if vt[0] == self.bkind and vt[1] <= n:
                out.append(E("tra", vt, name=name, id=i))
        return out

    def bytes_expr(self, cx, scope, n, d, nonlit=False):
        """an expression of type Bytes[m] with m <= n (the node's ty is its own static bound)"""
        r = self.r
        leaves = self.bytes_leaves(cx, scope, n)
        opts = (["leaf"] * 3 if leaves else []) + ([] if nonlit else ["lit"] * 2)
        if d > 0 and n >= 2:
            opts += ["concat"] * 2
        anyleaves = self.bytes_leaves(cx, scope, 10 ** 6)
        if d > 0 and anyleaves and n >= 1:
            opts += ["slice"] * 2
        fs = [i for i, f in enumerate(self.prog.ints) if (cx.external or i < cx.fidx) and f.ret is not None
              and f.ret[0] == self.bkind and f.ret[1] <= n and not (cx.iter_locked & self.writes.get(i, set()))]
        if fs and "internal" in self.feat:
            opts += ["call"] * 2
        if n >= 64 and self.bkind == "bytes" and self.ext_ok(cx) and d > 0:
            opts += ["echo_b"] * 2
        if d > 0 and leaves and "ifexp" in self.feat:
            opts += ["ifexp"]
        if not opts:
            return None if nonlit else self.bytes_lit(n)
        k = r.choice(opts)
        if k == "ifexp":
            a = r.choice(leaves)
            same = [l for l in leaves if l.ty == a.ty]
            c = self.nonlit(cx, scope, BOOL, 1)
            if c is not None:
                return E("ifexp", a.ty, c=c, a=a, b=r.choice(same).clone())
            k = "leaf"
        if k == "leaf":
            return r.choice(leaves)
        if k == "lit":
            return self.bytes_lit(n)
        if k == "echo_b":
            return E("ext", ("bytes", 64), fn="echo_b", args=[self.bytes_expr(cx, scope, 64, d - 1)])
        if k == "call":
            return self.call_expr(cx, scope, r.choice(fs), d)
        if k == "concat":
            n1 = r.randrange(1, n)
            a = self.bytes_expr(cx, scope, n1, d - 1, nonlit=True)
            if a is None:
                a = self.bytes_lit(n1)
                b = self.bytes_expr(cx, scope, n - a.ty[1], d - 1, nonlit=True)
                if b is None:
                    return self.bytes_lit(n)
            else:
                b = self.bytes_expr(cx, scope, n - a.ty[1], d - 1)
            if r.random() < 0.4:
                a, b = b, a
            return E("concat", (self.bkind, a.ty[1] + b.ty[1]), a=a, b=b)
        # slice
        x = r.choice(anyleaves)
        m = x.ty[1]
        if m < 1:
            return self.bytes_lit(n)
        if r.random() < 0.75 or m > n:
            ln = r.randrange(1, min(n, m) + 1)
            if r.random() < 0.6:
                start = E("const", U256, v=r.randrange(0, m - ln + 1))
            else:
                start = self.expr(cx, scope, U256, 1)
                if not start.is_lit() and r.random() < 0.7:
                    start = E("bin", U256, op="Mod", a=start, b=E("const", U256, v=m - ln + 1))
                elif start.is_lit():
                    start = E("const", U256, v=r.randrange(0, m - ln + 1))
            return E("slice", (self.bkind, ln), a=x, start=start, ln=E("const", U256, v=ln))
        # non-literal length: the result type is the source bound
        ln = self.nonlit(cx, scope, U256, 1)
        if ln is None:
            return x
        if r.random() < 0.7:
            ln = E("bin", U256, op="Mod", a=ln, b=E("const", U256, v=m + 1))
        return E("slice", (self.bkind, m), a=x, start=E("const", U256, v=0) if r.random() < 0.6 else
                 E("bin", U256, op="Mod", a=self.expr(cx, scope, U256, 1), b=E("const", U256, v=2)), ln=ln)

    def pow_expr(self, cx, scope, t, d):
        """x ** literal or literal ** x (vyper requires a literal on one side)"""
        r = self.r
        x = self.nonlit(cx, scope, t, d - 1)
        if x is None:
            return None
        lo, hi = int_bounds(t)
        if r.random() < 0.55:
            return E("bin", t, op="Pow", a=x, b=E("const", t, v=r.choice([0, 1, 2, 2, 3, 4, 5])))
        base = r.choice([2, 2, 3, 5, 10] + ([-2, -3] if lo < 0 else []))
        if not (lo <= base <= hi):
            base = 2
        if lo < 0:
            # a signed exponent must not be negative: mask it
            x = E("bin", t, op="BAnd", a=x, b=E("const", t, v=min(hi, 255))) if False else E("max", t, a=x, b=E("const", t, v=0))
        return E("bin", t, op="Pow", a=E("const", t, v=base), b=x)

    def expr(self, cx, scope, t, d, nonzero_lit=False):
        if t[0] in BL:
            return self.bytes_expr(cx, scope, t[1], d)
        if t[0] in ("sarr", "darr", "struct"):
            return self.composite_expr(cx, scope, t, d)
        if d > 0 or self.r.random() < 0.7:
            for _ in range(3):
                e = self.nonlit(cx, scope, t, d)
                if e is not None:
                    return e
        return self.lit(t, nonzero=nonzero_lit)

    def composite_expr(self, cx, scope, t, d):
        r = self.r
        cands = [c for c in self.containers(cx, scope) if c.ty == t]
        fs = self.callable_funs(cx, t)
        x = r.random()
        if t == ("darr", U256, 4) and self.ext_ok(cx) and x < 0.25 and d > 0:
            return E("ext", t, fn="echo_d", args=[self.composite_expr(cx, scope, t, d - 1)])
        if cands and x < 0.4:
            return r.choice(cands)
        if fs and x < 0.55:
            return self.call_expr(cx, scope, r.choice(fs), d)
        if x < 0.6:
            return E("const", t, v=zero_val(t)) if t[0] != "struct" else self.composite_lit(t)
        if x < 0.72 and d > 0 and "ifexp" in self.feat and (cands or fs):
            # IfExp selecting between multi-word values (variables / call results), e.g. as a call argument
            c = self.nonlit(cx, scope, BOOL, 1)
            if c is not None:
                def branch():
                    if fs and (not cands or r.random() < 0.3):
                        return self.call_expr(cx, scope, r.choice(fs), d - 1)
                    return r.choice(cands).clone()
                return E("ifexp", t, c=c, a=branch(), b=branch())
        # literal with computed elements
        if t[0] == "sarr":
            return E("list", t, elems=[self.expr(cx, scope, t[1], d - 1) for _ in range(t[2])])
        if t[0] == "darr":
            n = r.randrange(0, t[2] + 1)
            if n == 0:
                return E("const", t, v=[])
            return E("list", t, elems=[self.expr(cx, scope, t[1], d - 1) for _ in range(n)])
        return E("list", t, elems=[self.expr(cx, scope, ft, d - 1) for _, ft in t[2]])

    # ---------------------------------------------------------------- statements
    def new_local(self, cx, t):
        name = f"v{cx.nloc}"
        cx.nloc += 1
        vid = cx.next_id
        cx.next_id += 1
        return name, vid

    def scalar_targets(self, cx, scope, pred):
        """assignable places of primitive type: (base, path, ty)"""
        out = []
        for (name, vid, vt, m) in scope:
            if m and pred(vt):
                out.append((("loc", name, vid), [], vt))
        for i, (name, vt) in enumerate(self.prog.sto):
            if name.startswith("$"):
                continue
            if pred(vt) and name not in cx.iter_locked and name not in self.prog.imm:
                out.append((("sto", name, i), [], vt))
        for i, (name, vt) in enumerate(self.prog.tra):
            if pred(vt) and name not in cx.iter_locked:
                out.append((("tra", name, i), [], vt))
        return out

    def all_targets(self, cx, scope, d):
        """assignable places of any type incl. sub-places of containers: (base, path, ty)"""
        r = self.r
        roots = []
        for (name, vid, vt, m) in scope:
            if m:
                roots.append((("loc", name, vid), vt))
        for i, (name, vt) in enumerate(self.prog.sto):
            if name.startswith("$"):
                continue
            if name not in cx.iter_locked and name not in self.prog.imm:
                roots.append((("sto", name, i), vt))
        for i, (name, vt) in enumerate(self.prog.tra):
            if name not in cx.iter_locked:
                roots.append((("tra", name, i), vt))
        if not roots:
            return None
        base, t = r.choice(roots)
        path = []
        while t[0] == "map" or (t[0] in ("sarr", "darr", "struct") and r.random() < 0.75):
            if t[0] == "map":
                path.append(("i", self.key_expr(cx, scope, t[1], d)))
                t = t[2]
                continue
            if t[0] == "struct":
                k = r.randrange(len(t[2]))
                path.append(("f", t[2][k][0], k))
                t = t[2][k][1]
            else:
                n = t[2] if t[0] == "sarr" else max(1, t[2] // 2)
                path.append(("i", self.index_expr(cx, scope, n, d, static=t[0] == "sarr")))
                t = t[1]
        return base, path, t

    def stmt(self, cx, scope, d, last):
        """returns a list of statements (possibly declaring into scope)"""
        r = self.r
        kinds = ["decl"] * 3 + ["assign"] * 4 + ["aug"] * 3 + ["assert"] * 2 + ["log"] * 2
        if d > 0 and "loops" in self.feat and cx.loop_depth < 2:
            kinds += ["idiom"] * 2
        if self.comp_types:
            kinds += ["copyidiom"] * 2
        if d > 0:
            kinds += ["if"] * 5
            if "loops" in self.feat and cx.loop_depth < 2:
                kinds += ["for"] * 2
        if "internal" in self.feat and self.callable_funs(cx, None, True):
            kinds += ["callstmt"] * 2
        if "dynarrays" in self.feat and any(t[0] == "darr" or (t[0] == "struct" and any(ft[0] == "darr" for _, ft in t[2]))
                                            for t in self.comp_types):
            kinds += ["append"] * 3 + ["pop"] * 2
        if self.ext_ok(cx):
            kinds += ["extstore"] * 2 + ["extfail"]
        if getattr(self, "bal_random", False) and not cx.is_ctor and not cx.no_calls:
            kinds += ["send"] * 2
        if "internal" in self.feat and not cx.is_ctor and not cx.no_calls:
            kinds += ["rve"]
        if last and cx.loop_depth > 0:
            kinds += ["brk"] * 6
        if last and d > 0 and not cx.is_ctor:
            kinds += ["ret_if"]
        if cx.is_ctor:
            kinds = [k_ for k_ in kinds if k_ not in ("log", "idiom", "copyidiom")]
        k = r.choice(kinds)
        ed = 2 if r.random() < 0.7 else 3
        if k == "send":
            amt = E("const", U256, v=r.choice([0, 1, 1, 3, 10]))
            vs_ = [e for e in self.readable(cx, scope, U256) if e.k == "var"]
            if vs_ and r.random() < 0.3:
                amt = r.choice(vs_)
            return [S("send", hid=self.bid, e=amt)]
        if k == "rve":
            out = self.rve_idiom(cx, scope)
            if out:
                return out
            k = "assign"
        if k == "extstore":
            return [S("extstmt", fn="store", args=[self.expr(cx, scope, U256, ed)], hid=self.hid, evid=self.hev)]
        if k == "extfail":
            c = self.nonlit(cx, scope, BOOL, 1)
            if c is None:
                return []
            from vlib.c01_exthelper import FAIL_REASON
            if FAIL_REASON not in self.prog.reasons:
                self.prog.reasons.append(FAIL_REASON)
            return [S("if", c=c, th=[S("extstmt", fn="fail", args=[], rid=self.prog.reasons.index(FAIL_REASON))], el=[])]
        if k == "idiom":
            out = self.idiom(cx, scope, d)
            if out:
                return out
            k = "assign"
        if k == "copyidiom":
            out = self.copy_idiom(cx, scope, d)
            if out:
                return out
            k = "assign"
        if k == "decl":
            x = r.random()
            comp = [t for t in self.comp_types if t[0] != "struct" or True]
            t = r.choice(comp) if (comp and x < 0.25) else self.prim_type()
            if self.bytes_types and r.random() < 0.2:
                t = r.choice(self.bytes_types)
            e = self.expr(cx, scope, t, ed)
            name, vid = self.new_local(cx, t)
            scope.append((name, vid, t, True))
            return [S("assign", base=("loc", name, vid), path=[], e=e, decl=t)]
        if k == "assign":
            tg = self.all_targets(cx, scope, ed)
            if tg is None:
                return []
            base, path, t = tg
            return [S("assign", base=base, path=path, e=self.expr(cx, scope, t, ed), decl=None)]
        if k == "aug":
            for _ in range(4):
                tg = self.all_targets(cx, scope, ed)
                if tg is not None and is_int(tg[2]):
                    break
            else:
                return []
            base, path, t = tg
            op = r.choice(ARITH if "bitops" in self.feat else ARITH[:-3])
            if op in ("Div", "Mod") and r.random() < 0.7:
                e = self.lit(t, nonzero=True)
            else:
                e = self.expr(cx, scope, t, ed, nonzero_lit=True)
            return [S("aug", op=op, ty=t, base=base, path=path, e=e)]
        if k == "assert":
            c = self.nonlit(cx, scope, BOOL, 2)
            if c is None:
                return []
            if r.random() < 0.5:   # bias towards passing
                c2 = self.nonlit(cx, scope, BOOL, 1)
                if c2 is not None:
                    c = E("or", BOOL, a=c, b=E("not", BOOL, a=E("and", BOOL, a=c2, b=E("not", BOOL, a=c2.clone()))))
            if "reasons" in self.feat and r.random() < 0.5:
                rid = self.reason_id()
                return [S("assert", e=c, reason=self.prog.reasons[rid], rid=rid)]
            return [S("assert", e=c)]
        if k == "log":
            own = [j for j, (en, _f) in enumerate(self.prog.events) if not en.startswith("$")]
            if not own:
                return []
            i = r.choice(own)
            name, fields = self.prog.events[i]
            return [S("log", name=name, id=i, fields=[fn for fn, _ in fields],
                      args=[self.expr(cx, scope, ft, ed) for _, ft in fields])]
        if k == "if":
            c = self.nonlit(cx, scope, BOOL, 2)
            if c is None:
                return []
            th = self.block(cx, list(scope), r.randrange(1, 3), d - 1, last)
            el = self.block(cx, list(scope), r.randrange(1, 3), d - 1, last) if r.random() < 0.5 else []
            return [S("if", c=c, th=th, el=el)]
        if k == "for":
            return self.for_stmt(cx, scope, d)
        if k == "callstmt":
            i = r.choice(self.callable_funs(cx, None, True))
            return [S("expr", e=self.call_expr(cx, scope, i, ed))]
        if k == "append":
            tg = self.darr_target(cx, scope, ed)
            if tg is None:
                return []
            base, path, t = tg
            return [S("append", base=base, path=path, cap=t[2], e=self.expr(cx, scope, t[1], ed))]
        if k == "pop":
            tg = self.darr_target(cx, scope, ed)
            if tg is None:
                return []
            base, path, t = tg
            pop = E("pop", t[1], base=base, path=path)
            tgs = self.scalar_targets(cx, scope, lambda vt: vt == t[1])
            tgs = [x for x in tgs if x[0] != base]
            if tgs and r.random() < 0.6:
                b2, p2, _ = r.choice(tgs)
                return [S("assign", base=b2, path=p2, e=pop, decl=None)]
            return [S("expr", e=pop)]
        if k == "brk":
            c = self.nonlit(cx, scope, BOOL, 1)
            if c is None:
                return []
            return [S("if", c=c, th=[S(r.choice(["break", "continue"]))], el=[])]
        if k == "ret_if":
            c = self.nonlit(cx, scope, BOOL, 1)
            if c is None:
                return []
            if "reasons" in self.feat and r.random() < 0.2:
                rid = self.reason_id()
                return [S("if", c=c, th=[S("raisemsg", reason=self.prog.reasons[rid], rid=rid)], el=[])]
            rv = None if cx.ret is None else self.expr(cx, scope, cx.ret, 2)
            return [S("if", c=c, th=[S("return", e=rv)], el=[])]
        raise ValueError(k)

    def idiom(self, cx, scope, d):
        """copy / accumulate idioms that stress store->load forwarding, mem2var and dead-store elimination across control
        flow: a location is written from a variable and then both are used inside a loop or a branch"""
        r = self.r
        places = self.scalar_targets(cx, scope, is_int)
        places = [p for p in places if p[0][0] != "loc" or r.random() < 0.4]
        if not places:
            return None
        base, path, t = r.choice(places)
        if base[0] == "loc":
            place = E("var", t, name=base[1], id=base[2])
        elif base[0] == "sto":
            place = E("self", t, name=base[1], id=base[2])
        else:
            place = E("tra", t, name=base[1], id=base[2])
        srcs = [e for e in self.readable(cx, scope, t) if not (e.k == place.k and e.f.get("name") == place.f.get("name"))]
        out = []
        outer_scope, scope = scope, list(scope)     # commit new locals only when the idiom is emitted
        if srcs and r.random() < 0.7:
            x = r.choice(srcs)
        else:
            name, vid = self.new_local(cx, t)
            scope.append((name, vid, t, True))
            out.append(S("assign", base=("loc", name, vid), path=[], e=self.expr(cx, scope[:-1], t, 1), decl=t))
            x = E("var", t, name=name, id=vid)
        op = r.choice(["Add", "Add", "Sub", "Mul", "BXor", "BOr"] if "bitops" in self.feat else ["Add", "Add", "Sub", "Mul"])
        shape = r.choice(["store_loop_aug", "store_loop_assign", "load_loop_use", "store_if_use"])
        lname, lid = self.new_local(cx, U256)
        n = r.randrange(2, 4)
        if shape == "store_loop_aug":
            out.append(S("assign", base=base, path=[], e=x, decl=None))
            out.append(S("for", name=lname, id=lid, vty=U256, start=0, n=n,
                         body=[S("aug", op=op, ty=t, base=base, path=[], e=x.clone())]))
        elif shape == "store_loop_assign":
            out.append(S("assign", base=base, path=[], e=x, decl=None))
            a, b = (place, x.clone()) if r.random() < 0.5 else (x.clone(), place)
            out.append(S("for", name=lname, id=lid, vty=U256, start=0, n=n,
                         body=[S("assign", base=base, path=[], e=E("bin", t, op=op, a=a, b=b), decl=None)]))
        elif shape == "load_loop_use":
            yname, yid = self.new_local(cx, t)
            scope.append((yname, yid, t, True))
            out.append(S("assign", base=("loc", yname, yid), path=[], e=place, decl=t))
            out.append(S("for", name=lname, id=lid, vty=U256, start=0, n=n,
                         body=[S("aug", op=op, ty=t, base=base, path=[], e=x.clone())]))
            out.append(S("assign", base=("loc", yname, yid), path=[],
                         e=E("bin", t, op=r.choice(["Add", "BXor"]) if "bitops" in self.feat else "Add",
                             a=E("var", t, name=yname, id=yid), b=place.clone()), decl=None))
        else:
            c = self.nonlit(cx, scope, BOOL, 1)
            if c is None:
                return None
            out.append(S("assign", base=base, path=[], e=x, decl=None))
            out.append(S("if", c=c, th=[S("aug", op=op, ty=t, base=base, path=[], e=x.clone())], el=[]))
            out.append(S("aug", op=op, ty=t, base=base, path=[], e=x.clone()))
        outer_scope[:] = scope
        return out

    def rve_idiom(self, cx, scope):
        """operand order with a read of mutable state on the LEFT and a call that changes it on the RIGHT:
        `place = <state read> op self.g(..)` where g (transitively) writes what the left operand reads"""
        r = self.r
        cands = []
        for i in self.callable_funs(cx, None, True):
            f = self.prog.ints[i]
            if f.ret is None or not is_int(f.ret):
                continue
            for e in self.readable(cx, scope, f.ret):
                nm = "$balance" if e.k == "balance" else (e.f.get("name") if e.k in ("self", "tra") else None)
                if nm is not None and nm in self.writes.get(i, set()):
                    cands.append((i, e))
        if not cands:
            return None
        i, rd = r.choice(cands)
        t = rd.ty
        call = self.call_expr(cx, scope, i, 1)
        ops = ["Add", "Sub", "Mul", "Div", "Mod"] + (["BAnd", "BOr", "BXor"] if ("bitops" in self.feat and not t[2]) else [])
        k = r.choice(["bin"] * 4 + ["cmp", "minmax"])
        if k == "bin":
            e, et = E("bin", t, op=r.choice(ops), a=rd, b=call), t
        elif k == "cmp":
            e, et = E("cmp", BOOL, op=r.choice(CMPS), a=rd, b=call), BOOL
        else:
            e, et = E(r.choice(["min", "max"]), t, a=rd, b=call), t
        places = [p for p in self.scalar_targets(cx, scope, lambda x: x == et) if p[0][0] != "loc"]
        if places and r.random() < 0.6:
            base, path, _ = r.choice(places)
            return [S("assign", base=base, path=path, e=e, decl=None)]
        name, vid = self.new_local(cx, et)
        scope.append((name, vid, et, True))
        return [S("assign", base=("loc", name, vid), path=[], e=e, decl=et)]

    def shiftconst_probe_function(self, idx, slot=None):
        """`<<` / `>>` by an amount that is a constant for the optimiser: a literal, a local holding a literal, or a literal
        argument of an internal helper; amounts 0, 1, 255, 256, 257, 2**255, max; operand = argument at the type bounds /
        negative, or a literal as well"""
        r = self.r
        W = 2 ** 256
        amounts = [0, 1, 8, 255, 256, 257, 2 ** 255, W - 1]
        if slot is None:
            slot = r.randrange(1 << 16)
        n = amounts[slot % len(amounts)]
        left = (slot // len(amounts)) % 2 == 0
        t = U256 if (slot // (2 * len(amounts))) % 2 == 1 else ("int", 256, True)
        lo, hi = int_bounds(t)
        mode = r.choice(["lit", "local", "helper", "helper_const"] if "internal" in self.feat else ["lit", "local"])
        a0 = E("var", t, name="a0", id=0)
        amt = E("const", U256, v=n)
        xs = [1, 3, hi, hi - 1, lo, lo + 1, 2 ** 254] + ([-1, -8, -(2 ** 200)] if lo < 0 else [2 ** 255, 2 ** 255 + 5])
        if mode == "lit":
            body = [S("return", e=E("shift", t, left=left, a=a0, b=amt))]
        elif mode == "local":
            body = [S("assign", base=("loc", "n", 1), path=[], e=amt, decl=U256),
                    S("return", e=E("shift", t, left=left, a=a0, b=E("var", U256, name="n", id=1)))]
        else:
            gi = len(self.prog.ints)
            self.prog.ints.append(Fun(f"g{gi}", [("a0", t), ("a1", U256)], t,
                                      [S("return", e=E("shift", t, left=left, a=E("var", t, name="a0", id=0),
                                                       b=E("var", U256, name="a1", id=1)))], False))
            self.writes[gi] = set()
            x = a0 if mode == "helper" else E("const", t, v=r.choice(xs))
            body = [S("return", e=E("call", t, name=f"g{gi}", id=gi, args=[x, amt], given=None))]
        f = Fun(f"p{idx}", [("a0", t)], t, body, True)
        f.probe = t
        f.probe_calls = [[x % W] for x in (r.sample(xs, 5) if mode != "helper_const" else xs[:1])]
        return f

    def callarg_probe_function(self, idx):
        """internal call whose argument is a list literal / struct constructor / DynArray literal whose members contain
        internal calls (with parameters), optionally followed by word arguments; and nested calls in word arguments"""
        r = self.r
        p = self.prog
        W = 2 ** 256
        t = r.choice([U256, ("int", 128, False), ("int", 64, False), ("int", 8, False)])
        lo, hi = int_bounds(t)
        a0, a1 = E("var", t, name="a0", id=0), E("var", t, name="a1", id=1)

        def add_int(params, ret, body):
            gi = len(p.ints)
            p.ints.append(Fun(f"g{gi}", params, ret, body, False))
            self.writes[gi] = set()
            return gi

        def call(gi, *args):
            f = p.ints[gi]
            return E("call", f.ret, name=f.name, id=gi, args=list(args), given=None)
        x = E("var", t, name="a0", id=0)
        sc = add_int([("a0", t)], t, [S("return", e=E("bin", t, op="Add", a=E("bin", t, op="Div", a=x, b=E("const", t, v=2)), b=E("const", t, v=1)))])
        shape = r.choice(["list", "list_mixed", "struct", "dyn", "list_then_word", "nested", "call_of_call"])
        if shape in ("list", "list_mixed", "list_then_word"):
            n = r.randrange(2, 4)
            at = ("sarr", t, n)
            elems = [call(sc, a0), call(sc, a1)] + [E("const", t, v=3)] * (n - 2)
            if shape == "list_mixed":
                elems[0] = a0.clone()
            if shape == "list_then_word":
                idf = add_int([("a0", at), ("a1", t)], at, [S("return", e=E("var", at, name="a0", id=0))])
                e, ret = call(idf, E("list", at, elems=elems), a1.clone()), at
            else:
                idf = add_int([("a0", at)], at, [S("return", e=E("var", at, name="a0", id=0))])
                e, ret = call(idf, E("list", at, elems=elems)), at
        elif shape == "struct":
            st = ("struct", f"Sp{idx}", (("u", t), ("v", t)))
            p.structs.append(st)
            idf = add_int([("a0", st)], st, [S("return", e=E("var", st, name="a0", id=0))])
            e, ret = call(idf, E("list", st, elems=[call(sc, a0), call(sc, a1)])), st
        elif shape == "dyn" and "dynarrays" in self.feat:
            at = ("darr", t, 3)
            idf = add_int([("a0", at)], at, [S("return", e=E("var", at, name="a0", id=0))])
            e, ret = call(idf, E("list", at, elems=[call(sc, a0), call(sc, a1)])), at
        elif shape == "call_of_call":
            e, ret = call(sc, call(sc, call(sc, a0))), t
        else:
            h2 = add_int([("a0", t), ("a1", t)], t,
                         [S("return", e=E("bin", t, op="BXor", a=E("bin", t, op="Div", a=E("var", t, name="a0", id=0), b=E("const", t, v=2)),
                                          b=E("var", t, name="a1", id=1)))])
            e, ret = call(h2, call(sc, a0), call(h2, call(sc, a1), a0.clone())), t
        f = Fun(f"p{idx}", [("a0", t), ("a1", t)], ret, [S("return", e=e)], True)
        f.probe = t
        f.probe_calls = [[a % W, b % W] for a, b in [(2, 4), (6, 10), (hi - 1, 0), (0, hi - 1), (7, 7)]]
        return f

    def map_probe_function(self, idx):
        """write then read a HashMap element (plain or nested) at argument keys: the element's slot is checked against
        keccak256(slot ++ key) of the layout in the final-storage comparison"""
        r = self.r
        p = self.prog
        W = 2 ** 256
        kt = r.choice([U256, ("int", 128, True), ("int", 8, False), ADDR, BOOL])
        vt = r.choice([U256, self.int_type(), BOOL])
        nested = r.random() < 0.4
        k2 = r.choice([U256, ("int", 8, True)])
        mt = ("map", kt, ("map", k2, vt)) if nested else ("map", kt, vt)
        si = len(p.sto)
        p.sto.append((f"s{si}", mt))
        a0, a1, a2 = E("var", kt, name="a0", id=0), E("var", vt, name="a1", id=1), E("var", k2, name="a2", id=2)
        path = [("i", a0)] + ([("i", a2)] if nested else [])
        rd = E("idx", mt[2], a=E("self", mt, name=f"s{si}", id=si), i=a0.clone())
        if nested:
            rd = E("idx", vt, a=rd, i=a2.clone())
        f = Fun(f"p{idx}", [("a0", kt), ("a1", vt), ("a2", k2)], vt,
                [S("assign", base=("sto", f"s{si}", si), path=path, e=a1, decl=None), S("return", e=rd)], True)
        f.probe = kt

        def pick(t):
            if t == BOOL:
                return r.choice([0, 1])
            if t == ADDR:
                return r.choice([0, 1, int(DEPLOYER, 16), 2 ** 160 - 1])
            lo, hi = int_bounds(t)
            return r.choice([0, 1, 2, 3, hi, lo, -1 if lo < 0 else 7]) % W
        f.probe_calls = [[pick(kt), pick(vt) or 1, pick(k2)] for _ in range(4)]
        return f

    def index_probe_function(self, idx):
        """subscript at the boundaries: index 0, last, length, length+1, huge (and negative for a signed index type) into a
        static array / DynArray that is a parameter or a storage variable (read and write)"""
        r = self.r
        p = self.prog
        W = 2 ** 256
        et = r.choice([U256, self.int_type()])
        n = r.randrange(1, 5)
        dyn = "dynarrays" in self.feat and r.random() < 0.5
        at = ("darr", et, n) if dyn else ("sarr", et, n)
        it = r.choice([U256, U256, ("int", 8, False), ("int", 128, True)])
        kind = r.choice(["param", "sto_read", "sto_write"])
        a0, a1 = E("var", at, name="a0", id=0), E("var", it, name="a1", id=1)
        if kind == "param":
            body = [S("return", e=E("idx", et, a=a0, i=a1))]
        else:
            si = len(p.sto)
            p.sto.append((f"s{si}", at))
            sv = E("self", at, name=f"s{si}", id=si)
            body = [S("assign", base=("sto", f"s{si}", si), path=[], e=a0, decl=None)]
            if kind == "sto_write":
                body.append(S("assign", base=("sto", f"s{si}", si), path=[("i", a1)], e=E("const", et, v=1), decl=None))
            body.append(S("return", e=E("idx", et, a=sv, i=a1.clone())))
        f = Fun(f"p{idx}", [("a0", at), ("a1", it)], et, body, True)
        f.probe = it
        lo, hi = int_bounds(it)
        calls = []
        for ln in ([n] if not dyn else sorted({0, n, r.randrange(0, n + 1)})):
            arr = [r.randrange(1, 50) for _ in range(ln)]
            for ix in [0, ln - 1, ln, ln + 1, n, hi, -1 if lo < 0 else hi - 1]:
                if lo <= ix <= hi:
                    calls.append([arr, ix % W])
        f.probe_calls = calls
        return f

    def rve_probe_function(self, idx):
        """operand-order probe: `return <read of self.balance / a storage variable> op self.g(a1)` where g changes what the
        left operand reads (sends ether / writes the variable) and returns its argument"""
        r = self.r
        p = self.prog
        W = 2 ** 256
        kind = r.choice(["bal", "sto"]) if ("value" in self.feat and "balance" in self.feat) else "sto"
        gi = len(p.ints)
        if kind == "bal":
            self.ensure_bal()
            t = U256
            rd = E("balance", U256, hid=self.bid)
            eff = S("send", hid=self.bid, e=E("var", t, name="a0", id=0))
            pre = [S("credit", hid=self.bid)]
        else:
            t = self.int_type()
            si = len(p.sto)
            p.sto.append((f"s{si}", t))
            rd = E("self", t, name=f"s{si}", id=si)
            eff = S("assign", base=("sto", f"s{si}", si), path=[], e=E("var", t, name="a0", id=0), decl=None)
            pre = [S("assign", base=("sto", f"s{si}", si), path=[], e=E("var", t, name="a0", id=0), decl=None)]
        p.ints.append(Fun(f"g{gi}", [("a0", t)], t, [eff, S("return", e=E("var", t, name="a0", id=0))], False))
        self.writes[gi] = {"$balance"} if kind == "bal" else {f"s{si}"}
        call = E("call", t, name=f"g{gi}", id=gi, args=[E("var", t, name="a1", id=1)], given=None)
        ops = ["Add", "Sub", "Mul", "Div", "Mod"] + ([] if t[2] else ["BAnd", "BOr", "BXor"])
        k = r.choice(["bin"] * 5 + ["cmp"] * 2 + ["minmax"])
        if k == "bin":
            e, ret = E("bin", t, op=r.choice(ops), a=rd, b=call), t
        elif k == "cmp":
            e, ret = E("cmp", BOOL, op=r.choice(CMPS), a=rd, b=call), BOOL
        else:
            e, ret = E(r.choice(["min", "max"]), t, a=rd, b=call), t
        f = Fun(f"p{idx}", [("a0", t), ("a1", t)], ret, pre + [S("return", e=e)], True, payable=(kind == "bal"))
        lo, hi = int_bounds(t)
        f.probe = t
        if kind == "bal":
            f.probe_value = 100
            f.probe_calls = [[0, x] for x in (10, 0, 1, 100, 101, 50, 7)]
        else:
            xs = [(3, 13), (13, 3), (5, 5), (1, 0), (0, 1), (hi, 1), (1, hi), (lo, 2), (7, lo)]
            f.probe_calls = [[a % W, b % W] for a, b in r.sample(xs, 6)]
        return f

    def ext_ok(self, cx):
        return getattr(self, "use_ext", False) and not cx.is_ctor and not cx.no_calls

    def leaf_path(self, cx, scope, t, d):
        """a path from a composite type t down to an integer/bool leaf: (path, leaf type) or None"""
        r = self.r
        path = []
        for _ in range(4):
            if t[0] == "struct":
                k = r.randrange(len(t[2]))
                path.append(("f", t[2][k][0], k))
                t = t[2][k][1]
            elif t[0] == "sarr":
                path.append(("i", E("const", U256, v=r.randrange(t[2]))))
                t = t[1]
            elif t[0] == "darr":
                return None if not path else None
            else:
                break
        if t[0] in PRIMS:
            return path, t
        return None

    def read_path(self, root, path):
        e = root
        t = root.ty
        for el in path:
            if el[0] == "f":
                ft = dict((fn, ft) for fn, ft in t[2])[el[1]]
                e = E("fld", ft, a=e, name=el[1], id=el[2])
                t = ft
            else:
                e = E("idx", t[1], a=e, i=el[1].clone())
                t = t[1]
        return e

    def observe_stmt(self, cx, scope, e):
        """make the value of a primitive expression observable: log it (uint256 event) or store it"""
        r = self.r
        t = e.ty
        tgs = self.scalar_targets(cx, scope, lambda vt: vt == t)
        tgs = [x for x in tgs if x[0][0] != "loc"]
        if tgs and r.random() < 0.6:
            b, p, _ = r.choice(tgs)
            return S("assign", base=b, path=p, e=e, decl=None)
        if is_int(t) and t != U256:
            e = E("conv", U256, a=e) if (not t[2]) else E("conv", U256, a=E("bin", t, op="BAnd", a=e, b=E("const", t, v=int_bounds(t)[1])))
        elif t == BOOL:
            e = E("conv", U256, a=e)
        elif t == ADDR or t[0] in ("dec", "flag", "bytesm"):
            return S("pass")
        return S("log", name="Ev0", id=0, fields=["x"], args=[e])

    def copy_idiom(self, cx, scope, d):
        """copy-then-mutate idioms (by-value copies of arrays / structs between locals, storage, parameters and call results):
        stress copy forwarding / copy elision / mem2var in the optimiser"""
        r = self.r
        cts = [t for t in self.comp_types if t[0] in ("sarr", "struct", "darr")]
        if not cts:
            return None
        t = r.choice(cts)
        srcs = [c for c in self.containers(cx, scope) if c.ty == t]
        fs = self.callable_funs(cx, t)
        out = []
        x = r.random()
        if srcs and x < 0.65:
            y = r.choice(srcs)
        elif fs and x < 0.85:
            y = self.call_expr(cx, scope, r.choice(fs), 1)
        else:
            y = self.composite_lit(t)
        name, vid = self.new_local(cx, t)
        out.append(S("assign", base=("loc", name, vid), path=[], e=y, decl=t))
        xv = E("var", t, name=name, id=vid)
        # mutate the copy (or, half of the time, the original when it is an assignable place)
        mutate_original = y.k in ("var", "self", "tra") and r.random() < 0.5
        if y.k == "var":
            ent = [e for e in scope if e[0] == y.name]
            if not ent or not ent[0][3]:
                mutate_original = False
        if y.k in ("self", "tra") and y.name in cx.iter_locked:
            mutate_original = False
        if mutate_original:
            mbase = ("loc", y.name, y.id) if y.k == "var" else (("sto" if y.k == "self" else "tra"), y.name, y.id)
        else:
            mbase = ("loc", name, vid)
        if t[0] == "darr":
            if r.random() < 0.6:
                out.append(S("append", base=mbase, path=[], cap=t[2], e=self.expr(cx, scope, t[1], 1)))
            else:
                out.append(S("expr", e=E("pop", t[1], base=mbase, path=[])))
            obs = [E("len", U256, a=xv)]
            if y.k in ("var", "self", "tra"):
                obs.append(E("len", U256, a=y.clone()))
        else:
            lp = self.leaf_path(cx, scope, t, d)
            if lp is None:
                return None
            path, lt = lp
            out.append(S("assign", base=mbase, path=path, e=self.expr(cx, scope, lt, 1), decl=None))
            obs = [self.read_path(xv, path)]
            if y.k in ("var", "self", "tra"):
                obs.append(self.read_path(y.clone(), path))
        scope.append((name, vid, t, True))
        for e in obs:
            out.append(self.observe_stmt(cx, scope, e))
        return [s_ for s_ in out if s_.k != "pass"]

    def reason_id(self):
        r = self.r
        pool = ["no", "bad value", "x" * 31, "y" * 32, "z" * 33, "overflow?", "a reason that is longer than thirty-two bytes for sure"]
        msg = r.choice(pool)
        if msg not in self.prog.reasons:
            self.prog.reasons.append(msg)
        return self.prog.reasons.index(msg)

    def darr_target(self, cx, scope, d):
        for _ in range(6):
            tg = self.all_targets(cx, scope, d)
            if tg is not None and tg[2][0] == "darr":
                return tg
        return None

    def for_stmt(self, cx, scope, d):
        r = self.r
        x = r.random()
        inner = list(scope)
        cx.loop_depth += 1
        try:
            if "forin" in self.feat and x < 0.25:
                cs = [c for c in self.containers(cx, scope) if c.ty[0] in ("sarr", "darr") and c.ty[1][0] in PRIMS]
                if cs:
                    c = r.choice(cs)
                    name, vid = self.new_local(cx, c.ty[1])
                    inner.append((name, vid, c.ty[1], False))
                    locked = None
                    if c.k in ("self", "tra"):
                        locked = c.name
                    elif c.k == "var":
                        # a local being iterated may not be modified in the body
                        inner[:] = [(n, i, t, m and n != c.name) for (n, i, t, m) in inner]
                    if locked:
                        cx.iter_locked.add(locked)
                    try:
                        body = self.block(cx, inner, r.randrange(1, 4), d - 1, True)
                    finally:
                        if locked:
                            cx.iter_locked.discard(locked)
                    return [S("forin", name=name, id=vid, vty=c.ty[1], e=c, body=body)]
            vt = r.choice([U256, U256, U256, ("int", 128, True), ("int", 8, False), ("int", 256, True), ("int", 8, True)])
            name, vid = self.new_local(cx, vt)
            inner.append((name, vid, vt, False))
            if "fordyn" in self.feat and x < 0.45:
                bound = r.randrange(1, 6)
                cx.no_calls += 1
                try:
                    e = self.nonlit(cx, scope, vt, 1)
                finally:
                    cx.no_calls -= 1
                if e is not None:
                    if r.random() < 0.7:
                        e = E("bin", vt, op="Mod", a=e, b=E("const", vt, v=bound + 1))
                    body = self.block(cx, inner, r.randrange(1, 4), d - 1, True)
                    return [S("fordyn", name=name, id=vid, vty=vt, e=e, bound=bound, body=body)]
            n = r.randrange(1, 5)
            lo, hi = int_bounds(vt)
            start = 0 if r.random() < 0.6 else r.choice([1, 2, 5, hi - n, hi - n - 1, lo, -2 if lo < 0 else 3])
            start = max(lo, min(start, hi - n))
            body = self.block(cx, inner, r.randrange(1, 4), d - 1, True)
            return [S("for", name=name, id=vid, vty=vt, start=start, n=n, body=body)]
        finally:
            cx.loop_depth -= 1

    def block(self, cx, scope, n, d, last_ok):
        out = []
        for i in range(n):
            out += self.stmt(cx, scope, d, last_ok and i == n - 1)
        return out

    # ---------------------------------------------------------------- functions / programs
    def function(self, idx, external):
        r = self.r
        nparams = r.randrange(0, 4 if external else 3)
        ptys = []
        for _ in range(nparams):
            if self.comp_types and not external and r.random() < 0.25:
                ptys.append(r.choice(self.comp_types))
            elif self.comp_types and external and r.random() < 0.15:
                ptys.append(r.choice(self.comp_types))
            elif self.bytes_types and r.random() < 0.15:
                ptys.append(r.choice(self.bytes_types))
            else:
                ptys.append(self.prim_type())
        x = r.random()
        if self.bytes_types and x < 0.1:
            ret = r.choice(self.bytes_types)
        elif x < 0.2:
            ret = None
        elif x < 0.35 and self.comp_types:
            ret = r.choice(self.comp_types)
        else:
            ret = self.prim_type()
        payable = external and "value" in self.feat and r.random() < 0.3
        cx = Ctx(idx, external, ret, payable)
        scope = []
        params = []
        for t in ptys:
            name = f"a{cx.next_id}"
            scope.append((name, cx.next_id, t, not external))
            params.append((name, t))
            cx.next_id += 1
        n = max(1, int(self.size * (r.randrange(2, 7) if external else r.randrange(1, 4))))
        body = self.block(cx, scope, n, 2 if external else 1, False)
        if ret is not None:
            body.append(S("return", e=self.expr(cx, scope, ret, 2)))
        if payable and getattr(self, "use_bal", False):
            body.insert(0, S("credit", hid=self.bid))
        name = f"f{idx}" if external else f"g{idx}"
        defaults = {}
        if "defaults" in self.feat and params and r.random() < 0.3:
            k = r.randrange(1, len(params) + 1)
            for i in range(len(params) - k, len(params)):
                if params[i][1][0] not in ("int", "bool", "addr", "dec"):      # a flag default must be a single literal member
                    defaults = {}
                    break
                defaults[i] = self.lit(params[i][1])
            # defaults must form a suffix
            if defaults and sorted(defaults) != list(range(len(params) - len(defaults), len(params))):
                defaults = {}
        return Fun(name, params, ret, body, external, payable, defaults=defaults)

    def bytes_probe_function(self, idx):
        """slice / concat / equality of Bytes on the arguments, called at the boundaries (exact end, one past the end, empty)"""
        r = self.r
        n = r.choice([1, 5, 31, 32, 33, 40, 64, 65])
        bk = r.choice(["bytes", "bytes", "string"]) if "strings" in self.feat else "bytes"
        bt = (bk, n)
        kind = r.choice(["slice", "slice", "slice_lit", "concat", "eq"])
        a0 = E("var", bt, name="a0", id=0)
        if kind == "slice":
            f = Fun(f"p{idx}", [("a0", bt), ("a1", U256), ("a2", U256)], bt,
                    [S("return", e=E("slice", bt, a=a0, start=E("var", U256, name="a1", id=1), ln=E("var", U256, name="a2", id=2)))], True)
        elif kind == "slice_lit":
            ln = r.randrange(1, n + 1)
            f = Fun(f"p{idx}", [("a0", bt), ("a1", U256)], (bk, ln),
                    [S("return", e=E("slice", (bk, ln), a=a0, start=E("var", U256, name="a1", id=1), ln=E("const", U256, v=ln)))], True)
            f.lit_len = ln
        elif kind == "concat":
            m = r.choice([1, 2, 31, 32, 33])
            f = Fun(f"p{idx}", [("a0", bt), ("a1", (bk, m))], (bk, n + m),
                    [S("return", e=E("concat", (bk, n + m), a=a0, b=E("var", (bk, m), name="a1", id=1)))], True)
        else:
            f = Fun(f"p{idx}", [("a0", bt), ("a1", bt)], BOOL,
                    [S("return", e=E("cmp", BOOL, op=r.choice(["Eq", "Ne"]), a=a0, b=E("var", bt, name="a1", id=1)))], True)
        f.bprobe = (kind, n)
        f.bkind = bk
        return f

    def bytes_probe_calls(self, f):
        r = self.r
        kind, n = f.bprobe

        def rb(k):
            return self.rand_bytes(k, getattr(f, "bkind", "bytes"))
        out = []
        if kind == "slice":
            for ln_a in sorted({0, 1, n, max(n - 1, 0), min(32, n), min(33, n)}):
                a = rb(ln_a)
                for (s0, l0) in [(0, ln_a), (ln_a, 0), (ln_a // 2, ln_a - ln_a // 2), (0, ln_a + 1), (1, ln_a), (ln_a + 1, 0), (2 ** 256 - 1, 2)]:
                    if r.random() < 0.6:
                        out.append([a, s0, l0])
        elif kind == "slice_lit":
            ln = f.lit_len
            for ln_a in sorted({ln, min(ln + 1, n), n, max(ln - 1, 0)}):
                a = rb(ln_a)
                for s0 in [0, ln_a - ln, ln_a - ln + 1, 1]:
                    if s0 >= 0 and r.random() < 0.8:
                        out.append([a, s0])
        elif kind == "concat":
            m = f.params[1][1][1]
            for la in sorted({0, 1, n, min(31, n), min(32, n)}):
                for lb in sorted({0, m, 1}):
                    if r.random() < 0.6:
                        out.append([rb(la), rb(lb)])
        else:
            a = rb(n)
            out += [[a, a], [a, a[:-1]], [a[:-1] + (b"#" if a[-1:] != b"#" else b"$"), a], [b"", b""], [rb(min(n, 33)), rb(min(n, 33))]]
        r.shuffle(out)
        return out[:6]

    def table_probe_function(self, idx, slot):
        """systematic operator coverage: entry `slot` of the table (binary/aug/compare operator) x (type class); a run with
        24 programs x 4 such probes walks through the whole table, whatever the seed"""
        r = self.r
        table = [(k, op) for k in ("bin", "aug") for op in ["Add", "Sub", "Mul", "Div", "Mod", "BAnd", "BOr", "BXor"]] + \
                [("cmp", op) for op in CMPS]
        classes = ["u256", "i256", "usmall", "ssmall"]
        kind, op = table[(slot // len(classes)) % len(table)]
        cls = classes[slot % len(classes)]
        t = {"u256": U256, "i256": ("int", 256, True),
             "usmall": r.choice([("int", 8, False), ("int", 64, False), ("int", 128, False), ("int", 248, False)]),
             "ssmall": r.choice([("int", 8, True), ("int", 40, True), ("int", 128, True)])}[cls]
        lo, hi = int_bounds(t)
        a0, a1 = E("var", t, name="a0", id=0), E("var", t, name="a1", id=1)
        if kind == "cmp":
            f = Fun(f"p{idx}", [("a0", t), ("a1", t)], BOOL, [S("return", e=E("cmp", BOOL, op=op, a=a0, b=a1))], True)
        elif kind == "bin":
            f = Fun(f"p{idx}", [("a0", t), ("a1", t)], t, [S("return", e=E("bin", t, op=op, a=a0, b=a1))], True)
        else:
            f = Fun(f"p{idx}", [("a0", t), ("a1", t)], t,
                    [S("assign", base=("loc", "x", 2), path=[], e=a0, decl=t),
                     S("aug", op=op, ty=t, base=("loc", "x", 2), path=[], e=a1),
                     S("return", e=E("var", t, name="x", id=2))], True)
        W = 2 ** 256
        x = r.choice([1, 2, 3, 5, 7, 100, hi // 3])
        special = [(x, 0), (0, x), (hi, 1), (hi, hi), (lo, 1), (lo, -1 if lo < 0 else hi), (x, x), (x, x + 1), (x + 1, x),
                   (hi - 1, 1), (hi // 2 + 1, 2), (-x if lo < 0 else x, 3), (7, -2 if lo < 0 else 2), (-7 if lo < 0 else 7, 2)]
        f.probe = t
        f.probe_calls = [[min(max(a, lo), hi) % W, min(max(b, lo), hi) % W] for a, b in special]
        return f

    def probe_function(self, idx):
        """a tiny external function exercising ONE operator at ONE type on its arguments (systematic operator coverage;
        the random programs cover the interplay)"""
        r = self.r
        t = self.int_type()
        a0 = E("var", t, name="a0", id=0)
        a1 = E("var", t, name="a1", id=1)
        kind = r.choice(["cmp"] * 4 + ["arith"] * 4 + ["lit"] * 3 + ["minmax", "neg", "conv", "aug", "boolop"])
        ret = t
        if kind == "cmp":
            ret, e = BOOL, E("cmp", BOOL, op=r.choice(CMPS), a=a0, b=a1)
        elif kind == "arith":
            e = E("bin", t, op=r.choice(ARITH), a=a0, b=a1)
        elif kind == "lit":
            op = r.choice(ARITH + CMPS)
            lit = self.lit(t, nonzero=True)
            if r.random() < 0.5 and op not in ("Div", "Mod"):
                a, b = lit, a0
            else:
                a, b = a0, lit
            if op in CMPS:
                ret, e = BOOL, E("cmp", BOOL, op=op, a=a, b=b)
            else:
                e = E("bin", t, op=op, a=a, b=b)
        elif kind == "minmax":
            e = E(r.choice(["min", "max"]), t, a=a0, b=a1)
        elif kind == "neg" and t[2]:
            e = E("neg", t, a=a0)
        elif kind == "conv":
            t2 = self.int_type()
            if t2 == t:
                t2 = BOOL
            ret, e = t2, E("conv", t2, a=a0)
        elif kind == "boolop":
            c1 = E("cmp", BOOL, op=r.choice(CMPS), a=a0, b=self.lit(t))
            c2 = E("cmp", BOOL, op=r.choice(CMPS), a=a1, b=self.lit(t))
            ret, e = BOOL, E(r.choice(["and", "or"]), BOOL, a=c1, b=c2 if r.random() < 0.7 else E("not", BOOL, a=c2))
        else:
            # aug-assignment through a local
            op = r.choice(ARITH)
            f = Fun(f"p{idx}", [("a0", t), ("a1", t)], t,
                    [S("assign", base=("loc", "x", 2), path=[], e=a0, decl=t),
                     S("aug", op=op, ty=t, base=("loc", "x", 2), path=[], e=a1),
                     S("return", e=E("var", t, name="x", id=2))], True)
            f.probe = t
            return f
        f = Fun(f"p{idx}", [("a0", t), ("a1", t)], ret, [S("return", e=e)], True)
        f.probe = t
        return f

    def feature_probe_function(self, idx, force=None):
        """one operator of a newer language feature on the arguments, called at its boundaries: shifts, `**`, flags, decimals"""
        r = self.r
        W = 2 ** 256
        kinds = []
        if "shifts" in self.feat:
            kinds += ["shift"] * 2
        if "pow" in self.feat:
            kinds += ["pow_exp", "pow_base"] * 2
        if self.flag_types:
            kinds += ["flag"] * 4
        if "decimals" in self.feat:
            kinds += ["dec"] * 2
        if not kinds:
            return None
        kind = force or r.choice(kinds)
        if kind == "shift":
            t = r.choice([U256, ("int", 256, True)])
            lo, hi = int_bounds(t)
            left = r.random() < 0.5
            f = Fun(f"p{idx}", [("a0", t), ("a1", U256)], t,
                    [S("return", e=E("shift", t, left=left, a=E("var", t, name="a0", id=0), b=E("var", U256, name="a1", id=1)))], True)
            xs = [1, 3, hi, hi - 1, lo, lo + 1, hi // 2 + 1, (-1 if lo < 0 else 2), (-8 if lo < 0 else 8), 2 ** 254]
            ys = [0, 1, 7, 8, 254, 255, 256, 257, 2 ** 255]
            f.probe_calls = [[r.choice(xs) % W, r.choice(ys)] for _ in range(7)]
        elif kind == "pow_exp":
            t = self.int_type()
            lo, hi = int_bounds(t)
            e_ = r.choice([0, 1, 2, 2, 3, 4, 5])
            f = Fun(f"p{idx}", [("a0", t)], t,
                    [S("return", e=E("bin", t, op="Pow", a=E("var", t, name="a0", id=0), b=E("const", t, v=e_)))], True)
            root = 1
            if e_ >= 1:
                a_, b_ = 0, hi          # largest root with root ** e_ <= hi (binary search)
                while a_ < b_:
                    mid = (a_ + b_ + 1) // 2
                    if mid ** e_ <= hi:
                        a_ = mid
                    else:
                        b_ = mid - 1
                root = a_
            xs = [0, 1, 2, root, root + 1, root - 1, hi] + ([-1, -2, -root, -root - 1, -root + 1, lo] if lo < 0 else [])
            f.probe_calls = [[min(max(x, lo), hi) % W] for x in r.sample(xs, min(6, len(xs)))]
        elif kind == "pow_base":
            t = self.int_type()
            lo, hi = int_bounds(t)
            base = r.choice([2, 2, 3, 5, 10] + ([-2, -3] if lo < 0 else []))
            if not (lo <= base <= hi):
                base = 2
            x = E("var", t, name="a0", id=0)
            ex = E("max", t, a=x, b=E("const", t, v=0)) if lo < 0 else x
            f = Fun(f"p{idx}", [("a0", t)], t, [S("return", e=E("bin", t, op="Pow", a=E("const", t, v=base), b=ex))], True)
            m = 0
            while abs(base) ** (m + 1) <= hi:
                m += 1
            xs = [0, 1, m, m + 1, m - 1, m + 2, hi]
            f.probe_calls = [[min(max(x_, lo), hi) % W] for x_ in r.sample(xs, 6)]
        elif kind == "flag":
            ft = r.choice(self.flag_types)
            n = ft[2]
            a0, a1 = E("var", ft, name="a0", id=0), E("var", ft, name="a1", id=1)
            member = E("const", ft, v=1 << r.randrange(n))
            sub = r.choice(["not", "not", "or", "and", "xor", "in", "notin", "member_in", "member_in", "member_or", "eq"])
            if sub == "not":
                ret, e = ft, E("flagnot", ft, a=a0)
            elif sub in ("or", "and", "xor"):
                ret, e = ft, E("bin", ft, op={"or": "BOr", "and": "BAnd", "xor": "BXor"}[sub], a=a0, b=a1)
            elif sub in ("in", "notin"):
                ret, e = BOOL, E("flagin", BOOL, neg=(sub == "notin"), a=a0, b=a1)
            elif sub == "member_in":
                ret, e = BOOL, E("flagin", BOOL, neg=False, a=member, b=a0)
            elif sub == "member_or":
                ret, e = ft, E("bin", ft, op="BOr", a=a0, b=E("const", ft, v=(1 << r.randrange(n)) | (1 << r.randrange(n))))
            else:
                ret, e = BOOL, E("cmp", BOOL, op=r.choice(["Eq", "Ne"]), a=a0, b=a1)
            f = Fun(f"p{idx}", [("a0", ft), ("a1", ft)], ret, [S("return", e=e)], True)
            top = 2 ** n
            f.probe_calls = [[r.randrange(top), r.randrange(top)] for _ in range(5)] + [[top - 1, 0], [0, 0], [top, 1]]
        else:
            t = DEC
            lo, hi = int_bounds(t)
            a0, a1 = E("var", t, name="a0", id=0), E("var", t, name="a1", id=1)
            sub = r.choice(["mul", "div", "mod", "add", "toint", "floor", "ceil", "fromint", "cmp"])
            I256 = ("int", 256, True)
            if sub in ("mul", "div", "mod", "add"):
                ret, e = t, E("bin", t, op={"mul": "DMul", "div": "DDiv", "mod": "Mod", "add": "Add"}[sub], a=a0, b=a1)
                params = [("a0", t), ("a1", t)]
            elif sub == "toint":
                it = self.int_type()
                ret, e, params = it, E("dec", it, mode="FromDec", a=a0), [("a0", t)]
            elif sub in ("floor", "ceil"):
                ret, e, params = I256, E("dec", I256, mode="Floor" if sub == "floor" else "Ceil", a=a0), [("a0", t)]
            elif sub == "fromint":
                it = self.int_type()
                ret, e, params = t, E("dec", t, mode="ToDec", a=E("var", it, name="a0", id=0)), [("a0", it)]
            else:
                ret, e, params = BOOL, E("cmp", BOOL, op=r.choice(CMPS), a=a0, b=a1), [("a0", t), ("a1", t)]
            f = Fun(f"p{idx}", params, ret, [S("return", e=e)], True)
            sc = DEC_SCALE

            def dv():
                return r.choice([0, 1, -1, sc, -sc, sc + 1, 15 * sc // 10, -15 * sc // 10, 3 * sc, 7, -7, sc // 3, hi, lo, hi - 1,
                                 255 * sc, 256 * sc, 128 * sc, -129 * sc, r.randrange(-10 ** 14, 10 ** 14)])
            calls = []
            for _ in range(7):
                row = []
                for (_n, pt) in params:
                    if pt == t:
                        row.append(dv() % W)
                    else:
                        plo, phi = int_bounds(pt)
                        row.append(r.choice([0, 1, phi, plo, 5, hi // sc, hi // sc + 1, lo // sc, lo // sc - 1, -3 if plo < 0 else 3]) % W
                                   if True else 0)
                        row[-1] = min(max(row[-1] if row[-1] < 2 ** 255 else row[-1] - W, plo), phi) % W
                calls.append(row)
            f.probe_calls = calls
        f.probe = f.params[0][1]
        return f

    def narrow_probe_function(self, idx, slot=None):
        """range-narrowed arithmetic: operands narrowed by %, &, min, a comparison guard or an assert, then + - * on them, with
        inputs at the narrowing boundaries (stresses range analysis / overflow-check elimination in the optimiser)"""
        r = self.r
        t = r.choice([U256, U256, ("int", 128, False), ("int", 64, False), ("int", 256, True), ("int", 128, True), ("int", 8, False)])
        if slot is not None and slot % 2 == 0:
            t = U256
        lo, hi = int_bounds(t)
        a0 = E("var", t, name="a0", id=0)
        a1 = E("var", t, name="a1", id=1)

        def lim():
            return min(r.choice([2, 3, 10, 50, 100, 128, 255, 256, 1000]), hi)

        def narrow(x, L):
            k = r.choice(["mod", "mod", "and", "min", "none"]) if slot is None else ["mod", "and", "min"][(slot // 2) % 3]
            if k == "mod":
                return E("bin", t, op="Mod", a=x, b=E("const", t, v=L))
            if k == "and" and lo == 0:
                m = 1
                while m * 2 <= L:
                    m *= 2
                return E("bin", t, op="BAnd", a=x, b=E("const", t, v=max(m - 1, 1)))
            if k == "min":
                return E("min", t, a=x, b=E("const", t, v=L))
            return x
        L1, L2 = lim(), lim()
        op = r.choice(["Sub", "Sub", "Sub", "Add", "Mul"])
        shape = r.choice(["expr", "expr", "assert", "if"])
        if slot is not None:
            # systematic part: (operator) x (which operand has the larger bound) x (how the range is established)
            op = ["Sub", "Sub", "Add", "Mul"][slot % 4]
            if ((slot // 4) % 2 == 0) != (L1 >= L2):
                L1, L2 = L2, L1
            shape = ["expr", "assert", "if"][(slot // 8) % 3]
        if shape == "expr":
            body = [S("return", e=E("bin", t, op=op, a=narrow(a0, L1), b=narrow(a1, L2)))]
        elif shape == "assert":
            body = [S("assert", e=E("cmp", BOOL, op="Lt", a=a0, b=E("const", t, v=L1))),
                    S("assert", e=E("cmp", BOOL, op=r.choice(["Lt", "Le"]), a=a1, b=E("const", t, v=L2))),
                    S("return", e=E("bin", t, op=op, a=a0, b=a1))]
        else:
            body = [S("if", c=E("and", BOOL, a=E("cmp", BOOL, op="Lt", a=a0, b=E("const", t, v=L1)),
                                b=E("cmp", BOOL, op="Le", a=a1, b=E("const", t, v=L2))),
                      th=[S("return", e=E("bin", t, op=op, a=a0, b=a1))], el=[]),
                    S("return", e=E("bin", t, op=op, a=narrow(a0, L1), b=narrow(a1, L2)))]
        f = Fun(f"p{idx}", [("a0", t), ("a1", t)], t, body, True)
        f.probe = t
        W = 2 ** 256
        cands = sorted({0, 1, L1 - 1, L1, L1 + 1, L2 - 1, L2, L2 + 1, 2 * L1 + 1, L1 + L2, hi, hi - 1, max(lo, -1), max(lo, -L1), lo})
        cands = [c for c in cands if lo <= c <= hi]
        calls = []
        for _ in range(7):
            a, b = r.choice(cands), r.choice(cands)
            calls.append([a % W, b % W])
        calls.append([(L1 - 1 if L1 - 1 <= hi else 0) % W, (L2 - 1) % W])      # narrowed a < narrowed b when L1 < L2
        calls.append([1 % W, (L2 - 1) % W])
        calls.append([0, (L2 - 1) % W])
        f.probe_calls = calls
        return f

    def constfold_probe_function(self, idx):
        """operands that become constants only inside the optimiser: local variables holding literals, and literal arguments of
        an internal helper (inlined at -O3); signed // and % with negative operands included"""
        r = self.r
        t = r.choice([("int", 256, True), ("int", 128, True), ("int", 8, True), ("int", 64, True), U256, ("int", 8, False)])
        lo, hi = int_bounds(t)

        def cv():
            v = r.choice([1, 2, 3, 7, 10, 100, hi, hi - 1] + ([-1, -2, -3, -7, -10, lo, lo + 1] if lo < 0 else []))
            return min(max(v, lo), hi)
        op = r.choice(["Div", "Mod", "Div", "Mod", "Mul", "Add", "Sub", "cmp", "min"])
        x, y = cv(), cv()

        def fits(x, y):
            # venom rejects a program whose assertion provably always fails (StaticAssertionException): keep the
            # constant computation inside the type
            if op == "Div":
                q = abs(x) // abs(y) * (1 if (x < 0) == (y < 0) else -1)
                return lo <= q <= hi
            v = {"Mul": x * y, "Add": x + y, "Sub": x - y}.get(op, 0)
            return lo <= v <= hi
        for _ in range(20):
            if fits(x, y):
                break
            x, y = cv(), cv()
        else:
            x, y = 1, 1

        def mk(a, b):
            if op == "cmp":
                return E("cmp", BOOL, op=r.choice(CMPS), a=a, b=b)
            if op == "min":
                return E(r.choice(["min", "max"]), t, a=a, b=b)
            return E("bin", t, op=op, a=a, b=b)
        ret = BOOL if op == "cmp" else t
        if r.random() < 0.5 and "internal" in self.feat:
            # helper(a, b) called with literal arguments
            hi_ = len(self.prog.ints)
            pa, pb = E("var", t, name="a0", id=0), E("var", t, name="a1", id=1)
            self.prog.ints.append(Fun(f"g{hi_}", [("a0", t), ("a1", t)], ret, [S("return", e=mk(pa, pb))], False))
            self.writes[hi_] = set()
            call = E("call", ret, name=f"g{hi_}", id=hi_, args=[E("const", t, v=x), E("const", t, v=y)])
            body = [S("return", e=call)]
        else:
            body = [S("assign", base=("loc", "ca", 0), path=[], e=E("const", t, v=x), decl=t),
                    S("assign", base=("loc", "cb", 1), path=[], e=E("const", t, v=y), decl=t),
                    S("return", e=mk(E("var", t, name="ca", id=0), E("var", t, name="cb", id=1)))]
        f = Fun(f"p{idx}", [], ret, body, True)
        f.probe = t
        f.probe_calls = [[]]
        return f

    def probe_args(self, t):
        """three argument pairs: a < b, a > b, a == b, around small values and the type's boundaries"""
        r = self.r
        lo, hi = int_bounds(t)
        W = 2 ** 256

        def pick():
            x = r.random()
            if x < 0.45:
                return r.choice([0, 1, 2, 3, 4, 5, 7, 8, 9, 16, 100])
            if x < 0.6 and lo < 0:
                return -r.choice([1, 2, 3, 7, 8, 100])
            if x < 0.85:
                return r.choice([hi, hi - 1, lo, lo + 1, hi // 2, hi // 2 + 1, lo // 2])
            return r.randrange(lo, hi + 1)
        out = []
        for rel in ("lt", "gt", "eq"):
            a, b = min(max(pick(), lo), hi), min(max(pick(), lo), hi)
            if rel == "eq":
                b = a
            elif a == b:
                b = a + 1 if a < hi else a - 1
            if (rel == "lt") != (a < b) and rel != "eq":
                a, b = b, a
            out.append([a % W, b % W])
        return out

    def ctor_function(self):
        """@deploy __init__(args): ordinary statements on storage, then every immutable is assigned exactly once"""
        r = self.r
        cx = Ctx(0, True, None, False)
        cx.is_ctor = True
        scope, params = [], []
        for _ in range(r.randrange(0, 3)):
            t = self.prim_type()
            name = f"a{cx.next_id}"
            scope.append((name, cx.next_id, t, False))
            params.append((name, t))
            cx.next_id += 1
        body = self.block(cx, scope, r.randrange(1, 4), 1, False)
        for i, (name, t) in enumerate(self.prog.sto):
            if name in self.prog.imm:
                body.append(S("assign", base=("sto", name, i), path=[], e=self.expr(cx, scope, t, 2), decl=None))
        f = Fun("__init__", params, None, body, True)
        f.deploy = True
        return f

    def compute_writes(self, i, f):
        """storage/transient names function i may modify (transitively through callees)"""
        from vlib.c01_ast import e_children, s_exprs, s_blocks
        w = set()

        def ve(e):
            if e.k == "call":
                w.update(self.writes.get(e.id, set()))
            if e.k == "pop" and e.base[0] != "loc":
                w.add(e.base[1])
            for c in e_children(e):
                ve(c)

        def vs(s):
            if s.k in ("assign", "aug", "append") and s.base[0] != "loc":
                w.add(s.base[1])
            if s.k == "send":
                w.add("$balance")
            for e in s_exprs(s):
                ve(e)
            for b in s_blocks(s):
                for x in b:
                    vs(x)
        for s in f.body:
            vs(s)
        self.writes[i] = w

    def program(self):
        r = self.r
        p = Program()
        self.prog = p
        self.writes = {}
        self.comp_types = []
        po = self.probe_only
        self.use_dec = "decimals" in self.feat and (r.random() < 0.25 or po)
        self.bytesm_types = [("bytesm", r.choice([1, 4, 8, 20, 31, 32]))] if ("bytesm" in self.feat and r.random() < 0.25) else []
        self.flag_types = []
        if "flags" in self.feat and (r.random() < 0.3 or po):
            self.flag_types = [("flag", "Fl0", r.choice([1, 2, 3, 8, 16]))]
            p.flags = list(self.flag_types)
        if "structs" in self.feat and r.random() < 0.5:
            nf = r.randrange(1, 4)
            st = ("struct", "St0", tuple((f"m{k}", self.prim_type()) for k in range(nf)))
            p.structs.append(st)
            self.comp_types.append(st)
        if "arrays" in self.feat and r.random() < 0.6:
            for _ in range(r.randrange(1, 3)):
                et = r.choice([self.elem_type(), self.elem_type()] + [t for t in self.comp_types if t[0] == "struct"])
                self.comp_types.append(("sarr", et, r.randrange(1, 4)))
        if "dynarrays" in self.feat and r.random() < 0.6:
            for _ in range(r.randrange(1, 3)):
                et = r.choice([self.elem_type(), self.elem_type()] + [t for t in self.comp_types if t[0] == "struct"])
                self.comp_types.append(("darr", et, r.randrange(1, 5)))
        if "arrays" in self.feat and self.comp_types and r.random() < 0.2:
            inner = r.choice([t for t in self.comp_types])
            if inner[0] in ("sarr", "darr") and inner[1][0] != "struct":
                self.comp_types.append(("sarr", inner, 2))
        if "structs" in self.feat and self.comp_types and r.random() < 0.25:
            arrs = [t for t in self.comp_types if t[0] in ("sarr", "darr") and t[1][0] != "struct"]
            if arrs:
                st = ("struct", "St1", (("n0", self.prim_type()), ("n1", r.choice(arrs))))
                p.structs.append(st)
                self.comp_types.append(st)
        self.bytes_types = []
        self.bkind = "string" if ("strings" in self.feat and r.random() < 0.35) else "bytes"
        if "bytes" in self.feat and r.random() < 0.45:
            self.bytes_types = sorted({(self.bkind, r.choice([1, 3, 8, 31, 32, 33, 40, 64, 70])) for _ in range(r.randrange(1, 3))})
        nev = r.randrange(1, 3)
        for i in range(nev):
            if i == 0:
                p.events.append(("Ev0", [("x", U256)]))
            else:
                p.events.append((f"Ev{i}", [(f"x{k}", self.prim_type()) for k in range(r.randrange(0, 3))]))
        if self.bytes_types and r.random() < 0.6:
            p.events.append((f"Ev{len(p.events)}", [("b", r.choice(self.bytes_types)), ("n", U256)]))
        for i in range(r.randrange(1, 5)):
            t = r.choice(self.comp_types) if (self.comp_types and r.random() < 0.4) else self.prim_type()
            if self.bytes_types and r.random() < 0.25:
                t = r.choice(self.bytes_types)
            p.sto.append((f"s{i}", t))
        if "maps" in self.feat and r.random() < 0.45:
            for _ in range(r.randrange(1, 3)):
                kt = r.choice([U256, U256, ("int", 128, True), ("int", 8, False), BOOL, ADDR, self.int_type()])
                x = r.random()
                if x < 0.5 or not self.comp_types:
                    vt = self.prim_type()
                elif x < 0.8:
                    vt = r.choice(self.comp_types)
                else:
                    vt = ("map", r.choice([U256, ("int", 8, True), BOOL]), self.prim_type())
                p.sto.append((f"s{len(p.sto)}", ("map", kt, vt)))
        if "transient" in self.feat and r.random() < 0.4:
            for i in range(r.randrange(1, 3)):
                t = r.choice(self.comp_types) if (self.comp_types and r.random() < 0.3) else self.prim_type()
                p.tra.append((f"t{i}", t))
        if "ctor" in self.feat and r.random() < 0.4 and not po:
            prims = [name for name, t in p.sto if t[0] in PRIMS and not name.startswith("$")]
            r.shuffle(prims)
            p.imm = set(prims[:r.randrange(0, 3)])
            want_ctor = True
        else:
            want_ctor = False
        self.use_ext = "extcalls" in self.feat and r.random() < 0.3 and not po
        self.use_bal = False
        self.bal_random = False      # self.balance / send in the random part (the probes use them anyway)
        if "balance" in self.feat and "value" in self.feat:
            self.ensure_bal()        # before any function is generated: every payable function credits msg.value
            self.bal_random = r.random() < 0.3 and not po
        if self.use_ext:
            p.uses_ext = True
            self.hid = len(p.sto)
            p.sto.append(("$hstored", U256))           # the scripted callee's state word (hidden from the source text)
            self.hev = len(p.events)
            p.events.append(("$Called", [("sender", ADDR), ("x", U256)]))
            if ("darr", U256, 4) not in self.comp_types and "dynarrays" in self.feat and r.random() < 0.5:
                self.comp_types.append(("darr", U256, 4))
        nint = r.randrange(0, 4) if ("internal" in self.feat and not po) else 0
        for i in range(nint):
            f = self.function(i, False)
            p.ints.append(f)
            self.compute_writes(i, f)
        for i in range(0 if po else r.randrange(1, 4)):
            p.exts.append(self.function(i, True))
        if want_ctor:
            p.ctor = self.ctor_function()
        if "probes" in self.feat or po:
            m = 2 if po else 1
            for _ in range(2 * m):
                p.exts.append(self.probe_function(len(p.exts)))
            if self.index is not None:
                nt = self.TABLE_PER_PROBE_PROGRAM if po else 4
                for k in range(nt):
                    p.exts.append(self.table_probe_function(len(p.exts), self.index * nt + k))
            if "bytes" in self.feat and (self.bytes_types or r.random() < 0.3 or po):
                for _ in range(m):
                    p.exts.append(self.bytes_probe_function(len(p.exts)))
            if "internal" in self.feat:
                for _ in range(3 if po else 1):
                    p.exts.append(self.rve_probe_function(len(p.exts)))
            if "arrays" in self.feat:
                for _ in range(3 if po else 1):
                    p.exts.append(self.index_probe_function(len(p.exts)))
            if "maps" in self.feat:
                for _ in range(3 if po else 1):
                    p.exts.append(self.map_probe_function(len(p.exts)))
            if "internal" in self.feat and "arrays" in self.feat and "structs" in self.feat:
                for _ in range(4 if po else 1):
                    p.exts.append(self.callarg_probe_function(len(p.exts)))
            if "shifts" in self.feat:
                ns = 8 if po else 1      # 4 probe-only programs x 8 = the whole (amount x direction x signedness) table
                for k in range(ns):
                    p.exts.append(self.shiftconst_probe_function(len(p.exts), None if self.index is None else self.index * ns + k))
            for k in range(6 if po else 1):      # 4 probe-only programs x 6 = the whole (op x bound order x shape) table
                p.exts.append(self.narrow_probe_function(len(p.exts), (self.index * 6 + k) if (po and self.index is not None) else None))
            for _ in range(m):
                p.exts.append(self.constfold_probe_function(len(p.exts)))
            for _ in range(3 if po else 1):
                fp = self.feature_probe_function(len(p.exts))
                if fp is not None:
                    p.exts.append(fp)
            if self.flag_types:
                for _ in range(2):
                    p.exts.append(self.feature_probe_function(len(p.exts), force="flag"))
            if self.use_dec:
                p.exts.append(self.feature_probe_function(len(p.exts), force="dec"))
        return p

    TABLE_PER_PROBE_PROGRAM = 22       # 4 probe-only programs walk through the whole 88-entry operator table

    # ---------------------------------------------------------------- calls
    def arg_word(self, t):
        """raw ABI word for a primitive parameter; mostly small, sometimes boundary, rarely out of range"""
        r = self.r
        W = 2 ** 256
        if t[0] == "bool":
            x = r.random()
            return 2 if x < 0.03 else int(x < 0.5)
        if t[0] == "bytesm":
            top = 2 ** (8 * t[1])
            if t[1] < 32 and r.random() < 0.06:
                return ("raw", (r.randrange(top) << (8 * (32 - t[1]))) | 1)      # dirty low byte
            return r.choice([0, 1, top - 1, r.randrange(top)])
        if t[0] == "flag":
            return r.randrange(0, 2 ** t[2]) if r.random() > 0.06 else r.choice([2 ** t[2], 2 ** 255])
        if t[0] == "addr":
            return r.choice([0, 1, int(SENDER2, 16), 2 ** 160 - 1]) if r.random() > 0.03 else 2 ** 160
        lo, hi = int_bounds(t)
        x = r.random()
        if t[0] == "dec" and x < 0.6:
            v = r.choice([0, 1, 2, 3, -1, 10]) * DEC_SCALE + r.choice([0, 5 * 10 ** 9, 1])
        elif x < 0.6:
            v = r.choice([0, 1, 1, 2, 2, 3, 4, 5, 6, 7, 8, 9, 10, 11, 20, 50])
        elif x < 0.7 and lo < 0:
            v = -r.choice([1, 2, 3, 5, 10])
        elif x < 0.85:
            v = r.choice([hi, lo, hi - 1, lo + 1, hi // 2])
        elif x < 0.96 or t[1] == 256:
            v = r.randrange(lo, hi + 1)
        else:
            v = r.choice([hi + 1, lo - 1, 2 ** 255, 2 ** 256 - 1 if lo == 0 else 2 ** 255 - 1, hi + 256])
        return v % W

    def arg_tree(self, t):
        if t[0] in BL:
            r = self.r
            ln = r.choice([0, 1, 2, 5, 31, 32, 33, t[1], t[1], t[1] + (1 if r.random() < 0.15 else 0)])
            ln = min(ln, t[1] + 1)
            return self.rand_bytes(ln, t[0])
        if t[0] in PRIMS:
            w = self.arg_word(t)
            if t[0] == "bool":
                return bool(w & 1)
            if t[0] == "addr":
                return w % 2 ** 160
            if t[0] == "flag":
                return w % 2 ** t[2]
            if t[0] == "bytesm":
                return w[1] >> (8 * (32 - t[1])) if isinstance(w, tuple) else w
            lo, hi = int_bounds(t)
            if t[2] and w >= 2 ** 255:
                w -= 2 ** 256
            return min(max(w, lo), hi)
        if t[0] == "sarr":
            return [self.arg_tree(t[1]) for _ in range(t[2])]
        if t[0] == "darr":
            return [self.arg_tree(t[1]) for _ in range(self.r.randrange(0, t[2] + 1))]
        return [self.arg_tree(ft) for _, ft in t[2]]

    def calls(self, prog, n):
        out = self.calls_body(prog, n)
        if prog.ctor is not None:
            c = Call(0, [self.arg_word(t) if t[0] in PRIMS else self.arg_tree(t) for _, t in prog.ctor.params])
            c.deploy = True
            out.insert(0, c)
        return out

    def calls_body(self, prog, n):
        out = []
        for _ in range(n):
            i = self.r.randrange(len(prog.exts))
            f = prog.exts[i]
            args = [self.arg_word(t) if t[0] in PRIMS else self.arg_tree(t) for _, t in f.params]
            value = 0
            x = self.r.random()
            if "value" in self.feat and (f.payable and x < 0.6 or x < 0.15):
                # non-payable functions also get non-zero values, odd AND even (the non-payable check must reject both)
                value = self.r.choice([1, 2, 2, 4, 7, 256, 10 ** 18, 2 ** 64])
            sender = SENDER2 if ("sender" in self.feat and self.r.random() < 0.4) else DEPLOYER
            given = None
            if f.defaults and self.r.random() < 0.6:
                given = self.r.randrange(len(f.params) - len(f.defaults), len(f.params) + 1)
                for j in range(given, len(f.params)):
                    dv = f.defaults[j].v
                    args[j] = int(dv) % (2 ** 256)
            out.append(Call(i, args, sender, value, given))
        for i, f in enumerate(prog.exts):
            if getattr(f, "probe", None) is not None:
                pairs = f.probe_calls if getattr(f, "probe_calls", None) else self.probe_args(f.probe)
                for pair in pairs:
                    c = Call(i, list(pair), DEPLOYER, getattr(f, "probe_value", 0))
                    c.probe = True
                    out.insert(self.r.randrange(len(out) + 1), c)
                if "value" in self.feat and self.r.random() < 0.5 and pairs:
                    out.insert(self.r.randrange(len(out) + 1), Call(i, list(pairs[0]), DEPLOYER, self.r.choice([2, 4, 1, 2 ** 32])))
            if getattr(f, "bprobe", None) is not None:
                for args in self.bytes_probe_calls(f):
                    c = Call(i, args)
                    c.probe = True
                    out.insert(self.r.randrange(len(out) + 1), c)
        return out
