"""Scripted callee for VyCore's external-call fragment: a fixed helper contract whose functions have a closed-form meaning
(add, echo_*, len_b: pure; store/get: one word of state; fail: always reverts with a reason)."""
from eth_utils import keccak

HELPER_DEPLOYER = "0x" + "33" * 20


def create_address(sender_hex, nonce=0):
    sender = bytes.fromhex(sender_hex[2:])
    assert nonce == 0
    rlp = bytes([0xd6, 0x94]) + sender + bytes([0x80])
    return "0x" + keccak(rlp)[12:].hex()


HELPER_ADDR = create_address(HELPER_DEPLOYER)
CONTRACT_ADDR = create_address("0x" + "11" * 20)       # the contract under test: DEPLOYER, nonce 0
FAIL_REASON = "helper failed"

HELPER_SRC = '''
event Called:
    sender: address
    x: uint256

stored: public(uint256)

@external
@pure
def add(a: uint256, b: uint256) -> uint256:
    return a + b

@external
def store(x: uint256):
    self.stored = x
    log Called(sender=msg.sender, x=x)

@external
@view
def get() -> uint256:
    return self.stored

@external
def fail():
    raise "helper failed"

@external
@pure
def echo_u(x: uint256) -> uint256:
    return x

@external
@pure
def echo_i8(x: int8) -> int8:
    return x

@external
@pure
def echo_b(b: Bytes[64]) -> Bytes[64]:
    return b

@external
@pure
def echo_d(a: DynArray[uint256, 4]) -> DynArray[uint256, 4]:
    return a

@external
@pure
def len_b(b: Bytes[64]) -> uint256:
    return len(b)
'''

INTERFACE = '''interface Helper:
    def add(a: uint256, b: uint256) -> uint256: pure
    def store(x: uint256): nonpayable
    def get() -> uint256: view
    def fail(): nonpayable
    def echo_u(x: uint256) -> uint256: pure
    def echo_i8(x: int8) -> int8: pure
    def echo_b(b: Bytes[64]) -> Bytes[64]: pure
    def echo_d(a: DynArray[uint256, 4]) -> DynArray[uint256, 4]: pure
    def len_b(b: Bytes[64]) -> uint256: pure
'''

STATIC = {"add", "get", "echo_u", "echo_i8", "echo_b", "echo_d", "len_b"}
_cache = {}


def helper_initcode(evm):
    if evm not in _cache:
        from vlib.configs import Config, compile_src
        out = compile_src(HELPER_SRC, Config(False, "gas", evm), formats=("bytecode", "layout"))
        _cache[evm] = (bytes.fromhex(out["bytecode"][2:]), out["layout"]["storage_layout"]["stored"]["slot"])
    return _cache[evm]
