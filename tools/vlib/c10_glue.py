"""C10 glue: deploy generated contracts, write through every kind of access path, take the raw storage /
transient diff from the pyrevm journal and the immutables section of the deployed code, and check that only
words inside the reported range (or keccak-derived from the reported slot) changed -- at exactly the word
the Coq model (C10/Layout.v resolve) predicts."""
import re
import warnings

from . import coqrun
from .c10_decls import LOC_KEY, Names, T, Var, gen_type

GLUE_WORDS = ["uint256", "int128", "bool", "bytes32", "uint8"]


def py_words(t):
    """python mirror of size_words, used only to bound the value area behind a hash (oracle 1)"""
    k = t.kind
    if k in ("word", "flag", "map"):
        return 1
    if k == "bytes":
        return 1 + (t.n + 31) // 32
    if k == "sarr":
        return py_words(t.t) * t.n
    if k == "darr":
        return 1 + py_words(t.t) * t.n
    if k == "struct":
        return sum(py_words(m) for _, m in t.members)
    raise ValueError(k)


def fix_words(t, rnd):
    """restrict word types to ones with easy literals"""
    if t.kind == "word":
        t.name = rnd.choice(GLUE_WORDS)
    elif t.kind in ("sarr", "darr"):
        fix_words(t.t, rnd)
    elif t.kind == "struct":
        for _, m in t.members:
            fix_words(m, rnd)
    elif t.kind == "map":
        t.ksrc = rnd.choice(["uint256", "int128", "bytes32", "Bytes[5]", "String[7]"])
        fix_words(t.v, rnd)
    return t


def word_literal(t, rnd):
    """(source literal, the 32-byte ABI word a getter returns for it)"""
    if t.kind == "flag":
        m = rnd.choice("ABC")
        return f"{t.name}.{m}", 1 << "ABC".index(m)
    n = t.name
    if n == "uint256":
        v = rnd.randrange(1, 2**200)
        return str(v), v
    if n == "int128":
        v = rnd.choice([-1, 1]) * rnd.randrange(1, 2**100)
        return str(v), v % 2**256
    if n == "bool":
        return "True", 1
    if n == "bytes32":
        v = rnd.randrange(1, 2**256)
        return "0x" + "%064x" % v, v
    if n == "uint8":
        v = rnd.randrange(1, 256)
        return str(v), v
    raise ValueError(n)


def key_literal(ksrc, rnd):
    """(source literal, 32-byte key word as int)"""
    if ksrc == "uint256":
        v = rnd.choice([0, 1, 2, 2**255, 2**256 - 1, rnd.randrange(2**256)])
        return str(v), v
    if ksrc == "int128":
        v = rnd.choice([0, 1, -1, -(2**127), 2**127 - 1, rnd.randrange(-(2**100), 2**100)])
        return str(v), v % 2**256
    if ksrc == "bytes32":
        v = rnd.randrange(1, 2**256)
        return "0x" + "%064x" % v, v
    if ksrc.startswith("Bytes[") or ksrc.startswith("String["):
        # byte-string keys are hashed first: slot = keccak(slot || keccak(key))
        from vyper.utils import keccak256
        n = int(ksrc[ksrc.index("[") + 1:-1])
        body = "".join(rnd.choice("abcdefgh") for _ in range(rnd.randint(0, n)))
        lit = ('b"%s"' if ksrc.startswith("Bytes") else '"%s"') % body
        return lit, int.from_bytes(keccak256(body.encode()), "big")
    raise ValueError(ksrc)


class Op:
    def __init__(self, var, expr, segs, stmt, leaf, kind, word=None):
        self.var, self.expr, self.segs, self.stmt, self.leaf, self.kind, self.word = var, expr, segs, stmt, leaf, kind, word
        # segs: list of ("static", type_at_start, [coq steps]) / ("key", int)


def gen_ops(rnd, var, max_ops):
    """write operations for one variable: list of Op in execution order"""
    ops = []
    filled = set()
    for _ in range(max_ops):
        t = var.ty
        expr = f"self.{var.name}"
        segs = []
        cur_ty, cur_steps = t, []
        pre = []
        while True:
            k = t.kind
            if k in ("word", "flag"):
                lit, word = word_literal(t, rnd)
                stmt = f"{expr} = {lit}"
                kind = "word"
                break
            if k == "bytes":
                ln = rnd.randint(1, t.n)
                body = "".join(rnd.choice("abcdefghij") for _ in range(ln))
                stmt = f'{expr} = {"b" if t.bs == "Bytes" else ""}"{body}"'
                kind = "bytes"
                break
            if k == "sarr":
                i = rnd.randrange(t.n)
                expr, t = f"{expr}[{i}]", t.t
                cur_steps.append(f"SIdx {i}")
                continue
            if k == "darr":
                if expr not in filled:
                    filled.add(expr)
                    stmt = f"{expr} = [" + ", ".join(f"empty({t.t.src()})" for _ in range(t.n)) + "]"
                    kind = "fill"
                    break
                i = rnd.randrange(t.n)
                expr, t = f"{expr}[{i}]", t.t
                cur_steps.append(f"SIdx {i}")
                continue
            if k == "struct":
                j = rnd.randrange(len(t.members))
                expr, t = f"{expr}.{t.members[j][0]}", t.members[j][1]
                cur_steps.append(f"SField {j}%nat")
                continue
            if k == "map":
                lit, kw = key_literal(t.ksrc, rnd)
                segs.append(("static", cur_ty, cur_steps))
                segs.append(("key", kw))
                expr, t = f"{expr}[{lit}]", t.v
                cur_ty, cur_steps = t, []
                continue
            raise ValueError(k)
        segs.append(("static", cur_ty, cur_steps))
        ops.append(Op(var, expr, segs, stmt, t, kind, word if kind == "word" else None))
    return ops


def imm_value(t, rnd):
    """(source literal, expected bytes) for the restricted immutable types"""
    if t.kind == "word":
        v = rnd.randrange(1, 2**255)
        return str(v), v.to_bytes(32, "big")
    if t.kind == "sarr":
        parts = [imm_value(t.t, rnd) for _ in range(t.n)]
        return "[" + ", ".join(p[0] for p in parts) + "]", b"".join(p[1] for p in parts)
    if t.kind == "bytes":
        ln = rnd.randint(1, t.n)
        body = bytes(rnd.choice(b"abcdefghij") for _ in range(ln))
        cap = (t.n + 31) // 32 * 32
        # bytes beyond ceil32(len) inside the buffer are unspecified: compare length word + data only
        return f'b"{body.decode()}"', (ln.to_bytes(32, "big") + body, 32 + cap)
    raise ValueError(t.kind)


def gen_imm_type(rnd):
    k = rnd.choice(["word", "sarr", "bytes", "sarr2"])
    u = T("word", name="uint256")
    if k == "word":
        return u
    if k == "sarr":
        return T("sarr", t=u, n=rnd.randint(1, 4))
    if k == "sarr2":
        return T("sarr", t=T("sarr", t=u, n=rnd.randint(1, 3)), n=rnd.randint(1, 3))
    return T("bytes", bs="Bytes", n=rnd.choice([1, 5, 31, 32, 33, 50]))


class Contract:
    def __init__(self, rnd, idx):
        names = Names(f"_{idx}_")
        self.vars = []
        self.imm_expected = {}
        nv = rnd.randint(3, 6)
        for _ in range(nv):
            loc = rnd.choice(["storage"] * 4 + ["transient"] * 2 + ["code"] * 2)
            if loc == "code":
                ty = gen_imm_type(rnd)
            else:
                ty = fix_words(gen_type(rnd, names, 2, allow_map=True, big=False, small=True), rnd)
            self.vars.append(Var(names.fresh("v"), loc, ty))
        self.nr = rnd.random() < 0.5
        self.ops = []
        for v in self.vars:
            if v.loc != "code":
                self.ops += gen_ops(rnd, v, rnd.randint(1, 4))
        self.imm_lits = {}
        for v in self.vars:
            if v.loc == "code":
                self.imm_lits[v.name] = imm_value(v.ty, rnd)

    def source(self, transient_ok):
        defs, lines = [], []
        for v in self.vars:
            v.ty.structs(defs)
        lines += [d.defsrc() for d in defs]
        for v in self.vars:
            if v.loc == "transient" and not transient_ok:
                lines.append(f"{v.name}: {v.ty.src()}")
            else:
                lines.append(v.decl_src())
        if self.imm_lits:
            lines.append("@deploy\ndef __init__():")
            for nm, (lit, _) in self.imm_lits.items():
                lines.append(f"    {nm} = {lit}")
        for k, op in enumerate(self.ops):
            lines.append("@external" + ("\n@nonreentrant" if self.nr and k % 2 == 0 else "") + f"\ndef op{k}():\n    {op.stmt}")
            if op.kind == "word":   # getter for the read-back oracle (other paths keep their values)
                lines.append(f"@external\n@view\ndef g{k}() -> {op.leaf.src()}:\n    return {op.expr}")
        return "\n".join(lines) + "\n"


def journal(ch, addr):
    js = ch.evm.journal_str
    low = js.lower()
    i = low.find(addr.lower() + ": account {")
    st = {}
    if i >= 0:
        seg = js[i:]
        j = seg.find("status: AccountStatus")
        seg = seg[:j] if j >= 0 else seg
        for a, b, c in re.findall(r"(\d+): StorageSlot \{ previous_or_original_value: (\d+), present_value: (\d+)", seg):
            st[int(a)] = (int(b), int(c))
    tr = {}
    i = js.find("transient_storage: {")
    if i >= 0:
        seg = js[i:js.find("}", i)]
        for a, s, v in re.findall(r"\((0x[0-9a-fA-F]+), (\d+)\): (\d+)", seg):
            if a.lower() == addr.lower():
                tr[int(s)] = int(v)
    return st, tr


def keccak_slot(slot, key):
    from vyper.utils import keccak256
    return int.from_bytes(keccak256((slot % 2**256).to_bytes(32, "big") + (key % 2**256).to_bytes(32, "big")), "big")


def run(ctx, model_ok, n, IMPORTS):
    from vyper.utils import method_id
    from .configs import compile_src, core_configs
    from .evm import Chain
    rnd = ctx.rng("glue")
    contracts = [Contract(rnd, i) for i in range(n)]
    # model predictions for every static path segment
    exprs, where = [], {}
    for ci, c in enumerate(contracts):
        for oi, op in enumerate(c.ops):
            for si, seg in enumerate(op.segs):
                if seg[0] == "static":
                    where[(ci, oi, si)] = len(exprs)
                    exprs.append(f"path_range 0 {seg[1].coq()} [{'; '.join(seg[2])}]")
    outs = coqrun.eval_zlists(IMPORTS, exprs, "c10glue", shard=max(8, len(exprs) // 4 + 1)) if (model_ok and exprs) else None
    n_ops = 0
    pending = None
    stats = {"word": 0, "bytes": 0, "fill": 0, "map_paths": 0, "immutables": 0, "transient_ops": 0}
    for ci, c in enumerate(contracts):
        for cfg in core_configs():
            tr_ok = cfg.evm in ("cancun", "prague")
            src = c.source(tr_ok)
            with warnings.catch_warnings():
                warnings.simplefilter("ignore")
                out = compile_src(src, cfg, formats=("bytecode", "bytecode_runtime", "layout"))
            layout = out["layout"]
            ch = Chain(cfg.evm)
            addr = ch.deploy(bytes.fromhex(out["bytecode"][2:]))
            base_detail = {"source": src, "config": cfg.name}
            if addr is None:
                ctx.violation("correspondence-broken", "glue contract failed to deploy", base_detail)
                return n_ops, True
            # --- immutables: reported offset/length vs bytes of the deployed code
            rt = bytes.fromhex(out["bytecode_runtime"][2:])
            code = ch.code(addr)
            for v in c.vars:
                if v.loc != "code":
                    continue
                e = layout.get("code_layout", {}).get(v.name)
                lit, expb = c.imm_lits[v.name]
                if isinstance(expb, tuple):
                    expb, total = expb
                else:
                    total = len(expb)
                got = code[len(rt) + e["offset"]: len(rt) + e["offset"] + len(expb)] if e else None
                stats["immutables"] += 1
                if e is None or e["length"] != total or got != expb:
                    ctx.violation("failing-input", f"immutable {v.name} is not stored at its reported (offset, length) in the deployed code",
                                  dict(base_detail, reported=e, expected_bytes=expb.hex(), found=got.hex() if got else None))
                    return n_ops, True
            # --- writes
            reported = {}
            for v in c.vars:
                if v.loc == "code":
                    continue
                loc = v.loc if (v.loc != "transient" or tr_ok) else "storage"
                e = layout.get(LOC_KEY[loc], {}).get(v.name)
                reported[v.name] = (loc, e["slot"], e["n_slots"])
            last = {}
            written = {}    # expr -> (getter index, expected ABI word) of the last word written through that path
            for oi, op in enumerate(c.ops):
                loc, vslot, vn = reported[op.var.name]
                # same value written to the same path again (or zero-length change): no word needs to change
                rewrite = last.get(op.expr) == op.stmt
                if op.kind == "fill":
                    for k_ in [k_ for k_ in last if k_.startswith(op.expr)]:
                        del last[k_]
                last[op.expr] = op.stmt
                if op.kind == "fill":
                    for k_ in [k_ for k_ in written if k_.startswith(op.expr)]:
                        del written[k_]
                pre_st, pre_tr = journal(ch, addr)   # transient storage is kept across calls (one long "transaction")
                r = ch.call(addr, method_id(f"op{oi}()"))
                post_st, post_tr = journal(ch, addr)
                detail = dict(base_detail, call=f"op{oi}()", statement=op.stmt, variable=op.var.name, reported={"loc": loc, "slot": vslot, "n_slots": vn})
                if not r.ok:
                    ctx.violation("correspondence-broken", "glue setter reverted", detail)
                    return n_ops, True
                # ---- read-back oracle (model-free): every other path written so far still holds its value
                if op.kind == "word":
                    written[op.expr] = (oi, op.word)
                for ex_, (gi, word) in written.items():
                    g = ch.call(addr, method_id(f"g{gi}()"))
                    if not g.ok or g.out != (word % 2**256).to_bytes(32, "big"):
                        ctx.violation("failing-input", "a write through one access path changed the value read through another path",
                                      dict(detail, other_path=ex_, expected=hex(word), observed=g.out.hex() if g.ok else "revert"))
                        return n_ops, True
                ch_st = set()
                for s, (orig, present) in post_st.items():
                    old = pre_st[s][1] if s in pre_st else orig
                    if present != old:
                        ch_st.add(s)
                ch_tr = {s for s in set(post_tr) | set(pre_tr) if post_tr.get(s, 0) != pre_tr.get(s, 0)}
                changed, other = (ch_st, ch_tr) if loc == "storage" else (ch_tr, ch_st)
                n_ops += 1
                stats[op.kind] += 1
                if loc == "transient":
                    stats["transient_ops"] += 1
                # ---- oracle 1 (the property): inside the reported range, or hashed from the reported slot
                has_key = any(s[0] == "key" for s in op.segs)
                if has_key:
                    stats["map_paths"] += 1
                # chase hashes; offsets from the model when available
                lo, hi = vslot, vslot + vn
                base = vslot
                exact = None
                for si, seg in enumerate(op.segs):
                    if seg[0] == "static":
                        if outs is not None:
                            pr = outs[where[(ci, oi, si)]]
                            if pr == [-1]:
                                ctx.violation("correspondence-broken", "model says the generated in-bounds path is out of bounds", detail)
                                return n_ops, True
                            exact = ((base + pr[0]) % 2**256, pr[1])
                            base_next = (base + pr[0]) % 2**256
                        else:
                            base_next = None
                        if si > 0:
                            lo, hi = base, base + py_words(seg[1])
                        base = base_next
                    else:
                        if base is None:
                            break
                        base = keccak_slot(base, seg[1])
                detail["changed"] = sorted(str(x) for x in changed)
                if other:
                    ctx.violation("failing-input", f"write to a {loc} variable changed the other address space", dict(detail, other=sorted(map(str, other))))
                    return n_ops, True
                if not changed and not rewrite:
                    ctx.violation("failing-input", "write of a fresh non-zero value changed no word at all", detail)
                    return n_ops, True
                # a @nonreentrant setter may also write the lock's own reported slot (same address space as the lock)
                lock_e = layout.get(LOC_KEY["transient" if tr_ok else "storage"], {}).get("$.nonreentrant_key")
                is_nr = c.nr and oi % 2 == 0
                lock_slots = set()
                if is_nr and lock_e is not None and (("transient" if tr_ok else "storage") == loc):
                    lock_slots = {lock_e["slot"]}
                changed = changed - lock_slots
                if outs is not None or not has_key:
                    outside = [s for s in changed if not (lo <= s < hi or lo <= s + 2**256 < hi)]
                    if outside:
                        ctx.violation("failing-input", "write changed words outside the variable's reported range "
                                      "(or outside the area hashed from its reported slot)",
                                      dict(detail, allowed=[str(lo), str(hi)], outside=[str(s) for s in outside]))
                        return n_ops, True
                # ---- oracle 2 (model): exactly the predicted words
                if exact is not None:
                    first, cnt = exact
                    want = {(first + j) % 2**256 for j in range(cnt)}
                    if not changed <= want or (op.kind == "word" and changed != want and not rewrite):
                        # model/code disagreement: keep going (Search) -- the read-back oracle may turn it into a failing input
                        if pending is None:
                            pending = dict(detail, predicted=[str(first), cnt])
    ctx.corr["glue"] = dict(stats, ops=n_ops, contracts=len(contracts), configs=[c.name for c in core_configs()])
    if pending is not None:
        ctx.violation("correspondence-broken", "changed words differ from Layout.resolve's prediction", pending)
        return n_ops, True
    return n_ops, False
