"""C15 part 3 tie: real _stack_peephole_opts / _merge_iszero vs the Coq model (exact output equality)."""
import re

from vlib import coqrun

OPS = ["DUP1", "DUP2", "DUP3", "SWAP1", "SWAP2", "SWAP3", "SWAP16", "POP", "ADD", "MUL", "EQ", "AND", "OR", "XOR",
       "SUB", "ISZERO", "LT", "GT", "SLT", "SGT", "CALL", "STATICCALL", "JUMPI", "JUMP", "MLOAD", "MSTORE", "STOP", "NOT"]
PATTERNS = [["DUP1", "SWAP2", "SWAP1"], ["DUP1", "SWAP1", "POP"], ["SWAP1", "POP", "POP"], ["SWAP2", "SWAP2"],
            ["SWAP1", "SWAP1"], ["SWAP16", "SWAP16"], ["SWAP1", "ADD"], ["SWAP1", "EQ"], ["SWAP1", "XOR"], ["SWAP1", "SUB"],
            ["DUP1", "SWAP1"], ["LT", "ISZERO", "ISZERO"], ["CALL", "ISZERO", "ISZERO"], ["ISZERO", "ISZERO", "ISZERO"],
            ["ISZERO", "ISZERO", ("P", "a"), "JUMPI"], ["ADD", "ISZERO", "ISZERO"], ["DUP1", "SWAP1", "SWAP1"],
            ["SWAP3", "SWAP3", "SWAP1", "MUL"], ["SWAP2", "SWAP2", "DUP1", "SWAP1"]]


def gen_asm(rnd, n):
    out = []
    while len(out) < n:
        r = rnd.random()
        if r < 0.45:
            out += rnd.choice(PATTERNS)
        elif r < 0.55:
            out += ["PUSH1", rnd.choice([0, 1, 32, 255])]
        elif r < 0.6:
            out.append(("L", rnd.choice("ab")))
        elif r < 0.65:
            out.append(("P", rnd.choice("ab")))
        else:
            out.append(rnd.choice(OPS))
    return out


def to_real(asm):
    from vyper.evm.assembler.instructions import DATA_ITEM, PUSH_OFST, PUSHLABEL, DataHeader, Label
    out = []
    for x in asm:
        if isinstance(x, tuple):
            k = x[0]
            if k == "L":
                out.append(Label(x[1]))
            elif k == "P":
                out.append(PUSHLABEL(Label(x[1])))
            elif k == "O":
                out.append(PUSH_OFST(Label(x[1]), x[2]))
            elif k == "D":
                out.append(DataHeader(Label(x[1])))
            elif k == "DL":
                out.append(DATA_ITEM(Label(x[1])))
            else:
                raise ValueError(x)
        else:
            out.append(x)
    return out


def from_real(asm):
    """real assembly list -> abstract items (unknown item kinds become opaque)."""
    from vyper.evm.assembler.instructions import DATA_ITEM, PUSH_OFST, PUSHLABEL, DataHeader, Label
    out = []
    for x in asm:
        if isinstance(x, Label):
            out.append(("L", x.label))
        elif isinstance(x, PUSHLABEL):
            out.append(("P", x.label.label))
        elif isinstance(x, PUSH_OFST) and isinstance(x.label, Label):
            out.append(("O", x.label.label, x.ofst))
        elif isinstance(x, DataHeader):
            out.append(("D", x.label.label))
        elif isinstance(x, DATA_ITEM) and isinstance(x.data, Label):
            out.append(("DL", x.data.label))
        elif isinstance(x, bool):
            raise ValueError("bool in assembly")
        elif isinstance(x, int):
            out.append(x)
        elif isinstance(x, str):
            out.append(str(x))
        else:
            r = re.sub(r"[^A-Za-z0-9_]", "_", repr(x))
            if len(r) > 40:       # e.g. the runtime bytecode as a data item: keep a digest
                import hashlib
                r = r[:16] + "_" + hashlib.sha1(r.encode()).hexdigest()[:12]
            out.append(("X", r))
    return out


def show_item(x):
    if isinstance(x, tuple):
        k = x[0]
        if k == "L":
            return "L:" + x[1]
        if k == "P":
            return "P:" + x[1]
        if k == "O":
            return "O:" + x[1] + ":" + (format(x[2], "x") if x[2] >= 0 else "-" + format(-x[2], "x"))
        if k == "D":
            return "D:" + x[1]
        if k == "DL":
            return "DL:" + x[1]
        return "<" + x[1] + ">"
    if isinstance(x, int):
        return "#" + (format(x, "x") if x >= 0 else "-" + format(-x, "x"))
    return x


def show(asm):
    return " ".join(show_item(x) for x in asm)


def coq_items(asm):
    parts = []
    for x in asm:
        if isinstance(x, tuple):
            k = x[0]
            if k == "O":
                parts.append(f'PushOfst "{x[1]}" {coqrun.hexlit(x[2])}')
            else:
                parts.append({"L": "Lbl", "P": "PushLbl", "D": "DataHdr", "DL": "DataLbl", "X": "Opaque"}[k] + f' "{x[1]}"')
        elif isinstance(x, int):
            parts.append(f"Imm {coqrun.hexlit(x)}")
        else:
            parts.append(f'Op "{x}"')
    return "[" + "; ".join(parts) + "]"


REAL = {}     # id(abstract list) -> the real assembly it was taken from (for items that cannot be rebuilt)


def real_pass(fn_name, asm):
    """-> list of item strings after the real pass (or ["E"] / ["PANIC"])"""
    import copy

    from vyper.evm.assembler import optimizer as AO
    from vyper.exceptions import CompilerPanic
    real = copy.deepcopy(REAL[id(asm)]) if id(asm) in REAL else to_real(asm)
    try:
        getattr(AO, fn_name)(real)
    except IndexError:
        return ["E"]
    except CompilerPanic:
        return ["PANIC"]
    return [show_item(x) for x in from_real(real)]


LABELS = ["a", "b", "c", "d"]
JUMP_PATTERNS = [
    [("P", "a"), "JUMP", ("L", "a")], [("P", "a"), "JUMP", ("L", "b")],
    [("P", "c"), "JUMPI", ("P", "b"), "JUMP", ("L", "c")], [("P", "c"), "JUMPI", ("P", "b"), "JUMP", ("L", "d")],
    [("L", "a"), ("L", "b")], [("L", "b"), ("P", "c"), "JUMP"], [("L", "c"), ("L", "c")], [("L", "d"), ("P", "d"), "JUMP"],
    ["STOP", "ADD", "POP", ("L", "a")], ["JUMP", "DUP1", ("P", "b"), "MUL"], ["RETURN", "SWAP1"], ["REVERT", ("D", "tbl"), ("DL", "a")],
    ["INVALID", "INVALID", ("L", "b")], [("O", "a", 3), "MLOAD"], ["ISZERO", "ISZERO", ("P", "a"), "JUMPI"],
    ["EQ", "ISZERO", "ISZERO", ("P", "b"), "JUMPI"], [("P", "a"), "JUMPI"], [("P", "b"), "JUMP"],
]


# value-producing opcodes: `X ISZERO ISZERO` must only collapse for the members of _RETURNS_ZERO_OR_ONE
VALUE_OPS = ["ADD", "SUB", "MUL", "DIV", "MOD", "EXP", "NOT", "AND", "OR", "XOR", "SHL", "SHR", "SAR", "BYTE", "MLOAD", "SLOAD",
             "TLOAD", "CALLDATALOAD", "BALANCE", "EXTCODESIZE", "EXTCODEHASH", "CREATE", "CREATE2", "ADDRESS", "CALLER",
             "CALLVALUE", "CALLDATASIZE", "GAS", "MSIZE", "KECCAK256", "SHA3", "SELFBALANCE", "LT", "GT", "SLT", "SGT", "EQ",
             "ISZERO", "CALL", "STATICCALL", "DELEGATECALL", "CALLCODE", "DUP1", "PUSH0"]
PATTERNS_01 = [[x, "ISZERO", "ISZERO"] for x in VALUE_OPS] + [["SWAP1", x.upper()] for x in
                                                               ["ADD", "MUL", "EQ", "AND", "OR", "XOR", "SUB", "DIV", "LT", "GT", "SHL"]]


def gen_labelled_asm(rnd, n):
    out = []
    while len(out) < n:
        r = rnd.random()
        if r < 0.4:
            out += rnd.choice(JUMP_PATTERNS)
        elif r < 0.52:
            out += rnd.choice(PATTERNS)
        elif r < 0.6:
            out += rnd.choice(PATTERNS_01)
        elif r < 0.68:
            out += ["PUSH1", rnd.choice([0, 1, 32])]
        elif r < 0.76:
            out.append(("L", rnd.choice(LABELS)))
        elif r < 0.84:
            out.append(("P", rnd.choice(LABELS)))
        else:
            out.append(rnd.choice(OPS))
    return out


def corpus_assemblies(names=None, tier="quick"):
    """unoptimised runtime + deploy assemblies of corpus contracts (legacy pipeline): C02 corpus + C15 corpus"""
    from pathlib import Path

    from vlib.c02_corpus import CORPUS
    from vlib.c15_corpus import OWN
    from vyper.compiler.input_bundle import FileInput
    from vyper.compiler.phases import CompilerData
    from vyper.compiler.settings import OptimizationLevel, Settings
    res = []
    for c in OWN + CORPUS:
        if names is not None and c["name"] not in names:
            continue
        try:
            fi = FileInput(0, Path(c["name"] + ".vy"), Path(c["name"] + ".vy"), c["src"])
            cd = CompilerData(fi, settings=Settings(optimize=OptimizationLevel.NONE, experimental_codegen=False,
                                                    evm_version="cancun"))
            for a in (cd.assembly_runtime, cd.assembly):
                asm = from_real(list(a))
                if any('"' in show_item(x) for x in asm):
                    continue
                REAL[id(asm)] = list(a)
                res.append((c["name"], asm))
        except Exception:  # noqa
            continue
    return res


def pattern_evm_differential(chain, rnd, extra=40):
    """observation / Search for part 3: stack programs containing each peephole window, assembled with and
    without optimize_assembly, executed on the EVM; returns (n_programs, first difference or None)."""
    import copy

    from vyper.evm.assembler import assembly_to_evm
    from vyper.evm.assembler.optimizer import optimize_assembly
    pure = {"DUP1", "DUP2", "DUP3", "SWAP1", "SWAP2", "SWAP3", "SWAP16", "POP", "ADD", "MUL", "EQ", "AND", "OR", "XOR",
            "SUB", "ISZERO", "LT", "GT", "SLT", "SGT", "NOT"}
    windows = [p for p in PATTERNS if all(isinstance(x, str) and x in pure for x in p)]
    for _ in range(extra):
        w = []
        for _ in range(rnd.randrange(1, 4)):
            w += rnd.choice(windows)
        w.insert(rnd.randrange(len(w) + 1), rnd.choice(sorted(pure - {"SWAP16"})))
        windows.append(w)
    n = 0
    for w in windows:
        vals = [rnd.choice([0, 1, 2, 3, 255, 7]) for _ in range(24)]
        pre = []
        for v in vals:
            pre += ["PUSH1", v]
        post = []
        for i in range(4):
            post += ["PUSH1", 32 * i, "MSTORE"]
        post += ["PUSH1", 128, "PUSH1", 0, "RETURN"]
        prog = pre + list(w) + post
        opt = copy.deepcopy(prog)
        try:
            optimize_assembly(opt)
        except Exception as e:  # noqa
            return n, {"assembly": show(prog), "error": f"{type(e).__name__}: {e}"}
        outs = []
        for a in (prog, opt):
            code = assembly_to_evm(a)[0]
            addr = chain.set_code(None, code)
            r = chain.call(addr, b"")
            outs.append((r.ok, r.out.hex()))
        if not outs[0][0]:
            continue      # not stack-safe (underflow in the unoptimised program): outside the quantifier
        n += 1
        if outs[0] != outs[1]:
            return n, {"assembly": show(prog), "optimized_assembly": show(opt), "unoptimized_result": outs[0],
                       "optimized_result": outs[1]}
    return n, None


def opcode_set_probe(chain, extra_ops):
    """Search for an opcode wrongly treated as 0/1-valued: `args X ISZERO ISZERO` with and without optimize_assembly."""
    import copy

    from vyper.evm.assembler import assembly_to_evm
    from vyper.evm.assembler.optimizer import optimize_assembly
    for x in sorted(extra_ops):
        for arg in (0, 3, 32):
            prog = []
            for _ in range(8):
                prog += ["PUSH1", arg]
            prog += [x, "ISZERO", "ISZERO", "PUSH1", 0, "MSTORE", "PUSH1", 32, "PUSH1", 0, "RETURN"]
            opt = copy.deepcopy(prog)
            try:
                optimize_assembly(opt)
                outs = []
                for a in (prog, opt):
                    addr = chain.set_code(None, assembly_to_evm(a)[0])
                    r = chain.call(addr, b"")
                    outs.append((r.ok, r.out.hex()))
            except Exception:  # noqa: not an opcode the assembler knows
                continue
            if outs[0][0] and outs[0] != outs[1]:
                return {"assembly": show(prog), "optimized_assembly": show(opt), "unoptimized_result": outs[0],
                        "optimized_result": outs[1], "opcode": x}
    return None
