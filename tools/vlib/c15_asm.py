"""C15 part 3 tie: real _stack_peephole_opts / _merge_iszero vs the Coq model (exact output equality)."""
import re

from vlib import coqrun

OPS = ["DUP1", "DUP2", "DUP3", "SWAP1", "SWAP2", "SWAP3", "SWAP16", "POP", "ADD", "MUL", "EQ", "AND", "OR", "XOR",
       "SUB", "ISZERO", "LT", "GT", "SLT", "SGT", "CALL", "STATICCALL", "JUMPI", "JUMP", "MLOAD", "MSTORE", "STOP", "NOT"]
PATTERNS = [["DUP1", "SWAP2", "SWAP1"], ["DUP1", "SWAP1", "POP"], ["SWAP1", "POP", "POP"], ["SWAP2", "SWAP2"],
            ["SWAP1", "SWAP1"], ["SWAP16", "SWAP16"], ["SWAP1", "ADD"], ["SWAP1", "EQ"], ["SWAP1", "XOR"], ["SWAP1", "SUB"],
            ["DUP1", "SWAP1"], ["LT", "ISZERO", "ISZERO"], ["CALL", "ISZERO", "ISZERO"], ["ISZERO", "ISZERO", "ISZERO"],
            ["ISZERO", "ISZERO", ("P", "a"), "JUMPI"], ["ADD", "ISZERO", "ISZERO"], ["DUP1", "SWAP1", "SWAP1"],
            ["SWAP3", "SWAP3", "SWAP1", "MUL"], ["SWAP2", "SWAP2", "DUP1", "SWAP1"]]


def gen_asm(rnd, n):
    out = []
    while len(out) < n:
        r = rnd.random()
        if r < 0.45:
            out += rnd.choice(PATTERNS)
        elif r < 0.55:
            out += ["PUSH1", rnd.choice([0, 1, 32, 255])]
        elif r < 0.6:
            out.append(("L", rnd.choice("ab")))
        elif r < 0.65:
            out.append(("P", rnd.choice("ab")))
        else:
            out.append(rnd.choice(OPS))
    return out


def to_real(asm):
    from vyper.evm.assembler.instructions import PUSHLABEL, Label
    out = []
    for x in asm:
        if isinstance(x, tuple):
            out.append(Label(x[1]) if x[0] == "L" else PUSHLABEL(Label(x[1])))
        else:
            out.append(x)
    return out


def from_real(asm):
    """real assembly list -> abstract items (unknown item kinds become opaque ops)."""
    from vyper.evm.assembler.instructions import PUSHLABEL, Label
    out = []
    for x in asm:
        if isinstance(x, Label):
            out.append(("L", x.label))
        elif isinstance(x, PUSHLABEL):
            out.append(("P", x.label.label))
        elif isinstance(x, bool):
            raise ValueError("bool in assembly")
        elif isinstance(x, int):
            out.append(x)
        elif isinstance(x, str):
            out.append(str(x))
        else:
            out.append("<" + re.sub(r"[^A-Za-z0-9_]", "_", repr(x)) + ">")
    return out


def show(asm):
    parts = []
    for x in asm:
        if isinstance(x, tuple):
            parts.append(("L:" if x[0] == "L" else "P:") + x[1])
        elif isinstance(x, int):
            parts.append("#" + (format(x, "x") if x >= 0 else "-" + format(-x, "x")))
        else:
            parts.append(x)
    return " ".join(parts)


def coq_items(asm):
    parts = []
    for x in asm:
        if isinstance(x, tuple):
            parts.append(f'{"Lbl" if x[0] == "L" else "PushLbl"} "{x[1]}"')
        elif isinstance(x, int):
            parts.append(f"Imm {coqrun.hexlit(x)}")
        else:
            parts.append(f'Op "{x}"')
    return "[" + "; ".join(parts) + "]"


def real_pass(fn_name, asm):
    from vyper.evm.assembler import optimizer as AO
    real = to_real(asm)
    try:
        getattr(AO, fn_name)(real)
    except IndexError:
        return "E"
    return show(from_real(real))


def corpus_assemblies(max_items=1500):
    """unoptimised runtime assemblies of the example contracts (legacy pipeline)."""
    from pathlib import Path

    from vlib.common import REPO
    from vyper.compiler.phases import CompilerData
    from vyper.compiler.input_bundle import FileInput
    from vyper.compiler.settings import OptimizationLevel, Settings
    res = []
    for p in sorted(Path(REPO, "examples").rglob("*.vy"))[:40]:
        try:
            src = p.read_text()
            fi = FileInput(0, p, p, src)
            cd = CompilerData(fi, settings=Settings(optimize=OptimizationLevel.NONE, experimental_codegen=False))
            asm = from_real(list(cd.assembly_runtime))
        except Exception:  # noqa: examples that need imports / search paths are skipped
            continue
        if any('"' in x for x in asm if isinstance(x, str)):
            continue
        for i in range(0, min(len(asm), max_items), 300):
            res.append(asm[i:i + 300])
    return res


def pattern_evm_differential(chain, rnd, extra=40):
    """observation / Search for part 3: stack programs containing each peephole window, assembled with and
    without optimize_assembly, executed on the EVM; returns (n_programs, first difference or None)."""
    import copy

    from vyper.evm.assembler import assembly_to_evm
    from vyper.evm.assembler.optimizer import optimize_assembly
    pure = {"DUP1", "DUP2", "DUP3", "SWAP1", "SWAP2", "SWAP3", "SWAP16", "POP", "ADD", "MUL", "EQ", "AND", "OR", "XOR",
            "SUB", "ISZERO", "LT", "GT", "SLT", "SGT", "NOT"}
    windows = [p for p in PATTERNS if all(isinstance(x, str) and x in pure for x in p)]
    for _ in range(extra):
        w = []
        for _ in range(rnd.randrange(1, 4)):
            w += rnd.choice(windows)
        w.insert(rnd.randrange(len(w) + 1), rnd.choice(sorted(pure - {"SWAP16"})))
        windows.append(w)
    n = 0
    for w in windows:
        vals = [rnd.choice([0, 1, 2, 3, 255, 7]) for _ in range(24)]
        pre = []
        for v in vals:
            pre += ["PUSH1", v]
        post = []
        for i in range(4):
            post += ["PUSH1", 32 * i, "MSTORE"]
        post += ["PUSH1", 128, "PUSH1", 0, "RETURN"]
        prog = pre + list(w) + post
        opt = copy.deepcopy(prog)
        try:
            optimize_assembly(opt)
        except Exception as e:  # noqa
            return n, {"assembly": show(prog), "error": f"{type(e).__name__}: {e}"}
        outs = []
        for a in (prog, opt):
            code = assembly_to_evm(a)[0]
            addr = chain.set_code(None, code)
            r = chain.call(addr, b"")
            outs.append((r.ok, r.out.hex()))
        n += 1
        if outs[0] != outs[1]:
            return n, {"assembly": show(prog), "optimized_assembly": show(opt), "unoptimized_result": outs[0],
                       "optimized_result": outs[1]}
    return n, None
