"""C06 extension (session 3): O-tie exporter for the encoder templates whose SOURCE is not cancun memory.
Runs the REAL code generators of /repo on symbolic operands and serialises the emitted IR as Coq `sx` terms:

  legacy  abi_encode(dst, src@STORAGE)                          all shapes          obs_enc_l_sto
          abi_encode(dst, src@CALLDATA, encoding=ABI)           static no-clamp     obs_enc_l_cd
          abi_encode(dst, src@MEMORY)  evm=shanghai (no MCOPY)  all shapes          obs_enc_l_pre
  venom   abi_encode_to_buf(dst, src)  evm=shanghai             all shapes          obs_enc_v_pre
          load_storage_to_memory(slot, typ) ; abi_encode_to_buf non-word shapes     obs_enc_v_sto   (cancun)
(Venom decodes every calldata argument to memory first, so it has no calldata-source encoder.)"""
from . import c06_abi as A
from . import c06_tpl as TP

U256, B32, I256 = ("uint", 256), ("bytesM", 32), ("int", 256)
PRE = "shanghai"


def cd_family():
    """types an external function leaves in calldata (needs_clamp false): built from uint256/int256/bytes32"""
    l = [U256, B32, I256]
    d1 = [("sarr", U256, 1), ("sarr", U256, 3), ("sarr", B32, 2), ("sarr", I256, 12), ("tuple", (U256,)),
          ("tuple", (U256, B32)), ("tuple", (I256, U256, B32))]
    d2 = [("sarr", ("sarr", U256, 2), 2), ("sarr", ("tuple", (U256, B32)), 3), ("tuple", (("sarr", U256, 3), B32)),
          ("tuple", (U256, ("tuple", (B32, I256)))), ("sarr", ("sarr", U256, 5), 3), ("sarr", ("sarr", ("sarr", U256, 2), 2), 2)]
    return l + d1 + d2


def xfamily():
    """the session-1 shape family + shapes that reach the copy thresholds of the non-cancun-memory paths (storage
    batch word loop at >= 320 bytes, identity precompile at >= 6 words (legacy) / >= 96 bytes (venom), copy-the-maximum
    boundary of byte strings, several copy loops in one shape)"""
    extra = [("sarr", U256, 5), ("sarr", U256, 6), ("sarr", U256, 9), ("sarr", U256, 10), ("sarr", ("uint", 8), 12),
             ("bytes", 64), ("string", 65), ("sarr", ("sarr", U256, 5), 2), ("tuple", (("sarr", U256, 10), ("bytes", 40), ("sarr", B32, 11))),
             ("darr", ("sarr", U256, 10), 2), ("tuple", (U256, ("sarr", ("uint", 8), 6), ("string", 64))),
             ("darr", ("tuple", (("sarr", U256, 4), ("bytes", 33))), 2)]
    return list(dict.fromkeys(TP.shape_family() + extra))


def sto_family_venom():
    return [t for t in xfamily() if t[0] not in A.SCALARS]


def _legacy(fam, loc_name, evm, abi=False):
    from vyper.codegen.abi_encoder import abi_encode
    from vyper.codegen.core import reset_names
    from vyper.codegen.ir_node import Encoding, IRnode
    from vyper.compiler.settings import OptimizationLevel, Settings, anchor_settings
    from vyper.evm import address_space as AS
    loc = {"memory": AS.MEMORY, "storage": AS.STORAGE, "calldata": AS.CALLDATA}[loc_name]
    out = []
    with anchor_settings(Settings(evm_version=evm, optimize=OptimizationLevel.GAS)):
        for t in fam:
            reset_names()
            vt = TP.vy_type(t)
            kw = {"encoding": Encoding.ABI} if abi else {}
            src = IRnode.from_list("src", typ=vt, location=loc, **kw)
            r = abi_encode(IRnode.from_list("dst"), src, TP.MockCtx(), vt.abi_type.size_bound(), returns_len=True)
            out.append((t, TP.sx_of_ir(r)))
    return out


def export_legacy_sto(fam):
    return _legacy(fam, "storage", "cancun")


def export_legacy_cd(fam):
    return _legacy(fam, "calldata", "cancun", abi=True)


def export_legacy_pre(fam):
    return _legacy(fam, "memory", PRE)


def _venom_settings(evm):
    from vyper.compiler.settings import Settings, anchor_settings
    return anchor_settings(Settings(evm_version=evm, experimental_codegen=True))


def export_venom_pre(fam):
    from vyper.codegen_venom.abi.abi_encoder import abi_encode_to_buf
    from vyper.codegen_venom.context import VenomCodegenContext
    from vyper.venom.builder import VenomBuilder
    from vyper.venom.context import IRContext
    out = []
    with _venom_settings(PRE):
        for t in fam:
            ctx = IRContext()
            fn = ctx.create_function("probe")
            b = VenomBuilder(ctx, fn)
            src = b.param()
            dst = b.param()
            cg = VenomCodegenContext(module_ctx=None, builder=b)
            r = abi_encode_to_buf(cg, dst, src, TP.vy_type(t))
            b.return_(dst, r)
            out.append((t, TP.sx_of_venom_fn(fn)))
    return out


def export_venom_sto(fam, evm="cancun"):
    """params: slot %1, dst %2;  buf = load_storage_to_memory(slot, typ);  len = abi_encode_to_buf(dst, buf, typ)"""
    from vyper.codegen_venom.abi.abi_encoder import abi_encode_to_buf
    from vyper.codegen_venom.context import VenomCodegenContext
    from vyper.venom.builder import VenomBuilder
    from vyper.venom.context import IRContext
    out = []
    with _venom_settings(evm):
        for t in fam:
            ctx = IRContext()
            fn = ctx.create_function("probe")
            b = VenomBuilder(ctx, fn)
            slot = b.param()
            dst = b.param()
            cg = VenomCodegenContext(module_ctx=None, builder=b)
            vt = TP.vy_type(t)
            buf = cg.load_storage_to_memory(slot, vt)
            r = abi_encode_to_buf(cg, dst, buf, vt)
            b.return_(dst, r)
            out.append((t, TP.sx_of_venom_fn(fn)))
    return out


TABLES = [
    ("obs_enc_l_sto", lambda: export_legacy_sto(xfamily())),
    ("obs_enc_l_cd", lambda: export_legacy_cd(cd_family())),
    ("obs_enc_l_pre", lambda: export_legacy_pre(xfamily())),
    ("obs_enc_v_pre", lambda: export_venom_pre(xfamily())),
    ("obs_enc_v_sto", lambda: export_venom_sto(sto_family_venom())),
]


MASK = str(2 ** 256 - 32)
HEADER = TP.HEADER + "Definition MASK31X : Z := 2 ^ 256 - 32.\n\n"


def write_gen(coq_dir):
    """regenerate coq/C06/GenTplEncXL.v (legacy tables) and GenTplEncXV.v (venom tables) from the current /repo tree"""
    for fname, pref in (("GenTplEncXL.v", "obs_enc_l"), ("GenTplEncXV.v", "obs_enc_v")):
        txt = HEADER + "\n".join(TP.coq_table(name, f()) for name, f in TABLES if name.startswith(pref))
        (coq_dir / "C06" / fname).write_text(txt.replace("(SI " + MASK + ")", "(SI MASK31X)"))
