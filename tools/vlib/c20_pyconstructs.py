"""C20: Python constructs that are not Vyper.  Each must end in a (located) user-facing diagnostic -- or compile --,
never in a raw exception.  (E) expression on the right of `x_: uint256 = ...`, (S) statement in a function body,
(M) module level.  The list is fixed: every construct is tried on every run."""

E = [
    "{1, 2}", "{1: 2}", "{}", "[i_ for i_ in [1, 2]]", "{i_ for i_ in [1, 2]}", "{i_: i_ for i_ in [1, 2]}",
    "(i_ for i_ in [1, 2])", "(lambda: 1)()", "lambda y_: y_", "(y_ := 1)", "await foo", "(yield)", "(yield 1)",
    "(yield from [1])", 'f"a{1}"', 'f"{x_!r:>{3}}"', "[1, 2, 3][0:2:1]", "[1, 2, 3][0:2]", "[1, 2, 3][::2]", "[*a_]", "{**a_}",
    "foo(*a_)", "foo(**a_)", "1j", "0o17", "0b101", "1_000", "1e3", "...", "1 is 1", "1 is not 2", "1 < 2 < 3", "1 @ 2", "not 1",
    "+1", "~1", "-(-1)", '"a" "b"', 'b"a" b"b"', 'x"zz"', 'x"00ff"', 'r"a\\b"', 'u"a"', 'rb"a"', "'''a\nb'''",
    '"\\x00\\n\\u1234\\N{BULLET}"', "None", "True if 1 else False", "a_.b_.c_", "a_[1][2]", "(1,)", "()", "[]",
    "1 if 2 else 3 if 4 else 5", "print(1)", "__import__('os')", "type(1)", "1 if True else {1}", "[{1}]", "({1}, 2)", "foo({1})",
    "-{1}", "{1} + 1", "1 in {1, 2}", "self.x_[{1}]", "[x_ async for x_ in y_]", "b'\\xff'.decode()", "1 .real", "1.", ".5", "0x", "0xg",
    "1__0", "0777", "1e", "'", '"""', "\\", "$", "?", "`1`", "1 <> 2", "a_ if b_", "x_ for x_ in y_",
]

S = [
    "global x_", "nonlocal x_", "del x_", "with a_ as b_:\n        pass", "try:\n        pass\n    except:\n        pass",
    "try:\n        pass\n    finally:\n        pass", "while True:\n        pass", "for i_ in [1]:\n        pass",
    "for i_: uint256 in [1]:\n        pass\n    else:\n        pass", "a_, *b_ = [1, 2, 3]", "a_ = b_ = 1", "a_: uint256", "a_ += 1",
    "a_ @= 1", "yield 1", "await foo", "import os", "from os import *", "class A_:\n        pass", "def g_():\n        pass",
    "async def g_():\n        pass", "async for i_ in a_:\n        pass", "async with a_ as b_:\n        pass",
    "match x_:\n        case 1:\n            pass", "raise X_ from Y_", "assert 1, 2, 3", "return 1, *a_", "type X_ = int",
    "'''doc \\x00 \\n \\u1234 \\N{BULLET}'''", '"""doc with a NUL \\0 and a bad escape \\q"""', "print(1)", "1", "...", "lambda: 1",
    "x_: uint256 = 1; y_: uint256 = 2", "if 1:\n        pass\n    elif 2:\n        pass", "pass;", "{1, 2}", "[i_ for i_ in [1]]",
    "log {1}", "log Ev_({1})", "assert {1}", "raise {1}", "return {1}", "for i_: uint256 in {1, 2}:\n        pass",
    "for i_: uint256 in range({1}):\n        pass", "for i_: {1} in range(2):\n        pass", "if {1}:\n        pass", "self.x_ = {1}",
    "extcall {1}", "staticcall {1}", "x_: uint256 = extcall {1}.f()",
]

M = [
    "class A_:\n    pass", "@dec_\nclass A_:\n    pass", "import os", "from os import *", "global x_", "x_ = 1", "x_: uint256 = 1",
    "{1, 2}", "[i_ for i_ in [1]]", "lambda: 1", "async def g_():\n    pass", "def g_(*args_):\n    pass", "def g_(**kw_):\n    pass",
    "def g_(a_, /, b_):\n    pass", "def g_(a_=1, *, b_):\n    pass", "def g_(a_: uint256 = {1, 2}):\n    pass",
    "@external\n@external\ndef g_():\n    pass", "@external()\ndef g_():\n    pass", "@nonreentrant('lock')\n@external\ndef g_():\n    pass",
    "def g_() -> {1, 2}:\n    pass", "for i_ in [1]:\n    pass", "if True:\n    x_: uint256", "while True:\n    pass", "with a_:\n    pass",
    "try:\n    pass\nexcept:\n    pass", "type X_ = int", "match x_:\n    case 1:\n        pass",
    "'''module docstring with \\x00 \\u1234 \\N{BULLET} escapes'''", '"""module docstring with a bad escape \\q and NUL \\0"""',
    "yield 1", "await foo", "return 1", "x_: {1, 2}", "x_: uint256[{1}]", "x_: public({1})", "struct S_:\n    a: {1, 2}",
    "event E_:\n    a: [i for i in x]", "interface I_:\n    def f({1}): view", "flag F_:\n    {1, 2}", "x_: constant(uint256) = {1, 2}",
    "implements: {1}", "exports: {1}", "uses: [1]", "initializes: {1}", "x_: HashMap[{1}, uint256]", "x_: DynArray[uint256, {1}]",
    "x_: Bytes[{1}]", "x_: immutable({1})", "x_: transient({1})", "@{1}\ndef g_():\n    pass", "def {1}():\n    pass",
    "struct S_:\n    {1}", "event E_:\n    {1}: uint256", "import {1}", "from {1} import x", "x_: uint256 = [i for i in [1]][0]",
    "# pragma version {1}", "# pragma {1}", "#pragma evm-version {1}", "# pragma optimize {1}",
]


def items():
    out = []
    for i, text in enumerate(E):
        out.append({"id": f"pyE{i}", "src": f"@external\ndef f_() -> uint256:\n    x_: uint256 = {text}\n    return 1\n",
                    "how": "python-construct", "base": "E: " + text[:50]})
    for i, text in enumerate(S):
        out.append({"id": f"pyS{i}", "src": f"@external\ndef f_() -> uint256:\n    {text}\n    return 1\n",
                    "how": "python-construct", "base": "S: " + text[:50]})
    for i, text in enumerate(M):
        out.append({"id": f"pyM{i}", "src": f"{text}\n\n@external\ndef f_() -> uint256:\n    return 1\n",
                    "how": "python-construct", "base": "M: " + text[:50]})
    return out
