"""C15 helpers: shapes shared by the Coq model and the real IRnode world, canonical printing."""
from vlib import coqrun

W = 2**256
HALF = 2**255
BOPS_ARITH = ["add", "sub", "mul", "div", "sdiv", "mod", "smod", "exp", "eq", "ne", "lt", "le", "gt", "ge",
              "slt", "sle", "sgt", "sge", "or", "and", "xor"]
PCS = [("PNone", None), ("PIf", "if"), ("PAssert", "assert"), ("PIszero", "iszero"), ("POther", "add")]


def hx(n):
    return ("-" + format(-n, "x")) if n < 0 else format(n, "x")


def lit_boundary():
    return [0, 1, 2, 3, 4, 7, 8, 32, 255, 256, 2**64, 2**128, 2**254, HALF - 2, HALF - 1, HALF, HALF + 1, HALF + 2,
            W - 3, W - 2, W - 1, -1, -2, -3, -128, -HALF, -HALF + 1, -HALF + 2]


# ---- shapes: python tuples  ("lit", v) ("var", name) ("cx", k) ("un", op, s) ("bin", op, s, s) ("seq", s) ("if", c, t, f)
def coq_of(s):
    k = s[0]
    if k == "lit":
        return f"(Lit {coqrun.hexlit(s[1])})"
    if k == "var":
        return f'(Var "{s[1]}")'
    if k == "cx":
        return f'(Node "sload" [Lit {s[1]}])'
    if k == "un":
        return f"(Un U_{s[1]} {coq_of(s[2])})"
    if k == "bin":
        return f"(Bin B_{s[1]} {coq_of(s[2])} {coq_of(s[3])})"
    if k == "seq":
        return f"(Seq1 {coq_of(s[1])})"
    if k == "if":
        return f'(Node "if" [{coq_of(s[1])}; {coq_of(s[2])}; {coq_of(s[3])}])'
    raise ValueError(s)


def ir_of(s):
    """nested python list accepted by IRnode.from_list; Cx k is (sload k)."""
    k = s[0]
    if k == "lit":
        return s[1]
    if k == "var":
        return s[1]
    if k == "cx":
        return ["sload", s[1]]
    if k == "un":
        return [s[1], ir_of(s[2])]
    if k == "bin":
        return [s[1], ir_of(s[2]), ir_of(s[3])]
    if k == "seq":
        return ["seq", ir_of(s[1])]
    if k == "if":
        return ["if", ir_of(s[1]), ir_of(s[2]), ir_of(s[3])]
    raise ValueError(s)


def show_shape(s):
    k = s[0]
    if k == "lit":
        return hx(s[1])
    if k == "var":
        return s[1]
    if k == "cx":
        return "(sload " + hx(s[1]) + ")"
    if k == "un":
        return f"({s[1]} {show_shape(s[2])})"
    if k == "bin":
        return f"({s[1]} {show_shape(s[2])} {show_shape(s[3])})"
    if k == "seq":
        return f"(seq {show_shape(s[1])})"
    if k == "if":
        return f"(if {show_shape(s[1])} {show_shape(s[2])} {show_shape(s[3])})"
    raise ValueError(s)


def show_ir(x):
    """canonical string of an IRnode / int / str / nested list, same format as Coq `show`."""
    from vyper.codegen.ir_node import IRnode
    if isinstance(x, IRnode):
        if isinstance(x.value, int):
            assert not x.args
            return hx(x.value)
        if not x.args:
            return f"({x.value})" if x.is_complex_ir else str(x.value)
        return "(" + " ".join([str(x.value)] + [show_ir(a) for a in x.args]) + ")"
    if isinstance(x, bool):
        raise ValueError("bool in IR")
    if isinstance(x, int):
        return hx(x)
    if isinstance(x, str):
        return x
    if isinstance(x, (list, tuple)):
        return "(" + " ".join(show_ir(a) for a in x) + ")"
    raise ValueError(repr(x))


def show_binop_result(res):
    if res is None:
        return "N"
    val, args, _ann = res
    if isinstance(val, int) and not isinstance(val, bool):
        assert args == []
        return hx(val)
    return "(" + " ".join([str(val)] + [show_ir(a) for a in args]) + ")"
