"""C14 (algebraic part): peephole rules of venom/passes/algebraic_optimization.py and the SCCP lattice.

Coq (coq/C14A): `alg_rewrite` models _rewrite_inst + _flip_inst (and chain_rewrite / handle_offset model
_rewrite_iszero_uses / _handle_offset); `alg_rewrite_sound` proves, for every valuation of the variables over the
whole of [0, 2^256), that the rewritten sequence gives the output variable the same value (same truthiness for the
rule that needs truthy users; exact negation for the two rules that also edit the user).

O-tie (this module, every run): single-instruction venom functions are built with parse_venom for the whole family
opcode x operand shape x use context, the REAL AlgebraicOptimizationPass is run on them, and the resulting
instruction list must equal -- syntactically -- the one the model predicts (vm_compute).  A difference is
correspondence-broken; then Search evaluates the block before/after the real pass on a boundary grid of operand
values with an independent word evaluator and reports a failing input if an observation changes.
"""
import itertools
import os
import time

from . import coqrun
from .common import COQ

W = 2**256
H = 2**255

COQ_FILES = ["C14A/Alg.v", "C14A/AlgLemmas.v", "C14A/AlgSound.v", "C14A/Sccp.v", "C14A/SccpSound.v", "C14A/PropsAlg.v"]
IMPORTS = "From Verif Require Import Base.Word256 C14A.Alg C14A.AlgHarness.\n"

BIN_OPS = ["add", "sub", "mul", "div", "sdiv", "mod", "smod", "exp", "and", "or", "xor", "eq", "gt", "lt", "sgt", "slt",
           "shl", "shr", "sar", "signextend", "byte"]
UN_OPS = ["not", "iszero"]
COQ_OP = {"add": "Oadd", "sub": "Osub", "mul": "Omul", "div": "Odiv", "sdiv": "Osdiv", "mod": "Omod", "smod": "Osmod",
          "exp": "Oexp", "and": "Oand", "or": "Oor", "xor": "Oxor", "not": "Onot", "iszero": "Oiszero", "eq": "Oeq",
          "gt": "Ogt", "lt": "Olt", "sgt": "Osgt", "slt": "Oslt", "shl": "Oshl", "shr": "Oshr", "sar": "Osar",
          "signextend": "Osignextend", "byte": "Obyte", "addmod": "Oaddmod", "mulmod": "Omulmod", "assign": "Oassign",
          "offset": "Ooffset"}
OP_CODE = ["add", "sub", "mul", "div", "sdiv", "mod", "smod", "exp", "and", "or", "xor", "not", "iszero", "eq", "gt", "lt",
           "sgt", "slt", "shl", "shr", "sar", "signextend", "byte", "addmod", "mulmod", "assign", "offset", "other"]

LITS = [0, 1, 2, 3, 4, 5, 8, 31, 32, 255, 256, 3 * 2**10, 2**64, 2**128, H, H - 1, H - 2, H + 1, W - 1, W - 2,
        -1, -2, -H, -H + 1, -H - 1, W, W + 1, 2 * W, W + 4]
LITPAIRS = [(0, 0), (1, 0), (0, 1), (5, 5), (5, 7), (7, 5), (-1, W - 1), (W - 1, -1), (2, 3), (W, 0), (H, -H), (8, 2)]

# operand = ("v", idx) | ("l", int);   x = var 0, y = var 1
X, Y = ("v", 0), ("v", 1)


def shapes():
    """(a, b) as written in the text `op a, b`"""
    s = [(X, Y), (X, X)]
    for L in LITS:
        s += [(X, ("l", L)), (("l", L), X)]
    s += [(("l", a), ("l", b)) for a, b in LITPAIRS]
    return s


# use contexts: (name, lines using %out [and %u], coq term for the list of uses, terminator-is-jnz)
CONTEXTS = [
    ("plain", ["mstore 0, %out"], "[UOther]"),
    ("iszero_plain", ["%u = iszero %out", "mstore 0, %u"], "[UIszero 1 false]"),
    ("iszero_assert", ["%u = iszero %out", "assert %u"], "[UIszero 1 true]"),
    ("iszero_two", ["%u = iszero %out", "mstore 0, %u", "mstore 32, %u"], "[UIszero 2 false]"),
    ("iszero_dead", ["%u = iszero %out"], "[UIszero 0 false]"),
    ("assert", ["assert %out"], "[UAssert]"),
    ("assert_unreachable", ["assert_unreachable %out"], "[UAssertUnreachable]"),
    ("jnz", ["jnz %out, @a, @b"], "[UJnz]"),
    ("plain_assert", ["mstore 0, %out", "assert %out"], "[UOther; UAssert]"),
    ("iszero_and_assert", ["%u = iszero %out", "assert %out", "mstore 0, %u"], "[UIszero 1 false; UAssert]"),
    ("two_asserts", ["assert %out", "assert %out"], "[UAssert; UAssert]"),
    ("dead", [], "[]"),
]


def otext(o):
    return f"%{'xy'[o[1]]}" if o[0] == "v" else str(o[1])


def ocoq(o):
    return f"Var {o[1]}" if o[0] == "v" else f"Lit {coqrun.hexlit(o[1])}"


def case_text(name, op, operands, ctx_lines):
    body = ["%x = calldataload 0", "%y = calldataload 32", f"%out = {op} {', '.join(otext(o) for o in operands)}"] + ctx_lines
    if not any(l.startswith("jnz") for l in ctx_lines):
        body.append("stop")
        tail = ""
    else:
        tail = "a:\n    stop\nb:\n    stop\n"
    return f"function {name} {{\n{name}:\n    " + "\n    ".join(body) + "\n" + tail + "}\n"


# ------------------------------------------------------------------ the real pass
VARMAP = {"%x": 0, "%y": 1, "%out": 10, "%u": 11, "%p": 5}


def canon_block(fn):
    """entry block after the pass as a list of (out|None, opcode, [operands]) with canonical variable ids
    (fresh variables numbered 100, 101, ... in order of appearance)"""
    from vyper.venom.basicblock import IRLabel, IRLiteral, IRVariable
    fresh = {}

    def var(v):
        n = v.name
        if n in VARMAP:
            return VARMAP[n]
        if n not in fresh:
            fresh[n] = 100 + len(fresh)
        return fresh[n]

    out = []
    bb = fn.entry
    for inst in bb.instructions:
        ops = []
        for o in inst.operands:
            if isinstance(o, IRLiteral):
                ops.append(("l", o.value))
            elif isinstance(o, IRVariable):
                ops.append(("v", var(o)))
            elif isinstance(o, IRLabel):
                ops.append(("b", o.value))
            else:
                ops.append(("?", str(o)))
        outs = inst.get_outputs()
        out.append((var(outs[0]) if len(outs) == 1 else (None if not outs else tuple(var(v) for v in outs)), inst.opcode, ops))
    return out


def run_real(texts):
    """texts: list of function texts -> list of canonical blocks (real AlgebraicOptimizationPass)"""
    from vyper.venom.analysis import IRAnalysesCache
    from vyper.venom.parser import parse_venom
    from vyper.venom.passes import AlgebraicOptimizationPass
    res = []
    CH = 150
    for i in range(0, len(texts), CH):
        ctx = parse_venom("\n".join(texts[i:i + CH]))
        fns = list(ctx.functions.values())
        assert len(fns) == len(texts[i:i + CH])
        for fn in fns:
            AlgebraicOptimizationPass(IRAnalysesCache(fn), fn).run_pass()
            res.append(canon_block(fn))
    return res


# ------------------------------------------------------------------ expected block from the model's result
def decode_result(z):
    """list of ints printed by AlgHarness.enc_result -> (after, pre insts, inst)"""
    it = iter(z)
    after = next(it)
    t = next(it)
    n = next(it)
    insts = []
    for _ in range(n + 1):
        out = next(it)
        opc = OP_CODE[next(it)]
        k = next(it)
        ops = []
        for _ in range(k):
            tag = next(it)
            val = next(it)
            ops.append((("l", "v", "b")[tag], val))
        insts.append((out, opc, ops))
    rest = list(it)
    assert not rest, rest
    return after, t, insts[:-1], insts[-1]


def ctx_insts(lines):
    out = []
    for l in lines:
        if l.startswith("%u = iszero"):
            out.append((11, "iszero", [("v", 10)]))
        elif l.startswith("mstore"):
            off, v = l[len("mstore "):].split(", ")
            out.append((None, "mstore", [("v", VARMAP[v]), ("l", int(off))]))
        elif l.startswith("assert_unreachable"):
            out.append((None, "assert_unreachable", [("v", VARMAP[l.split()[1]])]))
        elif l.startswith("assert"):
            out.append((None, "assert", [("v", VARMAP[l.split()[1]])]))
        elif l.startswith("jnz"):
            out.append((None, "jnz", [("v", 10), ("b", "a"), ("b", "b")]))
        else:
            raise AssertionError(l)
    return out


def expected_block(decoded, ctx_lines):
    after, t, pre, inst = decoded
    blk = [(0, "calldataload", [("l", 0)]), (1, "calldataload", [("l", 32)])] + pre + [inst]
    users = ctx_insts(ctx_lines)
    if after == 1:      # AToAssign: the iszero user becomes an assign
        users = [(o, "assign", a) if opc == "iszero" else (o, opc, a) for (o, opc, a) in users]
    elif after == 2:    # AInsertIszero t
        new = []
        for (o, opc, a) in users:
            if opc == "assert":
                new.append((t, "iszero", [("v", 10)]))
                new.append((None, "assert", [("v", t)]))
            else:
                new.append((o, opc, a))
        users = new
    blk += users
    if not any(u[1] == "jnz" for u in users):
        blk.append((None, "stop", []))
    return blk


# ------------------------------------------------------------------ independent evaluator (Search)
def ts(x):
    return x - W if x >= H else x


def w_eval(op, a):
    """a in text order (a[0] is the first operand in the text = top of stack)"""
    x = a[0]
    y = a[1] if len(a) > 1 else None
    if op == "add": return (x + y) % W
    if op == "sub": return (x - y) % W
    if op == "mul": return (x * y) % W
    if op == "div": return 0 if y == 0 else x // y
    if op == "mod": return 0 if y == 0 else x % y
    if op == "sdiv":
        if y == 0: return 0
        p, q = ts(x), ts(y)
        r = abs(p) // abs(q)
        return (r if (p < 0) == (q < 0) else -r) % W
    if op == "smod":
        if y == 0: return 0
        p, q = ts(x), ts(y)
        r = abs(p) % abs(q)
        return (-r if p < 0 else r) % W
    if op == "exp": return pow(x, y, W)
    if op == "and": return x & y
    if op == "or": return x | y
    if op == "xor": return x ^ y
    if op == "not": return W - 1 - x
    if op == "iszero": return int(x == 0)
    if op == "eq": return int(x == y)
    if op == "gt": return int(x > y)
    if op == "lt": return int(x < y)
    if op == "sgt": return int(ts(x) > ts(y))
    if op == "slt": return int(ts(x) < ts(y))
    if op == "shl": return (y << x) % W if x < 256 else 0
    if op == "shr": return y >> x if x < 256 else 0
    if op == "sar": return ((ts(y) >> x) % W) if x < 256 else (W - 1 if ts(y) < 0 else 0)
    if op == "signextend":
        if x >= 31: return y
        bits = 8 * (x + 1)
        low = y % (1 << bits)
        return low if low < (1 << (bits - 1)) else low + W - (1 << bits)
    if op == "byte": return (y >> (8 * (31 - x))) & 0xFF if x < 32 else 0
    if op == "addmod": return 0 if a[2] == 0 else (x + y) % a[2]
    if op == "mulmod": return 0 if a[2] == 0 else (x * y) % a[2]
    if op == "assign": return x
    raise KeyError(op)


def observe_block(blk, xv, yv):
    """run a canonical block; observations = what the environment can see (stored values, assertion/branch outcomes)"""
    env = {0: xv, 1: yv}
    obs = []
    for out, opc, ops in blk:
        vals = [env[o[1]] if o[0] == "v" else (o[1] % W if o[0] == "l" else 0) for o in ops]
        if opc == "calldataload":
            continue
        if opc == "mstore":
            obs.append(("mstore", vals[1], vals[0]))
        elif opc in ("assert", "assert_unreachable"):
            obs.append((opc, vals[0] != 0))
            if vals[0] == 0:
                break
        elif opc == "jnz":
            obs.append(("jnz", vals[0] != 0))
        elif opc == "stop":
            break
        else:
            env[out] = w_eval(opc, list(reversed(vals)))
    return obs


GRID = [0, 1, 2, 3, 5, 7, 8, 31, 32, 255, 256, 2**64, H - 1, H, H + 1, W - 2, W - 1, 0x1234567890ABCDEF << 100]


def search_block(before, after):
    for xv in GRID:
        for yv in GRID:
            try:
                a, b = observe_block(before, xv, yv), observe_block(after, xv, yv)
            except KeyError:
                return None
            if a != b:
                return {"x": hex(xv), "y": hex(yv), "before": str(a), "after": str(b)}
    return None


def original_block(op, operands, ctx_lines):
    ops = [("v", o[1]) if o[0] == "v" else ("l", o[1]) for o in reversed(operands)]
    blk = [(0, "calldataload", [("l", 0)]), (1, "calldataload", [("l", 32)]), (10, op, ops)] + ctx_insts(ctx_lines)
    if not any(l.startswith("jnz") for l in ctx_lines):
        blk.append((None, "stop", []))
    return blk


def interp(fn, inputs, fuel=400):
    """observations of a (small, call-free) venom function on the real IR objects: stored values and assert outcomes,
    in order, with control flow (jmp/jnz/phi).  inputs: calldata offset -> word.  Raises KeyError on unknown opcodes."""
    from vyper.venom.basicblock import IRLabel, IRLiteral, IRVariable
    env, obs = {}, []
    bb, prev = fn.entry, None
    while fuel > 0:
        nxt = None
        for inst in bb.instructions:
            fuel -= 1
            opc = inst.opcode

            def val(o):
                if isinstance(o, IRLiteral):
                    return o.value % W
                if isinstance(o, IRVariable):
                    return env[o.name]
                return 0
            if opc == "phi":
                for lbl, var in inst.phi_operands:
                    if prev is not None and lbl.value == prev.label.value:
                        env[inst.output.name] = val(var)
                continue
            if opc == "nop":
                continue
            vals = [val(o) for o in inst.operands]
            if opc == "calldataload":
                env[inst.output.name] = inputs.get(vals[0], 0)
            elif opc == "mstore":
                obs.append(("mstore", vals[1], vals[0]))
            elif opc in ("assert", "assert_unreachable"):
                obs.append((opc, vals[0] != 0))
                if vals[0] == 0:
                    return obs
            elif opc == "jmp":
                nxt = fn.get_basic_block(inst.operands[0].value)
            elif opc == "jnz":
                nxt = fn.get_basic_block(inst.operands[1].value if vals[0] != 0 else inst.operands[2].value)
            elif opc in ("stop", "return", "revert"):
                return obs
            else:
                env[inst.output.name] = w_eval(opc, list(reversed(vals)))
        if nxt is None:
            return obs
        prev, bb = bb, nxt
    return obs + [("out-of-fuel",)]


def search_fn(text, run_pass, grid=None):
    """run `run_pass(fn)` on a fresh parse of `text`; compare observations before/after on an input grid"""
    from vyper.venom.parser import parse_venom
    f0 = list(parse_venom(text).functions.values())[0]
    f1 = list(parse_venom(text).functions.values())[0]
    run_pass(f1)
    for xv in (grid or GRID):
        for yv in (0, 1, 5, W - 1):
            inp = {0: xv, 32: yv}
            try:
                a, b = interp(f0, inp), interp(f1, inp)
            except KeyError:
                return None
            if a != b:
                return {"calldata_words": {"0": hex(xv), "32": hex(yv)}, "before": str(a), "after": str(b), "after_pass": str(f1)}
    return None


SCCP_SCENARIOS = [
    # phi of two different constants / equal constants / constant and unknown; branch folding; chained arithmetic
    """function s {
s:
    %c = calldataload 0
    jnz %c, @a, @b
a:
    %v1 = 1
    jmp @j
b:
    %v2 = 2
    jmp @j
j:
    %p = phi @a, %v1, @b, %v2
    %q = add %p, 10
    mstore 0, %q
    stop
}
""",
    """function s {
s:
    %c = calldataload 0
    jnz %c, @a, @b
a:
    %v1 = 7
    jmp @j
b:
    %v2 = calldataload 32
    jmp @j
j:
    %p = phi @a, %v1, @b, %v2
    %q = iszero %p
    jnz %q, @t, @f
t:
    mstore 0, 1
    stop
f:
    mstore 0, 2
    stop
}
""",
    """function s {
s:
    %c = calldataload 0
    %k = sub 3, 3
    jnz %k, @a, @b
a:
    mstore 0, 11
    jmp @j
b:
    %z = lt %c, 5
    mstore 0, %z
    jmp @j
j:
    %w = sdiv 7, 0
    mstore 32, %w
    stop
}
""",
]


def search_sccp():
    from vyper.venom.analysis import IRAnalysesCache
    from vyper.venom.passes.sccp import SCCP

    def run(fn):
        SCCP(IRAnalysesCache(fn), fn).run_pass()
    for text in SCCP_SCENARIOS:
        w = search_fn(text, run, grid=[0, 1, 2, 4, 5, 6, W - 1])
        if w is not None:
            w["venom"] = text
            return w
    return None


def run_alg(fn):
    from vyper.venom.analysis import IRAnalysesCache
    from vyper.venom.passes import AlgebraicOptimizationPass
    AlgebraicOptimizationPass(IRAnalysesCache(fn), fn).run_pass()


# ------------------------------------------------------------------ the family
CTX_SENSITIVE = ("or", "eq", "gt", "lt", "sgt", "slt")     # rules that look at the users
FEW_CTX = [0, 1, 5]                                        # plain, iszero_plain, assert


def op_shapes(op):
    # signextend on two literals: the range-based branch of _rule_signextend decides on a literal's singleton
    # range (proved in C14/RangeClients.v, not modelled here)
    return [s for s in shapes() if not (op == "signextend" and s[0][0] == "l" and s[1][0] == "l")]


def op_ctxs(op, tier):
    return list(range(len(CONTEXTS))) if (op in CTX_SENSITIVE or tier == "thorough") else FEW_CTX


def family(tier):
    """list of dict(op, operands (text order), ctx index); binary opcodes first, shape-major (= AlgHarness.enc_fam)"""
    fam = []
    for op in BIN_OPS:
        for (a, b) in op_shapes(op):
            for ci in op_ctxs(op, tier):
                fam.append({"op": op, "operands": [a, b], "ctx": ci})
    for op in UN_OPS:
        for a in [X] + [("l", L) for L in (0, 1, 5, -1, W - 1)]:
            for ci, c in enumerate(CONTEXTS):
                if c[0] in ("plain", "assert", "jnz", "plain_assert", "dead"):
                    fam.append({"op": op, "operands": [a], "ctx": ci})
    for op in ("addmod", "mulmod"):
        for ops in ([X, Y, ("l", 7)], [X, ("l", 0), Y], [("l", 1), X, ("l", 0)]):
            fam.append({"op": op, "operands": ops, "ctx": 0})
    return fam


def coq_case(c):
    args = "; ".join(ocoq(o) for o in reversed(c["operands"]))   # internal order = reversed text order
    return f"(mkI 10 {COQ_OP[c['op']]} [{args}], {CONTEXTS[c['ctx']][2]})"


def part_peephole(ctx):
    fam = family(ctx.tier)
    texts = [case_text(f"f{k}", c["op"], c["operands"], CONTEXTS[c["ctx"]][1]) for k, c in enumerate(fam)]
    t0 = time.time()
    real = run_real(texts)
    t_real = time.time() - t0
    # model predictions: one Eval per binary opcode (family built inside Coq), one for the rest
    defs = IMPORTS
    defs += "Definition SHAPES : list (list operand) := [" + "; ".join(
        f"[{ocoq(b)}; {ocoq(a)}]" for a, b in shapes()) + "].\n"
    defs += "Definition SHAPES_SE : list (list operand) := [" + "; ".join(
        f"[{ocoq(b)}; {ocoq(a)}]" for a, b in op_shapes("signextend")) + "].\n"
    defs += "Definition CTXS_ALL : list (list use) := [" + "; ".join(c[2] for c in CONTEXTS) + "].\n"
    defs += "Definition CTXS_FEW : list (list use) := [" + "; ".join(CONTEXTS[i][2] for i in FEW_CTX) + "].\n"
    exprs = []
    nbin = 0
    for op in BIN_OPS:
        cs = "CTXS_ALL" if len(op_ctxs(op, ctx.tier)) == len(CONTEXTS) else "CTXS_FEW"
        exprs.append(f"enc_fam 100 {COQ_OP[op]} {'SHAPES_SE' if op == 'signextend' else 'SHAPES'} {cs}")
        nbin += len(op_shapes(op)) * len(op_ctxs(op, ctx.tier))
    exprs.append("enc_results 100 [" + "; ".join(coq_case(c) for c in fam[nbin:]) + "]")
    t0 = time.time()
    outs = coqrun.eval_zlists(defs, exprs, f"c14a_peep_{os.getpid()}", shard=max(1, (len(exprs) + 7) // 8), timeout=600)
    t_coq = time.time() - t0
    flat = []
    for o in outs:
        flat += split_results(o)
    assert len(flat) == len(fam), (len(flat), len(fam))
    n_rewritten = 0
    by_rule = {}
    bad = 0
    mism = []
    for c, z, rb in zip(fam, flat, real):
        dec = decode_result(z)
        exp = expected_block(dec, CONTEXTS[c["ctx"]][1])
        orig = original_block(c["op"], c["operands"], CONTEXTS[c["ctx"]][1])
        if rb != orig:
            n_rewritten += 1
            by_rule[c["op"]] = by_rule.get(c["op"], 0) + 1
        if exp != rb:
            bad += 1
            mism.append((c, exp, rb, orig))
    # Search: a difference with a witness is a failing input; differences without one are reported only if no
    # witness was found at all (the same defect usually shows in many family members, some behaviour-neutral)
    wit, nowit = [], []
    for (c, exp, rb, orig) in mism[:400]:
        w = search_block(orig, rb)
        (wit if w is not None else nowit).append((c, exp, rb, w))
        if len(wit) >= 3:
            break
    for (c, exp, rb, w) in (wit[:3] if wit else nowit[:3]):
        text = case_text("f", c["op"], c["operands"], CONTEXTS[c["ctx"]][1])
        detail = {"venom": text, "context": CONTEXTS[c["ctx"]][0], "real_pass_output": fmt_block(rb),
                  "model_output": fmt_block(exp), "family_members_differing": bad,
                  "call": "AlgebraicOptimizationPass(IRAnalysesCache(fn), fn).run_pass() on parse_venom(venom)"}
        if w is not None:
            try:
                inp = {0: int(w["x"], 16), 32: int(w["y"], 16)}
                detail["pyrevm_through_real_backend"] = {"before_pass": evm_run(text, None, inp), "after_pass": evm_run(text, run_alg, inp)}
            except Exception as ex:  # noqa
                detail["pyrevm_through_real_backend"] = f"not available: {type(ex).__name__}: {ex}"
            detail.update({"operand_values": w, "oracle": "observations (stored values, assert/jnz outcomes) of the block "
                           "before vs after the real pass, evaluated with EVM word semantics"})
            ctx.violation("failing-input", "AlgebraicOptimizationPass changes the behaviour of an instruction", detail,
                          key=f"algebraic:{c['op']}:{CONTEXTS[c['ctx']][0]}")
        else:
            ctx.violation("correspondence-broken", f"alg_rewrite model differs from AlgebraicOptimizationPass on {c['op']} "
                          f"({CONTEXTS[c['ctx']][0]})", detail)
    ctx.corr["peephole_family"] = len(fam)
    ctx.corr["peephole_rewritten_by_real_pass"] = n_rewritten
    ctx.corr["peephole_rewritten_per_opcode"] = by_rule
    ctx.corr["peephole_syntactic_matches"] = len(fam) - bad
    ctx.corr["peephole_seconds"] = {"real_pass": round(t_real, 1), "coq": round(t_coq, 1)}
    if fam:
        k = next((k for k, c in enumerate(fam) if c["op"] == "gt" and real[k] != original_block(c["op"], c["operands"], CONTEXTS[c["ctx"]][1])), 0)
        ctx.samples.append({"venom": texts[k].splitlines()[4].strip(), "context": CONTEXTS[fam[k]["ctx"]][0],
                            "after_pass": fmt_block(real[k])[2:]})
    return len(fam), bad


def split_results(z):
    """enc_results separates results by the marker -7"""
    out, cur = [], []
    for v in z:
        if v == -7:
            out.append(cur)
            cur = []
        else:
            cur.append(v)
    assert not cur
    return out


def fmt_block(blk):
    def o(x):
        return (f"%{x[1]}" if x[0] == "v" else (hex(x[1]) if abs(x[1]) > 1024 else str(x[1])) if x[0] == "l" else f"@{x[1]}")
    return [(f"%{out} = " if out is not None else "") + opc + " " + ", ".join(o(x) for x in reversed(ops)) for out, opc, ops in blk]


# ------------------------------------------------------------------ producer rule, iszero chains, offset
def part_misc(ctx):
    n = bad = 0
    # signextend(n, signextend(m, x))
    texts, exprs, meta = [], [], []
    for m in (0, 1, 5, 30):
        for nn in (0, 1, 4, 5, 6, 29, 30, 31, 32, W - 1):
            texts.append(f"function s{len(texts)} {{\ns{len(texts)}:\n    %x = calldataload 0\n    %p = signextend {m}, %x\n"
                         f"    %out = signextend {nn}, %p\n    mstore 0, %out\n    stop\n}}\n")
            exprs.append(f"(mkI 10 Osignextend [Var 5; Lit {coqrun.hexlit(nn)}], [UOther], Some (mkI 5 Osignextend [Var 0; Lit {m}]))")
            meta.append((m, nn))
    real = run_real(texts)
    outs = coqrun.eval_zlists(IMPORTS, [f"enc_results_p 100 [{'; '.join(exprs)}]"], f"c14a_prod_{os.getpid()}", shard=1, timeout=300)
    for (m, nn), z, rb, text in zip(meta, split_results(outs[0]), real, texts):
        after, t, pre, inst = decode_result(z)
        exp = [(0, "calldataload", [("l", 0)]), (5, "signextend", [("v", 0), ("l", m)])] + pre + [inst,
               (None, "mstore", [("v", 10), ("l", 0)]), (None, "stop", [])]
        n += 1
        if exp != rb:
            bad += 1
            ctx.violation("correspondence-broken", "signextend-of-signextend rule: model differs from the real pass",
                          {"venom": text, "real": fmt_block(rb), "model": fmt_block(exp)})
            break
    # iszero chains
    users = [("jnz", True, "jnz {v}, @a, @b"), ("assert", True, "assert {v}"), ("assert_unreachable", True, "assert_unreachable {v}"),
             ("mstore", False, "mstore 64, {v}"), ("add", False, "%9 = add {v}, 1"), ("not", False, "%9 = not {v}")]
    texts, exprs, meta = [], [], []
    for root in ("%x", "5"):
        for depth in range(1, 8):
            for uname, truthy, tpl in users:
                lines = ["%x = calldataload 0"]
                prev = root
                for d in range(1, depth + 1):
                    lines.append(f"%c{d} = iszero {prev}")
                    prev = f"%c{d}"
                lines.append(tpl.format(v=prev))
                if uname in ("add", "not"):
                    lines.append("mstore 0, %9")
                tail = ""
                if uname == "jnz":
                    tail = "a:\n    stop\nb:\n    stop\n"
                else:
                    lines.append("stop")
                name = f"c{len(texts)}"
                texts.append(f"function {name} {{\n{name}:\n    " + "\n    ".join(lines) + "\n" + tail + "}\n")
                exprs.append(f"enc_chain {'true' if truthy else 'false'} {depth}")
                meta.append((root, depth, uname))
    outs = coqrun.eval_zlists(IMPORTS, ["(" + " ++ ".join(exprs) + ")"], f"c14a_chain_{os.getpid()}", shard=1, timeout=300)[0]
    from vyper.venom.analysis import IRAnalysesCache
    from vyper.venom.parser import parse_venom
    from vyper.venom.passes import AlgebraicOptimizationPass
    pctx = parse_venom("\n".join(texts))
    for (root, depth, uname), k, fn, text in zip(meta, outs, pctx.functions.values(), texts):
        AlgebraicOptimizationPass(IRAnalysesCache(fn), fn).run_pass()
        user = next(i for i in fn.entry.instructions if i.opcode == uname)
        from vyper.venom.basicblock import IRLiteral as _L, IRVariable as _V
        vs = [o for o in user.operands if isinstance(o, _V)]
        ls = [o for o in user.operands if isinstance(o, _L) and o.value == 5]
        got = str(vs[0]) if vs else (str(ls[0]) if ls else "?")
        keep = depth if k < 0 else k
        want = root if keep == 0 else f"%c{keep}"
        n += 1
        if got != want:
            bad += 1
            w = search_fn(text, run_alg)
            detail = {"venom": text, "real_operand": got, "model_operand": want, "depth": depth, "user": uname}
            if w is not None:
                detail.update(w)
                ctx.violation("failing-input", "AlgebraicOptimizationPass (_rewrite_iszero_uses) changes the behaviour of an iszero chain",
                              detail, key=f"algebraic:iszero-chain:{uname}")
            else:
                ctx.violation("correspondence-broken", "_rewrite_iszero_uses: chain operand differs from chain_rewrite", detail)
            break
    # _handle_offset
    text = ("function o {\no:\n    %x = calldataload 0\n    %out = add @o, 4\n    %3 = add 4, @o\n    %4 = add %x, 4\n"
            "    mstore 0, %out\n    mstore 32, %3\n    mstore 64, %4\n    stop\n}\n")
    pctx = parse_venom(text)
    fn = list(pctx.functions.values())[0]
    AlgebraicOptimizationPass(IRAnalysesCache(fn), fn).run_pass()
    got = [i.opcode for i in fn.entry.instructions if i.get_outputs() and str(i.get_outputs()[0]) in ("%out", "%3", "%4")]
    z = coqrun.eval_zlists(IMPORTS, ["enc_offsets"], f"c14a_off_{os.getpid()}", shard=1, timeout=120)[0]
    want = [OP_CODE[v] for v in z]
    n += 1
    if got != want:
        bad += 1
        ctx.violation("correspondence-broken", "_handle_offset differs from handle_offset", {"venom": text, "real": got, "model": want})
    ctx.corr["misc_cases"] = n
    return n, bad


# ------------------------------------------------------------------ composite programs (pass-level differential)
FUZZ_LITS = [0, 1, 2, 3, 5, 8, 31, 32, 255, 256, H, H - 1, H + 1, W - 1, W - 2, -1, -2, -H, -H + 1]


def gen_program(rnd, n):
    """straight-line program mixing iszero chains, comparators, literals and several kinds of users, so that the
    rules interact (stale chain targets, rewritten producers, single-use conditions)"""
    lines = ["%x = calldataload 0", "%y = calldataload 32"]
    vs = ["%x", "%y"]

    def opnd():
        if rnd.random() < 0.35:
            return str(rnd.choice(FUZZ_LITS))
        return rnd.choice(vs[-3:]) if rnd.random() < 0.6 else rnd.choice(vs)
    for k in range(n):
        r = rnd.random()
        v = f"%v{k}"
        if r < 0.3:
            lines.append(f"{v} = iszero {rnd.choice(vs[-2:])}")
        elif r < 0.35:
            lines.append(f"{v} = not {opnd()}")
        else:
            op = rnd.choice(BIN_OPS if rnd.random() < 0.5 else ["gt", "lt", "sgt", "slt", "eq", "or"])
            a, b = opnd(), opnd()
            if a.lstrip("-").isdigit() and b.lstrip("-").isdigit():
                a = rnd.choice(vs)
            lines.append(f"{v} = {op} {a}, {b}")
        vs.append(v)
        if rnd.random() < 0.15:
            lines.append(f"assert {v}")
    off = 0
    for v in rnd.sample(vs[2:], min(len(vs) - 2, rnd.randrange(1, 4))):
        lines.append(f"mstore {off}, {v}")
        off += 32
    tail = ""
    if rnd.random() < 0.4:
        lines.append(f"jnz {vs[-1]}, @a, @b")
        tail = "a:\n    mstore 320, 1\n    stop\nb:\n    mstore 320, 2\n    stop\n"
    else:
        lines.append("stop")
    return "function f {\nf:\n    " + "\n    ".join(lines) + "\n" + tail + "}\n"


def part_composite(ctx):
    rnd = ctx.rng("c14a-composite")
    n = 600 if ctx.tier == "quick" else 6000
    grid = [0, 1, 2, 5, 31, 32, 255, H - 1, H, H + 1, W - 2, W - 1]
    changed = 0
    from vyper.venom.parser import parse_venom
    for k in range(n):
        text = gen_program(rnd, rnd.randrange(3, 10))
        f = list(parse_venom(text).functions.values())[0]
        s0 = str(f)
        run_alg(f)
        changed += str(f) != s0
        w = search_fn(text, run_alg, grid=grid)
        if w is not None:
            ctx.violation("failing-input", "AlgebraicOptimizationPass changes the behaviour of a program",
                          dict(w, venom=text, call="AlgebraicOptimizationPass(IRAnalysesCache(fn), fn).run_pass() on parse_venom(venom)",
                               oracle="stored values / assert outcomes before vs after the pass, EVM word semantics"),
                          key="algebraic:composite")
            return k + 1, 1
    ctx.corr["composite_programs"] = n
    ctx.corr["composite_programs_changed_by_pass"] = changed
    return n, 0


# ------------------------------------------------------------------ the real back end + pyrevm as a second oracle
MEM = 352


def evm_run(text, run_pass, inputs, chain=None):
    """compile the function with the real venom back end (stop -> return of the first MEM bytes of memory so that the
    stores are observable), run it on pyrevm -> (ok, returndata hex)"""
    from vyper.compiler.settings import OptimizationLevel
    from vyper.ir.compile_ir import assembly_to_evm
    from vyper.venom import generate_assembly_experimental
    from vyper.venom.parser import parse_venom
    from . import evm
    pctx = parse_venom(text.replace("    stop\n", f"    return 0, {MEM}\n"))
    fn = list(pctx.functions.values())[0]
    if run_pass is not None:
        run_pass(fn)
    # the three normalisation passes every pipeline ends with (the code generator requires their output form)
    from vyper.venom.analysis import IRAnalysesCache
    from vyper.venom.passes import CFGNormalization, DFTPass, SingleUseExpansion
    for f in pctx.functions.values():
        ac = IRAnalysesCache(f)
        for pcls in (SingleUseExpansion, DFTPass, CFGNormalization):
            pcls(ac, f).run_pass()
    r = assembly_to_evm(generate_assembly_experimental(pctx, OptimizationLevel.NONE))
    code = r[0] if isinstance(r, tuple) else r
    ch = chain or evm.Chain("cancun")
    addr = ch.deploy(bytes([0x61]) + len(code).to_bytes(2, "big") + bytes([0x80, 0x60, 0x0C, 0x60, 0, 0x39, 0x60, 0, 0xF3]) + code)
    data = b"".join(inputs.get(k, 0).to_bytes(32, "big") for k in (0, 32))
    res = ch.call(addr, data)
    return (res.ok, res.out.hex())


def obs_to_evm(obs):
    mem = bytearray(MEM)
    for o in obs:
        if o[0] in ("assert", "assert_unreachable") and not o[1]:
            return (False, "")
        if o[0] == "mstore":
            mem[o[1]:o[1] + 32] = o[2].to_bytes(32, "big")
    return (True, bytes(mem).hex())


def part_evm_oracle(ctx):
    """(a) the independent evaluator used by Search agrees with pyrevm on real back-end output;
       (b) before/after the real pass agree on pyrevm (sample of the family + composite programs)"""
    from vyper.venom.parser import parse_venom
    from . import evm
    rnd = ctx.rng("c14a-evm")
    fam = family(ctx.tier)
    pick = rnd.sample(fam, 220 if ctx.tier == "quick" else 1500)
    texts = [case_text("f", c["op"], c["operands"], CONTEXTS[c["ctx"]][1]) for c in pick]
    texts += [gen_program(rnd, rnd.randrange(3, 9)) for _ in range(80 if ctx.tier == "quick" else 600)]
    ch = evm.Chain("cancun")
    n = skipped = 0
    vals = [0, 1, 2, 5, 255, H - 1, H, H + 1, W - 2, W - 1]
    for text in texts:
        for _ in range(2):
            inp = {0: rnd.choice(vals), 32: rnd.choice(vals)}
            try:
                want = obs_to_evm(interp(list(parse_venom(text).functions.values())[0], inp))
            except KeyError:
                continue
            try:
                before = evm_run(text, None, inp, ch)
            except Exception:  # noqa  (e.g. literals outside the word range cannot be assembled: not front-end output)
                skipped += 1
                continue
            try:
                after = evm_run(text, run_alg, inp, ch)
            except Exception as ex:  # noqa
                ctx.violation("correspondence-broken", "output of AlgebraicOptimizationPass cannot be compiled by the back end "
                              f"although the input can: {type(ex).__name__}: {ex}", {"venom": text})
                return n
            n += 1
            if before[0] != want[0] or (before[0] and before[1] != want[1]):
                ctx.violation("correspondence-broken", "the word evaluator used by Search disagrees with pyrevm on back-end output",
                              {"venom": text, "calldata_words": {k: hex(v) for k, v in inp.items()}, "evaluator": want, "pyrevm": before})
                return n
            if after[0] != before[0] or (before[0] and after[1] != before[1]):
                ctx.violation("failing-input", "AlgebraicOptimizationPass changes the behaviour observed on pyrevm",
                              {"venom": text, "calldata_words": {k: hex(v) for k, v in inp.items()}, "before_pass": before, "after_pass": after,
                               "call": "AlgebraicOptimizationPass on parse_venom(venom); both versions compiled with the venom back end, run on pyrevm"},
                              key="algebraic:evm")
                return n
    ctx.corr["evm_oracle_runs"] = n
    ctx.corr["evm_oracle_skipped_uncompilable_input"] = skipped
    return n


# ------------------------------------------------------------------ SCCP lattice
SCCP_IMPORTS = "From Verif Require Import Base.PyInt C14.GenEval C14A.Sccp C14A.SccpSound C14A.SccpHarness.\nOpen Scope string_scope.\n"


def part_sccp(ctx):
    from vyper.venom.analysis import DFGAnalysis, IRAnalysesCache
    from vyper.venom.basicblock import IRLabel, IRLiteral
    from vyper.venom.parser import parse_venom
    from vyper.venom.passes.sccp import sccp as S
    import functools
    TOP, BOT = S.LatticeEnum.TOP, S.LatticeEnum.BOTTOM
    lits = [0, 1, 5, -1, W - 1, H, 7]
    labels = ["a", "b"]
    items = [TOP, BOT] + [IRLiteral(v) for v in lits] + [IRLabel(n) for n in labels]

    def coq_lat(x):
        if x is TOP:
            return "LTop"
        if x is BOT:
            return "LBottom"
        if isinstance(x, IRLiteral):
            return f"(LConst {coqrun.hexlit(x.value)})"
        return f"(LLabel {labels.index(x.value)})"

    def enc(x):
        if x is TOP or x == TOP:
            return [0]
        if x is BOT or x == BOT:
            return [3]
        if isinstance(x, IRLiteral):
            return [1, x.value]
        if isinstance(x, IRLabel):
            return [2, labels.index(x.value)]
        return [99]

    n = bad = 0
    pending = []

    def broken(name, detail):
        pending.append((name, detail))
    # _meet on the full family
    real = [enc(S._meet(x, y)) for x in items for y in items]
    rnd = ctx.rng("sccp")
    lists = [[rnd.choice(items) for _ in range(rnd.randrange(0, 5))] for _ in range(60)]
    real_all = [enc(functools.reduce(S._meet, l, TOP)) for l in lists]
    exprs = [f"enc_meets [{'; '.join(coq_lat(x) for x in items)}]",
             "enc_meet_all [" + "; ".join("[" + "; ".join(coq_lat(x) for x in l) + "]" for l in lists) + "]"]
    # _eval through a real SCCP object with a prepared lattice
    ops2 = ["add", "sub", "mul", "div", "sdiv", "mod", "smod", "exp", "and", "or", "xor", "eq", "lt", "gt", "slt", "sgt",
            "shl", "shr", "sar", "signextend", "byte"]
    states = [TOP, BOT, IRLiteral(0), IRLiteral(5), IRLiteral(-1), IRLiteral(W - 2)]
    eval_cases = []     # (op, text operands a b, lattice x, lattice y)
    for op in ops2:
        for lx in states:
            for ly in states:
                eval_cases.append((op, "%x", "%y", lx, ly))
        eval_cases.append((op, "%x", "3", IRLiteral(9), None))
        eval_cases.append((op, "3", "%x", TOP, None))
        eval_cases.append((op, "@e", "%x", IRLiteral(1), None))
        eval_cases.append((op, "%x", "@e", BOT, None))
    for op in ("not", "iszero"):
        for lx in states:
            eval_cases.append((op, "%x", None, lx, None))
    real_eval = []
    by_op = {}
    for (op, a, b, lx, ly) in eval_cases:
        text = ("function e {\ne:\n    %x = calldataload 0\n    %y = calldataload 32\n" +
                f"    %out = {op} {a}{', ' + b if b is not None else ''}\n    mstore 0, %out\n    stop\n}}\n")
        pctx = parse_venom(text)
        fn = list(pctx.functions.values())[0]
        ac = IRAnalysesCache(fn)
        p = S.SCCP(ac, fn)
        p.fn = fn
        p.dfg = ac.request_analysis(DFGAnalysis)
        inst = next(i for i in fn.entry.instructions if i.opcode == op)
        for v in p.dfg._dfg_outputs:
            p.lattice[v] = TOP
        for o in inst.operands:
            if str(o) == "%x":
                p.lattice[o] = lx
            if str(o) == "%y":
                p.lattice[o] = ly
        try:
            r = enc(p._eval(inst))
        except Exception as ex:  # noqa
            r = [9]
        real_eval.append(r)

        def lat_of(o):
            if str(o) == "%x":
                return coq_lat(lx)
            if str(o) == "%y":
                return coq_lat(ly)
            if isinstance(o, IRLiteral):
                return f"(LConst {coqrun.hexlit(o.value)})"
            return "(LLabel 0)"
        by_op.setdefault(op, []).append("[" + "; ".join(lat_of(o) for o in inst.operands) + "]")
    op_order = list(by_op)
    for op in op_order:
        exprs.append(f'enc_evals "{op}" [{"; ".join(by_op[op])}]')
    outs = coqrun.eval_zlists(SCCP_IMPORTS, exprs, f"c14a_sccp_{os.getpid()}", shard=max(1, (len(exprs) + 5) // 6), timeout=300)
    model_meet = split_results(outs[0])
    pairs = [(x, y) for x in items for y in items]
    for (x, y), r, m in zip(pairs, real, model_meet):
        n += 1
        if r != m:
            bad += 1
            broken("SCCP _meet differs from the lattice model",
                          {"x": str(x), "y": str(y), "real": r, "model": m, "legend": "[0]=TOP [1,v]=literal [2,n]=label [3]=BOTTOM"})
            break
    for l, r, m in zip(lists, real_all, split_results(outs[1])):
        n += 1
        if r != m:
            bad += 1
            broken("reduce(_meet, ., TOP) differs from meet_all", {"items": [str(x) for x in l], "real": r, "model": m})
            break
    # regroup model evals in case order
    model_eval = {op: split_results(o) for op, o in zip(op_order, outs[2:])}
    cursor = {op: 0 for op in op_order}
    for (op, a, b, lx, ly), r in zip(eval_cases, real_eval):
        m = model_eval[op][cursor[op]]
        cursor[op] += 1
        n += 1
        # literals are compared as words (eval_arith returns the unsigned representative)
        if r != m:
            bad += 1
            broken("SCCP._eval differs from sccp_eval",
                          {"instruction": f"{op} {a}, {b}", "lattice_x": str(lx), "lattice_y": str(ly), "real": r, "model": m})
            break
    ctx.corr["sccp_cases"] = n
    w = search_sccp()       # always run: SCCP on small CFGs (phi, branch folding) must not change observations
    ctx.corr["sccp_scenarios"] = len(SCCP_SCENARIOS)
    if w is not None:
        # replace the no-witness reports of this part by the failing input
        ctx.violation("failing-input", "SCCP changes the behaviour of a function", dict(w, call="SCCP(IRAnalysesCache(fn), fn).run_pass() on parse_venom(venom)",
                      oracle="stored values / assert outcomes before vs after the pass, EVM word semantics",
                      lattice_differences=[p[0] for p in pending]), key="sccp:scenario")
    else:
        for name, detail in pending[:3]:
            ctx.violation("correspondence-broken", name, detail)
    return n, bad


# ------------------------------------------------------------------ entry points
def _gen_and_build(ctx):
    """coq/C14A depends on C14/GenEval.v + EvalSound.v (eval_arith = word ops), regenerated from /repo by C14"""
    from checks import c14
    text, _keys = c14.gen_eval()
    p = COQ / "C14" / "GenEval.v"
    if not p.exists() or p.read_text() != text:
        p.write_text(text)
    b = ctx.coq_build_cached(["C14/GenEval.v", "C14/EvalSound.v"])
    if not b["ok"]:
        return b
    deps = ["C14/GenEval.v", "C14/EvalSound.v"]
    return ctx.coq_build_cached(["C14A/Alg.v", "C14A/AlgLemmas.v", "C14A/AlgSound.v", "C14A/AlgHarness.v", "C14A/Sccp.v",
                                 "C14A/SccpSound.v", "C14A/SccpHarness.v", "C14A/PropsAlg.v"], deps=deps)


def prebuild(ctx):
    return _gen_and_build(ctx)


def part_algebraic(ctx):
    """returns the number of correspondence evaluations"""
    t0 = time.time()
    b = _gen_and_build(ctx)
    ctx.log(f"C14A coq build: {time.time() - t0:.1f}s ok={b['ok']}")
    models_ok = all((COQ / "C14A" / f).exists() for f in ("Alg.vo", "AlgHarness.vo", "Sccp.vo", "SccpSound.vo", "SccpHarness.vo"))
    total = 0
    nviol = len(ctx.violations)
    if models_ok:
        t0 = time.time()
        n1, b1 = part_peephole(ctx)
        n2, b2 = part_misc(ctx)
        ctx.log(f"C14A peephole tie: {n1 + n2} cases, {b1 + b2} differences, {time.time() - t0:.1f}s")
        t0 = time.time()
        n4, b4 = part_composite(ctx)
        ctx.log(f"C14A composite programs: {n4}, {b4} behaviour changes, {time.time() - t0:.1f}s")
        t0 = time.time()
        n5 = part_evm_oracle(ctx)
        ctx.log(f"C14A back end + pyrevm oracle: {n5} runs, {time.time() - t0:.1f}s")
        t0 = time.time()
        n3, b3 = part_sccp(ctx)
        ctx.log(f"C14A sccp tie: {n3} cases, {b3} differences, {time.time() - t0:.1f}s")
        total = n1 + n2 + n3 + n4 + n5
    if not b["ok"] and len(ctx.violations) == nviol:
        ctx.violation("theorem-broken", f"{b.get('failed_lemma')} in {b['file']}",
                      {"theorem": b.get("failed_lemma"), "file": b["file"], "coq_output": b["out"][-1500:]})
    ctx.trusted += ["C14A: hand-written model coq/C14A/Alg.v of the peephole rules, tied to the real AlgebraicOptimizationPass by "
                    "syntactic equality of the output on the whole family opcode x operand shape x use context (every run)",
                    "C14A: coq/C14A/Sccp.v lattice model tied to sccp._meet / SCCP._eval on the full item family"]
    return total
