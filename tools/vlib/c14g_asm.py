"""C14G (code generation, control flow): validation of the assembly emitted by vyper/venom/venom_to_assembly.py (and of
the jump peepholes of vyper/evm/assembler/optimizer.py applied to it) against the CFG of the Venom functions.

`VenomCompiler.generate_evm_assembly` is wrapped in this process while corpus contracts / IR families are compiled: for
every Venom function the raw assembly (no_optimize=True) and the final one are sliced to the function's region, exported
as Coq literals with a certificate computed HERE (untrusted): block -> absent | (start index, index of the terminator's
lowering), and `asm_cfg_check f asm cert` (coq/C14G/AsmCfg.v) is evaluated by vm_compute.  Theorems asm_cfg_check_sound /
asm_layout_sound (coq/C14G/PropsCfg.v).  Search on rejection: an independent pc machine in Python runs the control items
at the end of every labelled block for cond = 0 / non-zero and compares the landing label with the Venom successor.
"""
import hashlib

from . import coqrun
from .c14g_part import FOREIGN, snapshot, snap_text

IMPORTS = ("From Coq Require Import NArith String.\nFrom Verif Require Import C14G.CfgSem C14G.CfgCheck C14G.AsmCfg.\n"
           "Open Scope string_scope.\nOpen Scope Z_scope.\n")
NOCODE = ("phi", "assign", "nop", "param")
TERMINAL = ("RETURN", "REVERT", "STOP", "INVALID", "SELFDESTRUCT")


# ------------------------------------------------------------------ plain-data assembly
def asm_items(asm):
    """list of (kind, value): L label / P pushlabel / J / I / Z / D data-label / O other"""
    from vyper.evm.assembler.instructions import DATA_ITEM, PUSHLABEL, DataHeader, Label, is_label
    out = []
    for x in asm:
        if is_label(x):
            out.append(("L", x.label))
        elif isinstance(x, PUSHLABEL):
            out.append(("P", x.label.label))
        elif isinstance(x, DATA_ITEM):
            out.append(("D", x.data.label) if isinstance(x.data, Label) else ("O", "DATABYTES"))
        elif isinstance(x, DataHeader):
            out.append(("H", x.label.label))
        elif isinstance(x, str):
            s = str(x)
            out.append(("J", None) if s == "JUMP" else ("I", None) if s == "JUMPI" else ("Z", None) if s == "ISZERO" else ("O", s))
        else:
            out.append(("O", "IMM"))
    return out


def compress(items):
    """a run of opaque non-halting items is one opaque item (the model does not look inside straight-line code)"""
    out = []
    for k, v in items:
        if k == "O" and v not in TERMINAL:
            if out and out[-1] == ("O", "OPS"):
                continue
            out.append(("O", "OPS"))
        else:
            out.append((k, v))
    return out


def reduce_fn(fn):
    """what the validator reads of a Venom function: per block the terminator and the last code-emitting instruction
    (opcode and outputs only)"""
    blocks = []
    for lab, insts in fn["blocks"]:
        if not insts:
            blocks.append((lab, []))
            continue
        code = [i for i in insts[:-1] if i[0] not in NOCODE]
        blocks.append((lab, ([(code[-1][0], (), code[-1][2])] if code else []) + [insts[-1]]))
    return {"name": fn["name"], "blocks": blocks}


def region(items, fn_labels, other_labels, is_first):
    """indices [a, b) of the code of the function whose block labels are fn_labels + the jump-table entries after it"""
    pos = [i for i, (k, v) in enumerate(items) if k == "L" and v in fn_labels]
    if not pos:
        return None
    a = 0 if is_first else min(pos)
    stops = [i for i, (k, v) in enumerate(items) if i > max(pos) and ((k == "L" and (v in other_labels or v == "revert")) or k == "H")]
    b = min(stops) if stops else len(items)
    return a, b


# ------------------------------------------------------------------ certificate (untrusted)
def _transparent(B, b):
    insts = B[b]
    if insts and insts[-1][0] == "jmp" and all(i[0] in NOCODE for i in insts[:-1]) and insts[-1][1][0][0] == "lab":
        return insts[-1][1][0][1]
    return None


def _labels(inst):
    return [a[1] for a in inst[1] if a[0] == "lab"]


class Cert:
    def __init__(self, fn, items):
        self.B = dict(fn["blocks"])
        self.order = [l for l, _ in fn["blocks"]]
        self.items = items
        self.lpos = {}
        for i, (k, v) in enumerate(items):
            if k == "L" and v in self.B and v not in self.lpos:
                self.lpos[v] = i
        self.present = {}       # block -> (start, tpos)
        self.absent = set()
        self.error = None

    def res(self, t, present):
        seen = set()
        while t in self.B and t not in present and t not in seen:
            seen.add(t)
            n = _transparent(self.B, t)
            if n is None:
                break
            t = n
        return t

    @staticmethod
    def _cond_is_iszero(T, blk):
        code = [i for i in blk[:-1] if i[0] not in NOCODE]
        return bool(code) and T[1][0][0] == "var" and code[-1][0] == "iszero" and code[-1][2] == (T[1][0][1],)

    def _forms_at_end(self, T, end, present, nxt, blk=()):
        """lowerings of terminator T that end exactly at index `end` (nxt = label of the block starting at `end`)"""
        it = self.items
        op = T[0]

        def at(p, pat):
            return p >= 0 and it[p:p + len(pat)] == pat
        if op == "jmp":
            r = self.res(_labels(T)[0], present)
            if at(end - 2, [("P", r), ("J", None)]):
                return end - 2
            if nxt == r:
                return end
            return None
        if op == "jnz":
            t, e = _labels(T)
            rt, re = self.res(t, present), self.res(e, present)
            if at(end - 4, [("P", rt), ("I", None), ("P", re), ("J", None)]):
                return end - 4
            if nxt == re and at(end - 2, [("P", rt), ("I", None)]):
                return end - 2
            if nxt == rt and at(end - 3, [("Z", None), ("P", re), ("I", None)]):
                return end - 3
            if nxt == rt and self._cond_is_iszero(T, blk) and at(end - 2, [("P", re), ("I", None)]):
                return end - 2
            return None
        if op == "djmp":
            return end - 1 if at(end - 1, [("J", None)]) else None
        if end - 1 >= 0 and it[end - 1][0] in ("O", "J"):
            return end - 1
        return None

    def build(self):
        it = self.items
        B = self.B
        labelled = set(self.lpos)
        # blocks without a label: transparent ones are (tentatively) absent, the others are reached by fall-through
        unl = [b for b in self.order if b not in labelled]
        present_names = set(labelled) | {b for b in unl if _transparent(B, b) is None}
        if self.order and self.order[0] not in labelled:
            present_names.add(self.order[0])
        starts = sorted(self.lpos.values())
        code_end = max([i for i, (k, v) in enumerate(it) if k not in ("D", "H") and not (k == "O" and v == "DATABYTES")] + [-1]) + 1
        bounds = starts + [code_end]
        segs = []
        if self.order and self.order[0] not in labelled:
            segs.append((0, bounds[0] if starts else code_end, self.order[0], 0))
        for i, s in enumerate(starts):
            segs.append((s, bounds[i + 1], it[s][1], s + 1))
        for (a, e, b, cur) in segs:
            nxt = it[e][1] if e < len(it) and it[e][0] == "L" else None
            start = a
            guard = 0
            while True:
                guard += 1
                if guard > len(B) + 2:
                    self.error = f"no layout found in the segment of {b}"
                    return self
                T = B[b][-1] if B[b] else None
                if T is None:
                    self.error = f"empty block {b}"
                    return self
                tp = self._forms_at_end(T, e, present_names, nxt, B[b])
                # the chain continues if a successor of b has no label and is not placed yet
                cont = [s for s in (self.res(x, present_names) for x in _labels(T))
                        if s in B and s not in labelled and s not in self.present and s != b and T[0] in ("jmp", "jnz")]
                if tp is None and not cont and T[0] in ("jmp", "jnz"):
                    # a jump-only successor without a label may still have code (stack clean-up): it is then placed
                    # right behind this block
                    promote = [x for x in _labels(T) if x in B and x not in labelled and x not in present_names]
                    done = False
                    for sub in [[x] for x in reversed(promote)] + ([promote] if len(promote) > 1 else []):
                        trial = present_names | set(sub)
                        if T[0] == "jmp":
                            ok = True
                        else:
                            t_, e_ = _labels(T)
                            rt_, re_ = self.res(t_, trial), self.res(e_, trial)
                            seg = it[cur:e]
                            ok = any(seg[q:q + 2] == [("P", rt_), ("I", None)] for q in range(len(seg))) if re_ in sub else \
                                any(seg[q:q + 3] == [("Z", None), ("P", re_), ("I", None)] or
                                    (self._cond_is_iszero(T, B[b]) and seg[q:q + 2] == [("P", re_), ("I", None)]) for q in range(len(seg)))
                        if ok:
                            present_names.update(sub)
                            done = True
                            break
                    if done:
                        guard -= 1
                        continue
                if tp is not None and tp >= cur - (1 if start == a and cur == a + 1 else 0) and not cont:
                    self.present[b] = (start, max(tp, start))
                    break
                if not cont:
                    if tp is not None:
                        self.present[b] = (start, max(tp, start))
                        break
                    self.error = f"the lowering of the terminator of {b} is not at the end of its segment"
                    return self
                if T[0] == "jmp":
                    self.present[b] = (start, cur)
                    b, start = cont[0], cur
                    continue
                t, el = _labels(T)
                rt, re = self.res(t, present_names), self.res(el, present_names)
                found = None
                for p in range(cur, e - 1):
                    if re in cont and it[p:p + 2] == [("P", rt), ("I", None)]:
                        found = (p, p + 2, re)
                        break
                    if rt in cont and p + 3 <= e and it[p:p + 3] == [("Z", None), ("P", re), ("I", None)]:
                        found = (p, p + 3, rt)
                        break
                    if rt in cont and self._cond_is_iszero(T, B[b]) and it[p:p + 2] == [("P", re), ("I", None)]:
                        found = (p, p + 2, rt)
                        break
                if found is None:
                    self.error = f"no fall-through lowering of the jnz of {b} found"
                    return self
                self.present[b] = (start, found[0])
                b, start, cur = found[2], found[1], found[1]
        for b in self.order:
            if b not in self.present:
                if _transparent(B, b) is not None:
                    self.absent.add(b)
                else:
                    self.error = self.error or f"block {b} has no code in the assembly"
        return self


# ------------------------------------------------------------------ export
def export(fn, items, cert):
    lab = {l: i for i, (l, _) in enumerate(fn["blocks"])}
    var, foreign = {}, {}

    def L(name):
        if name in lab:
            return lab[name]
        if name not in foreign:
            foreign[name] = FOREIGN + len(foreign)
        return foreign[name]

    def v(name):
        if name not in var:
            var[name] = len(var)
        return var[name]

    def operand(o):
        if o[0] == "lit":
            return f"OLit {coqrun.hexlit(o[1])}"
        if o[0] == "var":
            return f"OVar {v(o[1])}%N"
        return f"OLab {L(o[1])}%N"
    blocks = []
    for _, insts in reduce_fn(fn)["blocks"]:
        blocks.append("[" + "; ".join(f'mkI "{i[0]}" [' + "; ".join(operand(o) for o in i[1]) + "] [" +
                                      "; ".join(f"{v(o)}%N" for o in i[2]) + "]" for i in insts) + "]")
    out = []
    for k, val in items:
        if k == "L":
            out.append(f"ALabel {L(val)}%N")
        elif k == "P":
            out.append(f"APushLabel {L(val)}%N")
        elif k == "J":
            out.append("AJump")
        elif k == "I":
            out.append("AJumpi")
        elif k == "Z":
            out.append("AIszero")
        elif k == "D":
            out.append(f"AData {L(val)}%N")
        else:
            out.append(f'AOp "{val if k == "O" else "DATAHEADER"}"')
    cs = []
    for l, _ in fn["blocks"]:
        cs.append(f"Some ({cert.present[l][0]}, {cert.present[l][1]})%nat" if l in cert.present else "None")
    return {"f": "[" + ";\n ".join(blocks) + "]", "asm": "[" + "; ".join(out) + "]", "cert": "[" + "; ".join(cs) + "]"}


def evaluate(items, name="c14g_asm", timeout=600):
    exprs = [f"[if asm_cfg_check ({it['exp']['f']}) ({it['exp']['asm']}) ({it['exp']['cert']}) then 1 else 0]" for it in items]
    if not exprs:
        return []
    return coqrun.eval_zlists(IMPORTS, exprs, name, shard=max(1, (len(exprs) + 7) // 8), timeout=timeout)


# ------------------------------------------------------------------ search: independent pc machine on the control items
def machine(items, pc, stack, limit=12):
    """runs control items only; returns ('label', name) when a jump lands / control falls onto a label, or a reason"""
    labpos = {}
    for i, (k, v) in enumerate(items):
        if k == "L" and v not in labpos:
            labpos[v] = i
    dup = {v for i, (k, v) in enumerate(items) if k == "L" and labpos.get(v) != i}
    for _ in range(limit):
        if pc >= len(items):
            return ("off-the-end", None)
        k, v = items[pc]
        if k == "L":
            return ("label", v)
        if k == "P":
            if v not in labpos:
                return ("pushlabel-of-undefined-label", v)
            if v in dup:
                return ("label-defined-twice", v)
            stack = [("addr", v)] + stack
            pc += 1
        elif k == "J":
            if not stack or not isinstance(stack[0], tuple):
                return ("dynamic-jump", None)
            return ("label", stack[0][1])
        elif k == "I":
            if len(stack) < 2 or not isinstance(stack[0], tuple):
                return ("dynamic-jumpi", None)
            a, c, stack = stack[0], stack[1], stack[2:]
            if c != 0:
                return ("label", a[1])
            pc += 1
        elif k == "Z":
            if not stack:
                return ("stack-underflow", None)
            stack = [1 if stack[0] == 0 else 0] + stack[1:]
            pc += 1
        else:
            return ("opaque", v)
    return ("too-long", None)


def search(fn, items):
    """for every labelled block whose segment ends with the lowering of its terminator: land where Venom says?"""
    B = dict(fn["blocks"])
    labs = [(i, v) for i, (k, v) in enumerate(items) if k == "L" and v in B]     # internal labels (return_label_N, ...) are body
    seen = {}
    for i, v in labs:
        if v in B and v in seen:
            return {"problem": f"the label of block {v} is emitted twice", "indices": [seen[v], i]}
        seen[v] = i
    emitted = {v for _, v in labs}

    def res(t):
        s = set()
        while t in B and t not in emitted and t not in s:
            s.add(t)
            n = _transparent(B, t)
            if n is None:
                break
            t = n
        return t
    code_end = min([i for i, (k, v) in enumerate(items) if k in ("D", "H")] + [len(items)])
    for n, (i, b) in enumerate(labs):
        if b not in B or not B[b]:
            continue
        end = min(labs[n + 1][0] if n + 1 < len(labs) else len(items), code_end)
        T = B[b][-1]
        if T[0] in ("jmp", "jnz") and any(res(t) not in emitted for t in _labels(T)):
            continue        # a successor without a label is reached by fall-through inside this segment: not decidable here
        if T[0] == "jmp":
            want = {None: res(_labels(T)[0])}
            tries = [(2, [])]
        elif T[0] == "jnz":
            t, e = _labels(T)
            want = {0: res(e), 7: res(t)}
            tries = [(4, None), (3, None), (2, None)]
        elif T[0] == "djmp":
            for t in _labels(T):
                if res(t) not in emitted:
                    return {"problem": f"djmp target {t} of block {b} has no JUMPDEST (label not emitted)", "block": b}
            continue
        else:
            continue
        # the lowering is recognised by its shape at the end of the segment (longest first); unknown shape: inconclusive
        kinds = "".join(k for k, _ in items[i + 1:end])
        nxt_is_label = end < len(items) and items[end][0] == "L"
        if T[0] == "jnz":
            # admissible readings of the end of the segment (an ISZERO in front may belong to the body)
            lens = [n_ for sh, n_ in (("PIPJ", 4), ("ZPI", 3), ("PI", 2)) if kinds.endswith(sh) and (n_ == 4 or nxt_is_label)]
        else:
            lens = [2] if kinds.endswith("PJ") else ([0] if nxt_is_label and not kinds.endswith("J") else [])
        if not lens:
            continue
        code = [x for x in B[b][:-1] if x[0] not in NOCODE]
        fused = (T[0] == "jnz" and code and code[-1][0] == "iszero" and T[1][0][0] == "var" and code[-1][2] == (T[1][0][1],))
        verdicts = []
        for ln in lens:
            bad_ = None
            for cond, target in want.items():
                got = machine(items, end - ln, [] if cond is None else [cond])
                if got != ("label", target) and fused and ln == 2:
                    # the ISZERO of the lowering may have been fused with the iszero that produces the condition
                    if machine(items, end - ln, [0 if cond else 7]) == ("label", target):
                        continue
                if got != ("label", target):
                    bad_ = (cond, target, got)
                    break
            verdicts.append(bad_)
        if all(v is not None for v in verdicts):
            cond, target, got = verdicts[0]
            return {"problem": f"the code emitted for the terminator of block {b} does not reach {target}"
                               + ("" if cond is None else f" when the condition is {cond}"),
                    "block": b, "terminator": f"{T[0]} " + ", ".join(str(a[1]) for a in T[1]),
                    "assembly_tail": asm_text(items[max(i, end - 8):min(len(items), end + 1)]),
                    "landed": str(got)}
    for i, (k, v) in enumerate(items):
        if k == "D" and v in B and res(v) not in emitted:
            return {"problem": f"jump-table entry {v} has no JUMPDEST (label not emitted)"}
    return None


# ------------------------------------------------------------------ observer
class AsmObserver:
    def __init__(self, max_items=6000):
        self.items = {}
        self.calls = 0
        self.too_big = 0
        self.errors = []
        self.origin = None
        self.max_items = max_items
        self.raw_differs = 0

    def __enter__(self):
        from vyper.venom.venom_to_assembly import VenomCompiler
        self.cls = VenomCompiler
        self.orig = VenomCompiler.generate_evm_assembly
        obs = self

        def gen(self_, no_optimize=False):
            raw = None
            try:
                raw = asm_items(obs.orig(self_, no_optimize=True))
            except Exception as e:  # the observer must never change what the compiler does
                obs.errors.append(f"raw assembly: {type(e).__name__}: {e}"[:300])
            fin = obs.orig(self_, no_optimize=no_optimize)
            try:
                obs.record(self_.ctx, raw, asm_items(fin))
            except Exception as e:
                obs.errors.append(f"record: {type(e).__name__}: {e}"[:300])
            return fin
        VenomCompiler.generate_evm_assembly = gen
        return self

    def __exit__(self, *a):
        self.cls.generate_evm_assembly = self.orig

    def record(self, ctx, raw, fin):
        self.calls += 1
        fns = [snapshot(fn) for fn in ctx.functions.values()]
        all_labels = [{l for l, _ in f["blocks"]} for f in fns]
        for k, fn in enumerate(fns):
            others = set().union(*[s for j, s in enumerate(all_labels) if j != k]) if len(fns) > 1 else set()
            for kind, items in (("raw", raw), ("final", fin)):
                if items is None:
                    continue
                rg = region(items, all_labels[k], others, k == 0)
                if rg is None:
                    continue
                sl = items[rg[0]:rg[1]] + [x for x in items[rg[1]:] if x[0] == "D" and x[1] in all_labels[k]]
                sl = compress(sl)
                if len(sl) > self.max_items:
                    self.too_big += 1
                    continue
                key = hashlib.sha256(repr((kind, fn["blocks"], sl)).encode()).hexdigest()[:16]
                if key not in self.items:
                    self.items[key] = {"kind": kind, "fn": fn, "asm": sl, "origin": self.origin, "key": key,
                                       "nblocks": len(fn["blocks"]), "nitems": len(sl)}


def asm_text(items):
    names = {"L": "LABEL ", "P": "PUSHLABEL ", "J": "JUMP", "I": "JUMPI", "Z": "ISZERO", "D": "DATA ", "H": "DATAHEADER "}
    return " ".join((str(v) if k == "O" else names[k] + (str(v) if v else "")) for k, v in items)


# ------------------------------------------------------------------ IR families through the real back end
def backendable(text):
    """the hand-written / generated families write to literal addresses; the pipeline wants abstract memory: route every
    mstore/return/revert through one alloca of the entry block"""
    import re
    lines = text.split("\n")
    out = []
    n = [0]
    entry_done = False
    for ln in lines:
        m = re.match(r"^(\s*)mstore (\d+), (.*)$", ln)
        if ln.strip().endswith(":") and not entry_done:
            out.append(ln)
            out.append("    %mem0 = alloca 256")
            entry_done = True
            continue
        if m:
            n[0] += 1
            out.append(f"{m.group(1)}%ma{n[0]} = add %mem0, {m.group(2)}")
            out.append(f"{m.group(1)}mstore %ma{n[0]}, {m.group(3)}")
            continue
        m = re.match(r"^(\s*)(return|revert) (\d+), (\d+)$", ln)
        if m:
            out.append(f"{m.group(1)}{m.group(2)} %mem0, {m.group(4)}")
            continue
        out.append(ln)
    return "\n".join(out)


def run_families(obs, rnd, n_random):
    from vyper.compiler.settings import OptimizationLevel, Settings, VenomOptimizationFlags, set_global_settings
    from vyper.venom import generate_assembly_experimental, run_passes_on
    from vyper.venom.parser import parse_venom
    from . import c14g_families as FAM
    set_global_settings(Settings(evm_version="cancun"))
    ok = fail = 0
    for name, text in FAM.programs(rnd, n_random):
        for lvl in (OptimizationLevel.NONE, OptimizationLevel.CODESIZE):
            obs.origin = f"family:{name}:{lvl.name}"
            try:
                ctx = parse_venom(backendable(text))
                run_passes_on(ctx, VenomOptimizationFlags(level=lvl))
                generate_assembly_experimental(ctx, OptimizationLevel.O2)
                ok += 1
            except Exception:
                fail += 1
    obs.origin = None
    return ok, fail


COQ_MODEL = ["C14G/CfgSem.v", "C14G/CfgCheck.v", "C14G/AsmCfg.v"]
COQ_PROOFS = ["C14G/CfgSemProofs.v", "C14G/AsmCfgProofs.v"]


def part_asm_cfg(ctx):
    import signal
    import time
    import warnings
    from .common import COQ
    t0 = time.time()
    bm = ctx.coq_build_cached(COQ_MODEL)
    b = ctx.coq_build_cached(COQ_PROOFS, deps=COQ_MODEL) if bm["ok"] else bm
    model_ok = (COQ / "C14G" / "AsmCfg.vo").exists()
    from vlib import c14_pass_corpus as PC
    from vyper.compiler import compile_code
    from vyper.compiler.settings import OptimizationLevel, Settings
    rnd = ctx.rng("c14g_asm")
    quick = ctx.tier == "quick"
    progs = PC.select(ctx.tier, rnd)
    if quick:
        progs = progs[:8]
    hangs, nfail = [], 0

    class Hang(Exception):
        pass

    def on_alarm(*a):
        raise Hang()
    t0 = time.time()
    with warnings.catch_warnings():
        warnings.simplefilter("ignore")
        old = signal.signal(signal.SIGALRM, on_alarm)
        with AsmObserver(max_items=1500 if quick else 6000) as obs:
            fam_ok = fam_fail = 0
            try:
                signal.alarm(150)
                fam_ok, fam_fail = run_families(obs, rnd, 6 if quick else 150)
            except Hang:
                hangs.append("IR families")
            finally:
                signal.alarm(0)
            for ci, c in enumerate(progs):
                levels = [OptimizationLevel.GAS] + ([OptimizationLevel.CODESIZE] if (not quick or ci < 4) else []) + \
                    ([OptimizationLevel.O3] if not quick else [])
                for lvl in levels:
                    obs.origin = f"corpus:{c['name']}:{lvl.name}"
                    try:
                        signal.alarm(40)
                        compile_code(c["src"], output_formats=["bytecode"], settings=Settings(experimental_codegen=True, optimize=lvl))
                    except Hang:
                        hangs.append(c["name"])
                    except Exception:  # noqa
                        nfail += 1
                    finally:
                        signal.alarm(0)
                if len(hangs) >= 2:
                    break
        signal.signal(signal.SIGALRM, old)
    t_compile = time.time() - t0
    if hangs:
        ctx.violation("correspondence-broken", "compilation does not terminate under observation: " + ", ".join(hangs), {"programs": hangs})
    if obs.errors:
        ctx.violation("correspondence-broken", "cannot record an assembly: " + obs.errors[0], {"errors": obs.errors[:5]})
    items = sorted(obs.items.values(), key=lambda it: (not (it["origin"] or "").startswith("family:"), it["nitems"], it["key"]))
    cap = 60 if quick else 100000
    if len(items) > cap:
        fam = [it for it in items if (it["origin"] or "").startswith("family:")][:cap // 2]
        rest = [it for it in items if it not in fam]
        items = fam + rnd.sample(rest, min(len(rest), cap - len(fam)))
    stats = {"programs": len(progs), "family_compiles": fam_ok, "family_compile_failures": fam_fail, "compile_failures": nfail,
             "compile_seconds": round(t_compile, 1), "codegen_calls": obs.calls, "distinct_function_assemblies": len(obs.items),
             "too_big_skipped": obs.too_big, "checked": 0, "accepted": {"raw": 0, "final": 0}, "rejected": {"raw": 0, "final": 0},
             "no_certificate": {"raw": 0, "final": 0}, "blocks": 0}
    todo, bad = [], []
    for it in items:
        c = Cert(it["fn"], it["asm"]).build()
        if c.error:
            stats["no_certificate"][it["kind"]] += 1
            it["cert_error"] = c.error
            bad.append(it)
            continue
        it["exp"] = export(it["fn"], it["asm"], c)
        stats["blocks"] += len(c.present)
        todo.append(it)
    res = None
    if model_ok:
        t0 = time.time()
        try:
            res = evaluate(todo)
        except RuntimeError as e:
            ctx.violation("correspondence-broken", "asm_cfg_check could not be evaluated on the exported assemblies", {"error": str(e)[-1500:]})
        stats["coq_seconds"] = round(time.time() - t0, 1)
    if res is not None:
        for it, r in zip(todo, res):
            stats["checked"] += 1
            if r[0] == 1:
                stats["accepted"][it["kind"]] += 1
            else:
                stats["rejected"][it["kind"]] += 1
                bad.append(it)
    found = False
    nrep = 0
    for it in bad[:40]:
        it["witness"] = search(it["fn"], it["asm"])
    bad.sort(key=lambda it: it.get("witness") is None)
    for it in bad:
        if nrep >= 3:
            break
        detail = {"assembly": it["kind"] + (" (venom_to_assembly output)" if it["kind"] == "raw" else " (after optimize_assembly)"),
                  "origin": it["origin"], "function": snap_text(it["fn"])[:5000], "assembly_of_the_function": asm_text(it["asm"])[:5000],
                  "certificate_error": it.get("cert_error")}
        if it.get("witness") is not None:
            nrep += 1
            found = True
            ctx.violation("failing-input", "the emitted assembly does not follow the CFG of the Venom function: " + it["witness"]["problem"],
                          dict(detail, **it["witness"]), key="asm-cfg:" + it["kind"])
        elif not found:
            nrep += 1
            ctx.violation("theorem-broken", "asm_cfg_check_sound does not apply: the emitted assembly is rejected by the verified validator"
                          + (" (no block layout found: " + it["cert_error"] + ")" if it.get("cert_error") else ""), detail)
    # the independent machine also runs on every accepted instance (tie of the Coq pc machine to the Python one)
    disagree = 0
    for it in todo:
        if it not in bad and search(it["fn"], it["asm"]) is not None:
            disagree += 1
            if disagree == 1:
                ctx.violation("correspondence-broken", "the Python pc machine finds a wrong landing in an assembly the verified validator accepts",
                              {"origin": it["origin"], **search(it["fn"], it["asm"])})
    if not b["ok"] and not found:
        ctx.violation("theorem-broken", f"{b.get('failed_lemma')} in {b['file']}",
                      {"theorem": b.get("failed_lemma"), "file": b["file"], "coq_output": b["out"][-1500:]})
    ctx.corr["asm_cfg"] = stats
    ctx.log(f"C14G asm: compile {t_compile:.1f}s, coq {stats.get('coq_seconds')}s, function assemblies {len(obs.items)}, checked {stats['checked']}, "
            f"accepted {stats['accepted']}, rejected {stats['rejected']}, no certificate {stats['no_certificate']}, blocks {stats['blocks']}")
    ctx.trusted += ["C14G asm: export of the assembly item list (runs of opaque items compressed to one) and of the reduced Venom function "
                    "(terminator + last code-emitting instruction per block) (tools/vlib/c14g_asm.py); the pc-machine model of AsmCfg.v "
                    "(label address = index of the label item)"]
    return stats["checked"]
