"""C15 round 2: random IR trees over the vocabulary of optimizer._optimize, conversion to the Coq rose tree
(C15.Syntax.expr) and canonical printing of real IRnodes in the same format as Coq `show`."""
from vlib import coqrun
from vlib.c15_ir import BOPS_ARITH, HALF, W, hx

LITS = [0, 0, 0, 1, 1, 2, 3, 5, 31, 32, 32, 33, 64, 96, 255, 256, 2**128, HALF - 1, HALF, W - 32, W - 2, W - 1, -1, -2, -32, -HALF]
VARS = ["x", "y", "calldatasize", "callvalue"]
UNOPS = ["iszero", "iszero", "not", "ceil32", "mload", "sload", "calldataload"]
BINOPS = BOPS_ARITH + ["shl", "shr", "sar"]
SYMS = ["s1", "s2", "s3", "s4", "s5", "s6", "s7", "s8", "s9", "s10", "s11", "s12"]


def gen_val(rnd, d):
    """valency-1 tree as nested python lists (IRnode.from_list input)"""
    r = rnd.random()
    if d <= 0 or r < 0.18:
        return rnd.choice(LITS) if rnd.random() < 0.6 else rnd.choice(VARS)
    if r < 0.60:
        op = rnd.choice(BINOPS)
        a, b = gen_val(rnd, d - 1), gen_val(rnd, d - 1)
        if rnd.random() < 0.15:
            b = a          # same sub-tree on both sides (conservative_eq)
        return [op, a, b]
    if r < 0.75:
        return [rnd.choice(UNOPS), gen_val(rnd, d - 1)]
    if r < 0.85:
        return ["if", gen_val(rnd, d - 1), gen_val(rnd, d - 1), gen_val(rnd, d - 1)]
    if r < 0.93:
        pre = [gen_stmt(rnd, d - 1) for _ in range(rnd.randrange(0, 3))]
        if rnd.random() < 0.25:
            pre.append(["unique_symbol", rnd.choice(SYMS)])
        return ["seq"] + pre + [gen_val(rnd, d - 1)]
    if r < 0.97:
        return ["with", rnd.choice(["x", "y", "z"]), gen_val(rnd, d - 1), gen_val(rnd, d - 1)]
    return "msize"


def gen_run(rnd):
    """a run of nodes that the seq-level merges look at"""
    kind = rnd.choice(["zero", "zero", "cdl", "mload", "dload", "mixed"])
    n = rnd.randrange(1, 5)
    dst = rnd.choice([0, 32, 64, 96, 128, 320])
    src = rnd.choice([0, 4, 32, 64, 96, 100, 128])
    out = []
    for i in range(n):
        k = kind if kind != "mixed" else rnd.choice(["zero", "cdl", "mload", "dload"])
        gap = 0 if rnd.random() < 0.85 else 32
        if k == "zero":
            if rnd.random() < 0.7:
                out.append(["mstore", dst + gap, 0])
                dst += 32 + gap
            else:
                ln = rnd.choice([0, 32, 64, 5])
                out.append(["calldatacopy", dst + gap, "calldatasize", ln])
                dst += ln + gap
        else:
            ld = {"cdl": "calldataload", "mload": "mload", "dload": "dload"}[k]
            out.append(["mstore", dst + gap, [ld, src + (0 if rnd.random() < 0.9 else 32)]])
            dst += 32 + gap
            src += 32
    return out


def gen_stmt(rnd, d):
    r = rnd.random()
    if d <= 0 or r < 0.10:
        return rnd.choice(["pass", ["seq"], ["mstore", rnd.choice([0, 32, 64]), rnd.choice(LITS)],
                           ["unique_symbol", rnd.choice(SYMS)]])
    if r < 0.30:
        return ["mstore", gen_val(rnd, d - 1), gen_val(rnd, d - 1)]
    if r < 0.38:
        return ["sstore", gen_val(rnd, d - 1), gen_val(rnd, d - 1)]
    if r < 0.50:
        return [rnd.choice(["assert", "assert", "assert_unreachable"]), gen_val(rnd, d - 1)]
    if r < 0.62:
        if rnd.random() < 0.5:
            return ["if", gen_val(rnd, d - 1), gen_stmt(rnd, d - 1)]
        return ["if", gen_val(rnd, d - 1), gen_stmt(rnd, d - 1), gen_stmt(rnd, d - 1)]
    if r < 0.90:
        body = []
        for _ in range(rnd.randrange(0, 4)):
            if rnd.random() < 0.55:
                body += gen_run(rnd)
            else:
                body.append(gen_stmt(rnd, d - 1))
        return ["seq"] + body
    if r < 0.95:
        return ["with", rnd.choice(["x", "y", "z"]), gen_val(rnd, d - 1), gen_stmt(rnd, d - 1)]
    return ["calldatacopy", gen_val(rnd, d - 1), gen_val(rnd, d - 1), gen_val(rnd, d - 1)]


def gen_tree(rnd, d):
    return gen_stmt(rnd, d) if rnd.random() < 0.5 else gen_val(rnd, d)


# ---- real IRnode -> Coq term / canonical string
def _is_var(node):
    return isinstance(node.value, str) and not node.args and not node.is_complex_ir


def coq_of_node(node):
    if isinstance(node.value, int):
        return f"(Lit {coqrun.hexlit(node.value)})"
    if not isinstance(node.value, str) or '"' in node.value:
        raise ValueError(f"unsupported IR value {node.value!r}")
    if _is_var(node):
        return f'(Var "{node.value}")'
    return f'(Node "{node.value}" [{"; ".join(coq_of_node(a) for a in node.args)}])'


def show_node(node):
    if isinstance(node.value, int):
        return hx(node.value)
    if _is_var(node):
        return str(node.value)
    return "(" + " ".join([str(node.value)] + [show_node(a) for a in node.args]) + ")"


def real_optimize(ir_list, evm_version=None):
    """-> canonical string of optimizer.optimize(IRnode.from_list(ir_list)), or STATIC / ASSERT / EXC:<name>"""
    from vyper.codegen.ir_node import IRnode
    from vyper.compiler.settings import Settings, anchor_settings
    from vyper.exceptions import CompilerPanic, StaticAssertionException
    from vyper.ir import optimizer

    with anchor_settings(Settings(evm_version=evm_version)):
        node = IRnode.from_list(ir_list)
        try:
            return show_node(optimizer.optimize(node))
        except StaticAssertionException:
            return "STATIC"
        except AssertionError:
            return "ASSERT"
        except RecursionError:
            return "EXC:RecursionError"
        except CompilerPanic:
            return "PANIC"
        except Exception as e:  # noqa
            return "EXC:" + type(e).__name__


# ---- round 3b: statements with control flow for the compile_ir lowering tie
def gen_cf(rnd, d, scope, loops, st):
    """a zero-valency statement over repeat / break / continue / cleanup_repeat / if / with / set / goto / label / symbol /
    djump / unique_symbol / exit_to / sha3_64 / dload / dloadbytes.  scope: with-variables in scope, loops: repeat nesting
    depth, st: {'n': counter for fresh names}"""
    def val(dd=1):
        r = rnd.random()
        if scope and r < 0.45:
            v = rnd.choice(scope)
            return v if rnd.random() < 0.6 else [rnd.choice(["add", "mul", "lt", "sub"]), v, gen_val(rnd, dd)]
        if r < 0.55:
            return ["sha3_64", gen_val(rnd, 0), gen_val(rnd, 1)]
        if r < 0.65:
            return ["dload", rnd.choice([0, 32, gen_val(rnd, 1)])]
        if r < 0.70:
            return ["symbol", rnd.choice(["f1", "f2", "ret1"])]
        return gen_val(rnd, dd)

    def fresh(p):
        st["n"] += 1
        return f"{p}{st['n']}"

    r = rnd.random()
    if d <= 0 or r < 0.12:
        k = rnd.random()
        if loops and k < 0.45:
            return rnd.choice(["break", "continue", "cleanup_repeat", "break"])
        if k < 0.6:
            return ["mstore", rnd.choice([0, 32]), val()]
        if k < 0.7:
            return ["unique_symbol", rnd.choice(["u1", "u2", "u3", "u4", "u5", "u6", "u7", "u8"])]
        if k < 0.8 and scope:
            return ["set", rnd.choice(scope), val()]
        if k < 0.85:
            return ["dloadbytes", val(0), rnd.choice([64, val(0)]), rnd.choice([32, val(0)])]
        if k < 0.88:
            return ["exit_to", "return_pc"]
        return "pass"
    if r < 0.30:
        i = fresh("i")
        bound = rnd.choice([1, 2, 5, 100])
        rounds = bound if rnd.random() < 0.5 else val()
        start = rnd.choice([0, 0, 7, val()])
        body = ["seq"] + [gen_cf(rnd, d - 1, scope + [i], loops + 1, st) for _ in range(rnd.randrange(0, 4))]
        if rnd.random() < 0.2:
            body.append(val())       # a valued body: popped by `["POP"] * body.valency`
        return ["repeat", i, start, rounds, bound, body]
    if r < 0.45:
        c = val()
        if rnd.random() < 0.5:
            return ["if", c, gen_cf(rnd, d - 1, scope, loops, st)]
        return ["if", c, gen_cf(rnd, d - 1, scope, loops, st), gen_cf(rnd, d - 1, scope, loops, st)]
    if r < 0.58:
        v = fresh("v")
        return ["with", v, val(), gen_cf(rnd, d - 1, scope + [v], loops, st)]
    if r < 0.80:
        return ["seq"] + [gen_cf(rnd, d - 1, scope, loops, st) if rnd.random() < 0.8 else val()
                          for _ in range(rnd.randrange(0, 5))]
    if r < 0.86:
        return ["goto", rnd.choice(["f1", "f2", "ret1"])] + [val() for _ in range(rnd.randrange(0, 3))]
    if r < 0.95:
        ps = rnd.sample(["return_buffer", "return_pc", "a", "b"], rnd.randrange(0, 4))
        name = rnd.choice(["f1", "f2", "ret1", fresh("L"), fresh("L")])
        # a label body sees only its parameters (new scope) but keeps the enclosing break_dest
        return ["label", name, ["var_list"] + ps, gen_cf(rnd, d - 1, list(ps), loops, st)]
    if r < 0.97:
        return ["djump", val()]
    return [rnd.choice(["assert", "assert_unreachable"]), val()]


def coq_of_node_real(node, clean=lambda x: x):
    """like coq_of_node, for IR of compiled contracts: bytes leaves (inside `data`) become leaves named like the opaque
    assembly item that compile_ir emits for them (c15_asm.from_real naming); `clean` maps names (label names are source
    text) to something printable inside a Coq string"""
    if isinstance(node.value, bytes):
        from vyper.evm.assembler.instructions import DATA_ITEM
        from vlib import c15_asm
        return f'(Var "{clean(c15_asm.from_real([DATA_ITEM(node.value)])[0][1])}")'
    if isinstance(node.value, int):
        return f"(Lit {coqrun.hexlit(node.value)})"
    if not isinstance(node.value, str):
        raise ValueError(f"unsupported IR value {node.value!r}")
    v = clean(node.value)
    if '"' in v:
        raise ValueError(f"unsupported IR value {node.value!r}")
    if _is_var(node):
        return f'(Var "{v}")'
    return f'(Node "{v}" [{"; ".join(coq_of_node_real(a, clean) for a in node.args)}])'
