"""C16: T-tie of vyper/evm/assembler/instructions.py.

`InstrTranslator` extends the shared py2coq translator (fail closed) with exactly what the four pure
helpers of instructions.py need:
  * `o = []` (type from a hint), `o.insert(0, e)`  ->  `let o := e :: o`
  * `while c: body`        -> fuelled Fixpoint (fuel expression from a per-loop hint; running out = Err OutOfFuel)
  * `for _ in range(n)`    -> Fixpoint over `Z.to_nat n` (loop variable must be unused)
  * list `+` list          -> `++`
  * f"PUSH{e}"             -> the integer e   (a PUSHk mnemonic is represented by k; the consumer
                              `_compile_push_instruction` does `PUSH_OFFSET + int(mnemonic[4:])`, hand-modelled
                              as `compile_push` in InstrSound.v)
  * version_check(begin=F) -> `(idx F <=? evm) && (evm <=? max idx)` with `evm` a Section variable, the constants read
                              from the live vyper.evm.opcodes.EVM_VERSIONS
The CPython-vs-model differential below validates these rules on every run."""
import ast
import textwrap

from . import coqrun
from .common import COQ
from .py2coq import E, Translator, Ty, Unsupported, cname, ty_str

FUNCS = ["num_to_bytearray", "PUSH", "PUSH_N", "calc_push_size"]


def _names(nodes):
    out = []
    for n in nodes:
        for x in ast.walk(n):
            if isinstance(x, ast.Name) and x.id not in out:
                out.append(x.id)
    return out


class InstrTranslator(Translator):
    def __init__(self):
        super().__init__("vyper.evm.assembler.instructions")
        self.var_types = {}
        self.fuel_hint = {}
        self.cur_fn = None
        self.loop_count = {}
        self.uses_evm = False
        self.bindings["version_check"] = {"special": InstrTranslator._sp_version_check}

    # ---- expressions
    def _sp_version_check(self, node, args, kw, env):
        from vyper.evm.opcodes import EVM_VERSIONS
        if args or set(kw) != {"begin"} or not (isinstance(kw["begin"], ast.Constant) and kw["begin"].value in EVM_VERSIONS):
            raise Unsupported("version_check call shape")
        self.uses_evm = True
        lo = EVM_VERSIONS[kw["begin"].value]
        hi = max(EVM_VERSIONS.values())
        return E(f"(({lo} <=? evm) && (evm <=? {hi}))", Ty.B)

    def expr(self, node, env):
        if isinstance(node, ast.JoinedStr):
            v = node.values
            if (len(v) == 2 and isinstance(v[0], ast.Constant) and v[0].value == "PUSH"
                    and isinstance(v[1], ast.FormattedValue) and v[1].format_spec is None and v[1].conversion == -1):
                return self.as_z(self.expr(v[1].value, env))
            raise Unsupported("f-string other than f\"PUSH{e}\"")
        if isinstance(node, ast.BinOp) and isinstance(node.op, ast.Add):
            a = self.expr(node.left, env)
            b = self.expr(node.right, env)
            la = isinstance(a.ty, tuple) and a.ty[0] == "list"
            lb = isinstance(b.ty, tuple) and b.ty[0] == "list"
            if la or lb:
                if not (la and lb and a.ty == b.ty):
                    raise Unsupported("list + non-list")
                return E(f"({a.text} ++ {b.text})", a.ty, a.pre + b.pre)
        return super().expr(node, env)

    # ---- statements
    def block(self, stmts, env, ret_ty_box, tail=None):
        if stmts:
            s, rest = stmts[0], stmts[1:]
            if (isinstance(s, ast.Assign) and len(s.targets) == 1 and isinstance(s.targets[0], ast.Name)
                    and isinstance(s.value, ast.List) and not s.value.elts):
                nm = s.targets[0].id
                t = self.var_types.get((self.cur_fn, nm))
                if t is None:
                    raise Unsupported(f"empty list {nm} needs a type hint")
                env2 = dict(env)
                env2[nm] = t
                return f"let {cname(nm)} := (@nil {ty_str(t[1])}) in\n" + self.block(rest, env2, ret_ty_box, tail)
            if isinstance(s, ast.Expr) and isinstance(s.value, ast.Call):
                c = s.value
                if (isinstance(c.func, ast.Attribute) and c.func.attr == "insert" and isinstance(c.func.value, ast.Name)
                        and len(c.args) == 2 and isinstance(c.args[0], ast.Constant) and c.args[0].value == 0
                        and not c.keywords):
                    nm = c.func.value.id
                    t = env.get(nm)
                    if not (isinstance(t, tuple) and t[0] == "list"):
                        raise Unsupported("insert on non-list")
                    e = self.coerce(self.expr(c.args[1], env), t[1])
                    body = self.block(rest, env, ret_ty_box, tail)
                    return self.wrap_pre(e.pre, f"let {cname(nm)} := {e.text} :: {cname(nm)} in\n{body}")
                raise Unsupported("expression statement")
            if isinstance(s, ast.For):
                return self.for_range(s, rest, env, ret_ty_box, tail)
        return super().block(stmts, env, ret_ty_box, tail)

    def assigned_vars(self, stmts):
        out = super().assigned_vars(stmts)
        for s in stmts:
            if (isinstance(s, ast.Expr) and isinstance(s.value, ast.Call) and isinstance(s.value.func, ast.Attribute)
                    and s.value.func.attr == "insert" and isinstance(s.value.func.value, ast.Name)):
                if s.value.func.value.id not in out:
                    out.append(s.value.func.value.id)
        return out

    def _loop_common(self, body, env, extra_nodes):
        if self.contains_return(body):
            raise Unsupported("return/raise inside loop")
        carried = [v for v in self.assigned_vars(body) if v in env]
        local = [v for v in self.assigned_vars(body) if v not in env]
        used = _names(list(body) + extra_nodes)
        ro = [v for v in used if v in env and v not in carried]
        if any(isinstance(env[v], tuple) and env[v][0] == "fn" for v in ro + carried):
            raise Unsupported("function-typed variable in loop")
        k = self.loop_count.get(self.cur_fn, 0) + 1
        self.loop_count[self.cur_fn] = k
        name = f"{cname(self.cur_fn)}_loop{k}"
        return carried, local, ro, name, k

    def _carried_tuple(self, carried):
        return "(" + ", ".join(cname(v) for v in carried) + ")" if len(carried) != 1 else cname(carried[0])

    def _emit_loop(self, name, fuelvar, ro, carried, env, zero_case, step):
        params = " ".join(f"({cname(v)} : {ty_str(env[v])})" for v in ro + carried)
        rty = " * ".join(ty_str(env[v]) for v in carried) or "unit"
        self.out.append(
            f"Fixpoint {name} ({fuelvar} : nat) {params} : res ({rty}) :=\n"
            f"  match {fuelvar} with\n  | O => {zero_case}\n  | S {fuelvar}' =>\n{textwrap.indent(step, '    ')}\n  end.")

    def _after(self, name, fuel, ro, carried, rest, env, ret_ty_box, tail):
        args = " ".join(cname(v) for v in ro + carried)
        body = self.block(rest, env, ret_ty_box, tail)
        pat = self._carried_tuple(carried)
        if len(carried) == 1:
            return f"{pat} <- {name} {fuel} {args} ;;\n{body}"
        return f"'{pat} <- {name} {fuel} {args} ;;\n{body}"

    def loop(self, s, rest, env, ret_ty_box, tail):  # while
        if s.orelse:
            raise Unsupported("while/else")
        carried, local, ro, name, k = self._loop_common(s.body, env, [s.test])
        if not carried:
            raise Unsupported("while loop without loop-carried state")
        fuel = self.fuel_hint.get((self.cur_fn, k))
        if fuel is None:
            raise Unsupported(f"while loop {self.cur_fn}#{k} needs a fuel hint")
        c = self.as_b(self.expr(s.test, env))
        args = " ".join(cname(v) for v in ro + carried)
        again = self.block(list(s.body), env, {"ty": None}, lambda env_b: f"{name} fuel' {args}")
        done = "Ok " + self._carried_tuple(carried)
        step = self.wrap_pre(c.pre, f"if {c.text} then\n{textwrap.indent(again, '  ')}\nelse {done}")
        self._emit_loop(name, "fuel", ro, carried, env, "Err OutOfFuel", step)
        return self._after(name, fuel, ro, carried, rest, env, ret_ty_box, tail)

    def for_range(self, s, rest, env, ret_ty_box, tail):
        if s.orelse or not (isinstance(s.target, ast.Name) and isinstance(s.iter, ast.Call)
                            and isinstance(s.iter.func, ast.Name) and s.iter.func.id == "range"
                            and len(s.iter.args) == 1 and not s.iter.keywords):
            raise Unsupported("for loop other than `for v in range(n)`")
        if s.target.id in _names(s.body):
            raise Unsupported("for-range loop variable is used in the body")
        n = self.as_z(self.expr(s.iter.args[0], env))
        carried, local, ro, name, k = self._loop_common(s.body, env, [])
        if not carried:
            raise Unsupported("for loop without loop-carried state")
        args = " ".join(cname(v) for v in ro + carried)
        again = self.block(list(s.body), env, {"ty": None}, lambda env_b: f"{name} fuel' {args}")
        self._emit_loop(name, "fuel", ro, carried, env, "Ok " + self._carried_tuple(carried), again)
        return self.wrap_pre(n.pre, self._after(name, f"(Z.to_nat {n.text})", ro, carried, rest, env, ret_ty_box, tail))

    def _translate_function(self, fname, fdef):
        saved = self.cur_fn
        self.cur_fn = fname
        try:
            return super()._translate_function(fname, fdef)
        finally:
            self.cur_fn = saved

    def render(self, header=""):
        body = list(self.out)
        self.out = ["Section Evm.", "Variable evm : Z.  (* index of the active EVM version in vyper.evm.opcodes.EVM_VERSIONS *)"] \
            + body + ["End Evm."]
        try:
            return super().render(header)
        finally:
            self.out = body


def gen_instr():
    tr = InstrTranslator()
    LZ = Ty.lst(Ty.Z)
    tr.var_types[("num_to_bytearray", "o")] = LZ
    tr.var_types[("PUSH_N", "o")] = LZ
    # num_to_bytearray divides by 256 per iteration: bit length (+2) bounds the iteration count
    tr.fuel_hint[("num_to_bytearray", 1)] = "(2 + Z.to_nat (Z.log2 x))%nat"
    for f in FUNCS:
        tr.translate_function(f)
    want = {"num_to_bytearray": ([Ty.Z], LZ), "PUSH": ([Ty.Z], LZ), "PUSH_N": ([Ty.Z, Ty.Z], LZ),
            "calc_push_size": ([Ty.Z], Ty.Z)}
    for f, (a, r) in want.items():
        got = tr.sigs[f]
        if (got[0], got[1]) != (a, r):
            raise Unsupported(f"signature of {f} changed: {got[0]} -> {got[1]}")
    return tr.render()


_state = {}


def generate(ctx):
    """writes coq/C16/GenAsmInstr.v; returns True if the translation succeeded."""
    try:
        text = gen_instr()
    except Unsupported as e:
        _state["rejected"] = str(e)
        return False
    (COQ / "C16" / "GenAsmInstr.v").write_text(text)
    return True


def _grid(ctx):
    rnd = ctx.rng("instr")
    xs = [0, 1, 2, 127, 128, 255, 256, 257, 65535, 65536, 65537, 2**255, 2**256 - 1, 2**256, 2**256 + 1, 2**264 - 1, -1, -255, -256, -257]
    xs += [256**k for k in range(2, 34)] + [256**k - 1 for k in range(2, 34)]
    xs += [rnd.randrange(2**rnd.randrange(1, 270)) for _ in range(40)]
    return sorted(set(xs))


def _real(fn, args, evm):
    from vyper.compiler.settings import Settings, anchor_settings
    from vyper.evm.assembler import instructions as I
    from vyper.evm.assembler.core import _compile_push_instruction
    with anchor_settings(Settings(evm_version=evm)):
        try:
            r = getattr(I, fn)(*args)
            if fn in ("PUSH", "PUSH_N"):
                r = list(_compile_push_instruction(r))
            elif fn == "num_to_bytearray":
                r = list(r)
            else:
                r = [r]
            return r
        except AssertionError:
            return "err"
        except ValueError:  # bytes() of an out-of-range item / bad mnemonic number
            return "err"


def _cases(ctx):
    from vyper.evm.opcodes import EVM_VERSIONS
    xs = _grid(ctx)
    ns = [0, 1, 2, 3, 31, 32, 33]
    cases = []  # (fn, args, evm, coq expr)
    for evm in ("paris", "shanghai", "prague", "london"):
        v = EVM_VERSIONS[evm]
        for x in xs:
            cases.append(("PUSH", (x,), evm, f"out (l <- PUSH {v} {coqrun.hexlit(x)} ;; compile_push l)"))
            cases.append(("calc_push_size", (x,), evm, f"out (n <- GenAsmInstr.calc_push_size {v} {coqrun.hexlit(x)} ;; Ok [n])"))
    for x in xs:
        cases.append(("num_to_bytearray", (x,), "prague", f"out (num_to_bytearray {coqrun.hexlit(x)})"))
        for n in ns:
            cases.append(("PUSH_N", (x, n), "prague", f"out (l <- PUSH_N {coqrun.hexlit(x)} {n} ;; compile_push l)"))
    return cases


def differential(ctx):
    """translation validation: regenerated Coq model of instructions.py vs CPython.  -> (n, mismatches)"""
    cases = _cases(ctx)
    imports = ("From Verif Require Import Base.PyInt C16.Asm C16.GenAsmInstr C16.InstrBridge.\n"
               "Definition out (r : res (list Z)) : list Z := match r with Ok l => 7 :: l | Err _ => [9] end.")
    try:
        outs = coqrun.eval_zlists(imports, [c[3] for c in cases], "c16instr", shard=80)
    except RuntimeError as e:
        _state["diff_error"] = str(e)[-800:]
        return 0, [{"error": str(e)[-800:]}]
    bad = []
    for (fn, args, evm, _), o in zip(cases, outs):
        real = _real(fn, args, evm)
        model = "err" if o == [9] else o[1:]
        if real != model:
            bad.append({"fn": fn, "args": [str(a) for a in args], "evm": evm, "python": str(real)[:200], "model": str(model)[:200]})
    _state["diff_bad"] = bad
    return len(cases), bad[:5]


def search(ctx):
    """property oracle directly on the real helpers: exact value, minimal width, PUSH0 rule, no truncation."""
    found = 0
    if "rejected" in _state:
        pass
    for evm in ("london", "paris", "shanghai", "cancun", "prague"):
        p0 = evm in ("shanghai", "cancun", "prague")
        for x in [v for v in _grid(ctx) if 0 <= v < 2**256]:
            r = _real("PUSH", (x,), evm)
            n = (x.bit_length() + 7) // 8
            if x == 0 and not p0:
                want = [0x60, 0]
            else:
                want = [0x5F + n] + list(x.to_bytes(n, "big"))
            sz = _real("calc_push_size", (x,), evm)
            if r != want or sz != [len(want)]:
                found += 1
                if found <= 2:
                    ctx.violation("failing-input", f"PUSH({x:#x}) under {evm} is not the minimal exact push",
                                  {"call": f"_compile_push_instruction(vyper.evm.assembler.instructions.PUSH({x})), "
                                           f"calc_push_size({x}) with evm_version={evm}",
                                   "expected_bytes": bytes(want).hex(), "observed": str(r)[:200], "calc_push_size": str(sz)},
                                  key=f"c16:PUSH:{evm}:{x}")
                break
    for x in _grid(ctx):
        for n in (0, 1, 2, 3, 32):
            r = _real("PUSH_N", (x, n), "prague")
            want = [0x5F + n] + list(x.to_bytes(n, "big")) if 0 <= x < 256**n else "err"
            if r != want:
                found += 1
                if found <= 4:
                    ctx.violation("failing-input", f"PUSH_N({x:#x}, {n}) truncates or mis-encodes",
                                  {"call": f"_compile_push_instruction(vyper.evm.assembler.instructions.PUSH_N({x}, {n}))",
                                   "expected": bytes(want).hex() if want != "err" else "AssertionError", "observed": str(r)[:200]},
                                  key=f"c16:PUSH_N:{n}:{x}")
                return found
    if "rejected" in _state and not found:
        ctx.violation("translator-rejected", "py2coq cannot translate instructions.py: " + _state["rejected"],
                      {"error": _state["rejected"]})
    return found
