"""C16: T-tie of vyper/evm/assembler/instructions.py (stub, replaced below)."""


def generate(ctx):
    return False


def differential(ctx):
    return 0, 0


def search(ctx):
    return 0
