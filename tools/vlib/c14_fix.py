"""C14: validation of VariableRangeAnalysis results by the verified checker coq/C14/RangeFix.v.

Every run of the real analysis (it is requested by the Venom passes while real contracts are compiled) is observed by
wrapping `VariableRangeAnalysis.analyze` in this process; the function as it is at that moment and the range state
at the entry of each block are exported as Coq literals, and `check f E` is evaluated by vm_compute.  By theorem
range_fixpoint_sound a passed check means that the reported ranges hold on every execution of that function.
The block-exit states and a hash of all per-instruction states recomputed by the Coq transfer functions are compared
with the real ones (tie of the model's transfer/refinement to `_run_block`/`_edge_state`)."""
import hashlib
import os

from vlib import coqrun
from vlib.common import COQ

HASH_P = 2**127 - 1
FOREIGN = 1_000_000


class Export:
    def __init__(self, fn, analysis):
        self.blocks = list(fn.get_basic_blocks())
        entry = fn.entry
        if self.blocks and self.blocks[0] is not entry:
            self.blocks.remove(entry)
            self.blocks.insert(0, entry)
        self.lab = {bb.label.value: i for i, bb in enumerate(self.blocks)}
        self.var = {}
        self.foreign = {}
        self.name = fn.name.value if hasattr(fn.name, "value") else str(fn.name)
        self.ninsts = sum(len(bb.instructions) for bb in self.blocks)
        self.fn_text = None
        self.a = analysis

    def v(self, var):
        k = var.value if hasattr(var, "value") else str(var)
        if k not in self.var:
            self.var[k] = len(self.var)
        return self.var[k]

    def operand(self, o):
        from vyper.venom.basicblock import IRLabel, IRLiteral, IRVariable
        if isinstance(o, IRLiteral):
            return f"OLit {coqrun.hexlit(o.value)}"
        if isinstance(o, IRVariable):
            return f"OVar {self.v(o)}%N"
        if isinstance(o, IRLabel):
            if o.value in self.lab:
                return f"OLab {self.lab[o.value]}%N"
            if o.value not in self.foreign:
                self.foreign[o.value] = FOREIGN + len(self.foreign)
            return f"OLab {self.foreign[o.value]}%N"
        raise ValueError(f"operand {o!r}")

    def inst(self, i):
        args = "; ".join(self.operand(o) for o in i.operands)
        outs = "; ".join(f"{self.v(o)}%N" for o in i.get_outputs())
        return f'mkI "{i.opcode}" [{args}] [{outs}]'

    def struct(self):
        """the same function as plain python data (for the search): blocks of (opcode, operands, outputs)"""
        from vyper.venom.basicblock import IRLabel, IRLiteral, IRVariable
        out = []
        for bb in self.blocks:
            blk = []
            for i in bb.instructions:
                ops = []
                for o in i.operands:
                    if isinstance(o, IRLiteral):
                        ops.append(("lit", o.value))
                    elif isinstance(o, IRVariable):
                        ops.append(("var", self.v(o)))
                    else:
                        ops.append(("lab", self.lab.get(o.value, -1)))
                blk.append((i.opcode, ops, [self.v(o) for o in i.get_outputs()]))
            out.append(blk)
        return out

    def func(self):
        bl = []
        for bb in self.blocks:
            bl.append("[" + ";\n    ".join(self.inst(i) for i in bb.instructions) + "]")
        return "[" + ";\n  ".join(bl) + "]"

    def rng(self, r):
        if r.is_top:
            return "TOP"
        if r.is_empty:
            return "BOT"
        return f"IV {coqrun.hexlit(r.lo)} {coqrun.hexlit(r.hi)}"

    def env(self, st):
        if st is None:
            return None
        items = sorted(((self.v(k), r) for k, r in st.items()), key=lambda t: t[0])
        return "[" + "; ".join(f"({x}%N, {self.rng(r)})" for x, r in items) + "]"

    def envs(self, table):
        out = []
        for bb in self.blocks:
            out.append(self.env(table[bb]))
        return out

    @staticmethod
    def _h(x, r):
        if r.is_top:
            return 0
        if r.is_empty:
            return (x * 7919 + 13) % HASH_P
        return (x * 7919 + 17 + (r.lo % HASH_P) * 104729 + (r.hi % HASH_P) * 1299709) % HASH_P

    def inst_env_hash(self):
        """sum over body instructions (position-weighted) of the order-independent hash of the state before them"""
        tot = 0
        for bi, bb in enumerate(self.blocks):
            k = 0
            for i in bb.instructions:
                if i.opcode == "phi":
                    continue
                env = self.a._inst_entry_env.get(i)
                if env is None:
                    return None
                h = sum(self._h(self.v(x), r) for x, r in env.items()) % HASH_P
                tot = (tot + (bi * 1009 + k + 1) * h) % HASH_P
                k += 1
        return tot


COQ_HASH = f"""
Definition HP : Z := {HASH_P}.
Definition hr (x : N) (r : vrange) : Z :=
  match r with TOP => 0 | BOT => (Z.of_N x * 7919 + 13) mod HP
  | IV lo hi => (Z.of_N x * 7919 + 17 + (lo mod HP) * 104729 + (hi mod HP) * 1299709) mod HP end.
Fixpoint keys (e : aenv) : list N := match e with [] => [] | (x, _) :: t => x :: keys t end.
Definition henv (e : aenv) : Z :=
  fold_left (fun a x => (a + hr x (aget e x)) mod HP) (nodup N.eq_dec (keys e)) 0.
Fixpoint hblock (bi : Z) (k : Z) (e : aenv) (l : list inst) (acc : Z) : Z :=
  match l with [] => acc
  | i :: t => let acc' := (acc + (bi * 1009 + k + 1) * henv e) mod HP in
              match step_abs e i with Ok e' => hblock bi (k + 1) e' t acc' | Err _ => -1 end end.
Definition hfunc (f : func) (E : list aenv) : Z :=
  snd (fold_left (fun st be => let '(bi, acc) := st in
         if acc <? 0 then (bi + 1, acc) else (bi + 1, hblock bi 0 (snd be) (body (fst be)) acc)) (combine f E) (0, 0)).
Definition env_eqb (a b : aenv) : bool :=
  forallb (fun xr : N * vrange => vr_le (aget a (fst xr)) (aget b (fst xr)) && vr_le (aget b (fst xr)) (aget a (fst xr))) (a ++ b).
Definition exits_eq (f : func) (E X : list aenv) : Z :=
  Z.of_nat (List.length (filter (fun t : block * (aenv * aenv) =>
     match run_abs (fst (snd t)) (body (fst t)) with Ok x => negb (env_eqb x (snd (snd t))) | Err _ => true end)
     (combine f (combine E X)))).
"""


class Observer:
    """Wraps VariableRangeAnalysis.analyze for the duration of a `with` block."""

    def __init__(self, max_insts=600, rnd=None, fuzz_paths=3):
        self.rnd = rnd
        self.fuzz_paths = fuzz_paths
        self.fuzz_fail = []
        self.fuzz_runs = 0
        self.samples = {}
        self.elim = []
        self.elim_fail = []
        self.affine = []
        self.cur_pass = None
        self.cur_sample = None
        self.max_insts = max_insts
        self.skipped_big = 0
        self.calls = 0

    def __enter__(self):
        from vyper.venom.analysis.variable_range.analysis import VariableRangeAnalysis
        self.cls = VariableRangeAnalysis
        self.orig = VariableRangeAnalysis.analyze
        obs = self

        def analyze(self_):
            obs.orig(self_)
            try:
                obs.record(self_)
            except Exception as e:  # the observer must never change what the compiler does
                obs.samples.setdefault("__errors__", []).append(repr(e))

        VariableRangeAnalysis.analyze = analyze
        from vyper.venom.passes.assert_elimination import AssertEliminationPass
        from vyper.venom.passes.overflow_elimination import OverflowEliminationPass
        self.pass_orig = []
        for cls_, nm in ((AssertEliminationPass, "AssertEliminationPass"), (OverflowEliminationPass, "OverflowEliminationPass")):
            orig_run = cls_.run_pass
            self.pass_orig.append((cls_, orig_run))

            def run_pass(self_, *a, _orig=orig_run, _nm=nm, **k):
                obs.cur_pass, obs.cur_sample = _nm, None
                asserts = {}
                try:
                    for bb in self_.function.get_basic_blocks():
                        for i in bb.instructions:
                            if i.opcode == "assert" and len(i.operands) == 1:
                                asserts[i] = i.operands[0]
                except Exception:
                    pass
                try:
                    r = _orig(self_, *a, **k)
                finally:
                    obs.cur_pass = None
                try:
                    obs.after_pass(self_, _nm, r, asserts)
                except Exception as e:
                    obs.samples.setdefault("__errors__", []).append("after_pass: " + repr(e))
                return r
            cls_.run_pass = run_pass
        from vyper.venom.passes.affine_folding import AffineFoldingPass
        orig_aff = AffineFoldingPass.run_pass
        self.pass_orig.append((AffineFoldingPass, orig_aff))

        def run_affine(self_, *a, **k):
            ex = before = None
            try:
                ex = Export(self_.function, None)
                if ex.ninsts <= obs.max_insts:
                    before = ex.func()
                    before_s = ex.struct()
            except Exception as e:
                obs.samples.setdefault("__errors__", []).append("affine before: " + repr(e))
            r = orig_aff(self_, *a, **k)
            try:
                if before is not None:
                    after = ex.func()
                    if after != before:
                        key = hashlib.sha256((before + after).encode()).hexdigest()[:16]
                        if not any(e_["key"] == key for e_ in obs.affine):
                            obs.affine.append(dict(key=key, name=ex.name, func=before, after=after, ninsts=ex.ninsts,
                                                   text=str(self_.function), before_s=before_s, after_s=ex.struct()))
            except Exception as e:
                obs.samples.setdefault("__errors__", []).append("affine after: " + repr(e))
            return r
        AffineFoldingPass.run_pass = run_affine
        return self

    def __exit__(self, *a):
        self.cls.analyze = self.orig
        for cls_, orig_run in self.pass_orig:
            cls_.run_pass = orig_run

    def after_pass(self, pass_obj, name, changes, asserts):
        cs = self.cur_sample
        self.cur_sample = None
        if cs is None or not changes:
            return
        ex, ftxt, E, an = cs
        after = ex.func()
        deleted = {i: o for i, o in asserts.items() if i.opcode == "nop"}
        if self.rnd is not None and len(self.elim_fail) < 3:
            r = fuzz(an, self.rnd, self.fuzz_paths, ghost=deleted)
            if r is not None:
                r["pass"] = name
                self.elim_fail.append(r)
        key = hashlib.sha256((ftxt + after).encode()).hexdigest()[:16]
        if any(e_["key"] == key for e_ in self.elim):
            return
        self.elim.append(dict(key=key, name=ex.name, func=ftxt, E=E, after=after, pass_name=name, deleted=len(deleted),
                              ninsts=ex.ninsts, text=str(pass_obj.function)))

    def record(self, an):
        self.calls += 1
        if self.rnd is not None and len(self.fuzz_fail) < 3:
            self.fuzz_runs += 1
            r = fuzz(an, self.rnd, self.fuzz_paths)
            if r is not None:
                self.fuzz_fail.append(r)
        ex = Export(an.function, an)
        if ex.ninsts > self.max_insts:
            self.skipped_big += 1
            return
        ftxt = ex.func()
        E = ex.envs(an._entry_state)
        X = ex.envs(an._exit_state)
        if any(e is None for e in E) or any(x is None for x in X):
            # unreachable blocks were never visited: the analysis has no state for them
            E = [e if e is not None else "[]" for e in E]
            X = [x for x in X]
        if self.cur_pass is not None:
            self.cur_sample = (ex, ftxt, E, an)
        unvisited = [i for i, x in enumerate(X) if x is None]
        h = ex.inst_env_hash() if not unvisited else None
        key = hashlib.sha256((ftxt + "|".join(E)).encode()).hexdigest()[:16]
        if key in self.samples:
            return
        self.samples[key] = dict(name=ex.name, func=ftxt, E=E, X=X, hash=h, ninsts=ex.ninsts, nblocks=len(ex.blocks),
                                 unvisited=unvisited, text=str(an.function))


def evaluate(samples, name="c14fix", shard=6, timeout=600):
    """Returns per sample (check_ok, exits_differ, hash_model) from Coq."""
    imports = ("From Coq Require Import NArith.\nFrom Verif Require Import Base.PyInt C14.RangeBase C14.RangeFix.\n"
               "Open Scope string_scope.\nOpen Scope Z_scope.\n" + COQ_HASH)
    exprs = []
    for s in samples:
        f = s["func"]
        E = "[" + ";\n ".join(s["E"]) + "]"
        if s["unvisited"]:
            exprs.append(f"let f : func := {f} in let E : list aenv := {E} in [if check f E then 1 else 0; 0; 0]")
        else:
            X = "[" + ";\n ".join(s["X"]) + "]"
            exprs.append(f"let f : func := {f} in let E : list aenv := {E} in let X : list aenv := {X} in "
                         "[if check f E then 1 else 0; exits_eq f E X; hfunc f E]")
    return coqrun.eval_zlists(imports, exprs, name, shard=shard, timeout=timeout)


# ------------------------------------------------------------------ search for a failing input (dynamic)
BOUNDARY = [0, 1, 2, 3, 31, 32, 33, 127, 128, 255, 256, 2**128, 2**255 - 1, 2**255, 2**255 + 1, 2**256 - 2, 2**256 - 1]
W256 = 2**256


def _in_range(w, r):
    if r.is_top:
        return True
    if r.is_empty:
        return False
    return any(r.lo <= v <= r.hi for v in (w, w - W256))


def fuzz(an, rnd, paths=4, max_steps=300, ghost=None):
    """Execute the function on random inputs (pure opcodes by the real eval_arith, everything else returns random /
    boundary words) and test the property itself: every variable's word lies in the range the analysis reports
    before each instruction.  Returns a dict describing the first failure, or None."""
    from vyper.venom.basicblock import IRLabel, IRLiteral, IRVariable
    from vyper.venom.passes.sccp.eval import ARITHMETIC_OPS, eval_arith
    fn = an.function
    blocks = {bb.label.value: bb for bb in fn.get_basic_blocks()}
    for _ in range(paths):
        env = {}
        bb = fn.entry
        pred = None
        trace = []
        steps = 0
        while bb is not None and steps < max_steps:
            # parallel phis
            upd = {}
            for i in bb.instructions:
                if i.opcode != "phi":
                    break
                src = [v for (l, v) in i.phi_operands if pred is not None and l.value == pred.label.value]
                if src and src[0] in env:
                    upd[i.output] = env[src[0]]
                else:
                    upd[i.output] = None
            for k, v in upd.items():
                if v is None:
                    env.pop(k, None)
                else:
                    env[k] = v
            nxt = None
            for i in bb.instructions:
                if i.opcode == "phi":
                    continue
                steps += 1
                if ghost is not None and i in ghost:
                    o = ghost[i]
                    gv = (o.value % W256) if isinstance(o, IRLiteral) else env.get(o)
                    if gv == 0:
                        return {"function": str(fn), "block": bb.label.value, "deleted_assert_operand": str(o),
                                "value": "0x0", "trace": trace[-40:]}
                st = an._inst_entry_env.get(i) if ghost is None else None
                if st is not None:
                    for var, r in st.items():
                        if var in env and not _in_range(env[var], r):
                            return {"function": str(fn), "block": bb.label.value, "instruction": str(i), "variable": str(var),
                                    "value": hex(env[var]), "claimed_range": repr(r), "trace": trace[-40:]}

                def val(o):
                    if isinstance(o, IRLiteral):
                        return o.value % W256
                    if isinstance(o, IRVariable):
                        if o not in env:
                            env[o] = rnd.choice(BOUNDARY)
                        return env[o]
                    return None
                outs = i.get_outputs()
                op = i.opcode
                if op == "jmp":
                    nxt = blocks.get(i.operands[0].value)
                elif op == "jnz":
                    c = val(i.operands[0])
                    nxt = blocks.get((i.operands[1] if c != 0 else i.operands[2]).value)
                    trace.append(f"jnz {i.operands[0]}={c}")
                elif op == "djmp":
                    labs = [o for o in i.operands if isinstance(o, IRLabel) and o.value in blocks]
                    nxt = blocks.get(rnd.choice(labs).value) if labs else None
                elif outs:
                    vals = [val(o) for o in i.operands]
                    if op == "assign" and len(vals) == 1 and vals[0] is not None:
                        res = vals[0]
                    elif op in ARITHMETIC_OPS and all(v is not None for v in vals) and len(outs) == 1:
                        try:
                            res = eval_arith(op, [IRLiteral(v) for v in vals]) % W256
                        except Exception:
                            res = rnd.choice(BOUNDARY)
                    else:
                        res = rnd.choice(BOUNDARY) if rnd.random() < 0.7 else rnd.randrange(W256)
                    for o in outs:
                        env[o] = res
                    trace.append(f"{outs[0]} = {op} -> {hex(res)}")
            pred, bb = bb, nxt
    return None


def evaluate_elim(samples, name="c14elim", shard=6, timeout=600):
    """Per pass invocation: [elim_check ok]."""
    imports = ("From Coq Require Import NArith.\nFrom Verif Require Import Base.PyInt C14.RangeBase C14.RangeFix C14.RangeElim.\n"
               "Open Scope string_scope.\nOpen Scope Z_scope.\n")
    exprs = []
    for s in samples:
        E = "[" + ";\n ".join(s["E"]) + "]"
        exprs.append(f"let f : func := {s['func']} in let E : list aenv := {E} in let g : func := {s['after']} in "
                     "[if elim_check f E g then 1 else 0; if check f E then 1 else 0]")
    return coqrun.eval_zlists(imports, exprs, name, shard=shard, timeout=timeout)


def evaluate_affine(samples, name="c14aff", shard=6, timeout=600):
    imports = ("From Coq Require Import NArith.\nFrom Verif Require Import Base.PyInt C14.RangeBase C14.RangeFix C14.RangeElim C14.RangeAffine.\n"
               "Open Scope string_scope.\nOpen Scope Z_scope.\n"
               "Definition ndiff (f g : func) : Z := Z.of_nat (List.length (filter (fun p : inst * inst => negb (inst_eqb (fst p) (snd p))) "
               "(combine (List.concat f) (List.concat g)))).\n")
    exprs = []
    for s in samples:
        exprs.append(f"let f : func := {s['func']} in let g : func := {s['after']} in [if affine_check f g then 1 else 0; ndiff f g]")
    return coqrun.eval_zlists(imports, exprs, name, shard=shard, timeout=timeout)


def _run_struct(fs, seed, max_steps=400):
    """Execute a structured function; unmodelled instructions return words that depend only on (seed, block, index,
    visit), so that two runs of structurally aligned functions see the same 'environment'.  Yields (b, idx, outs, values)."""
    import hashlib as _h
    from vyper.venom.basicblock import IRLiteral
    from vyper.venom.passes.sccp.eval import ARITHMETIC_OPS, eval_arith
    env, b, pred, steps, visits, log = {}, 0, None, 0, {}, []

    def havoc(bi, idx):
        n = visits.get((bi, idx), 0)
        visits[(bi, idx)] = n + 1
        d = int.from_bytes(_h.sha256(f"{seed}:{bi}:{idx}:{n}".encode()).digest(), "big")
        return BOUNDARY[d % len(BOUNDARY)] if d % 4 else d % W256

    while b is not None and 0 <= b < len(fs) and steps < max_steps:
        blk = fs[b]
        upd = {}
        for idx, (op, ops, outs) in enumerate(blk):
            if op != "phi":
                break
            src = None
            for j in range(0, len(ops) - 1, 2):
                if ops[j][0] == "lab" and ops[j][1] == pred and ops[j + 1][0] == "var":
                    src = ops[j + 1][1]
            upd[outs[0]] = env.get(src, havoc(b, idx)) if src is not None else havoc(b, idx)
        env.update(upd)
        nxt = None
        for idx, (op, ops, outs) in enumerate(blk):
            if op == "phi":
                continue
            steps += 1

            def val(o):
                if o[0] == "lit":
                    return o[1] % W256
                if o[0] == "var":
                    if o[1] not in env:
                        env[o[1]] = havoc(b, -1 - o[1])
                    return env[o[1]]
                return None
            if op == "jmp":
                nxt = ops[0][1]
            elif op == "jnz":
                nxt = ops[1][1] if val(ops[0]) != 0 else ops[2][1]
            elif op == "djmp":
                labs = [o[1] for o in ops if o[0] == "lab" and o[1] >= 0]
                nxt = labs[havoc(b, idx) % len(labs)] if labs else None
            elif op == "assert":
                if len(ops) == 1 and val(ops[0]) == 0:
                    log.append((b, idx, "revert", ()))
                    return log
            elif outs:
                vals = [val(o) for o in ops]
                if op == "assign" and len(vals) == 1 and vals[0] is not None:
                    res = vals[0]
                elif op in ARITHMETIC_OPS and all(v is not None for v in vals) and len(outs) == 1:
                    try:
                        res = eval_arith(op, [IRLiteral(v) for v in vals]) % W256
                    except Exception:
                        res = havoc(b, idx)
                else:
                    res = havoc(b, idx)
                for o in outs:
                    env[o] = res
                log.append((b, idx, tuple(outs), res))
        pred, b = b, nxt
    return log


def search_value_change(sample, rnd, tries=40):
    """before/after functions of a pass that only replaces instructions in place: find an execution on which an
    instruction at the same position produces a different word."""
    fb, fa = sample["before_s"], sample["after_s"]
    for _ in range(tries):
        seed = rnd.randrange(2**32)
        lb, la = _run_struct(fb, seed), _run_struct(fa, seed)
        for x, y in zip(lb, la):
            if x != y:
                b, idx = x[0], x[1]
                return {"function_after": sample["text"][:6000], "block": b, "index": idx,
                        "instruction_before": repr(fb[b][idx]), "instruction_after": repr(fa[b][idx]),
                        "value_before": str(x[3]), "value_after": str(y[3]), "seed": seed}
    return None


# ------------------------------------------------------------------ hand-made families for the affine folding pass
def affine_family(rnd, n=120):
    """Random straight-line / two-block functions made of add/sub/assign chains (literal on either side, multi-use
    intermediates, re-use of the root), pushed through the REAL AffineFoldingPass; returns samples for evaluate_affine."""
    from vyper.venom.analysis import IRAnalysesCache
    from vyper.venom.parser import parse_venom
    from vyper.venom.passes.affine_folding import AffineFoldingPass
    LITS = [0, 1, 2, 3, 5, 7, 31, 32, 64, 96, 100, 255, 256, 2**128, 2**255, 2**256 - 1, 2**256 - 2, 2**256 - 32]
    out = []
    for t in range(n):
        lines = ["    %x = calldataload 0", "    %y = calldataload 32"]
        vars_ = ["%x", "%y"]
        chain = "%x"
        m = rnd.randint(2, 6)
        for k in range(m):
            v = f"%t{k}"
            kind = rnd.random()
            lit = rnd.choice(LITS)
            src = chain if rnd.random() < 0.8 else rnd.choice(vars_)
            if kind < 0.35:
                lines.append(f"    {v} = add {src}, {lit}")
            elif kind < 0.5:
                lines.append(f"    {v} = add {lit}, {src}")
            elif kind < 0.75:
                lines.append(f"    {v} = sub {src}, {lit}")
            elif kind < 0.9:
                lines.append(f"    {v} = sub {lit}, {src}")
            elif kind < 0.95:
                lines.append(f"    {v} = {src}")
            else:
                lines.append(f"    {v} = add {src}, {rnd.choice(vars_)}")
            vars_.append(v)
            chain = v
            if rnd.random() < 0.15:
                lines.append(f"    sstore {rnd.randint(0, 3)}, {rnd.choice(vars_)}")
        # every variable gets at least one use so that single-use / multi-use both occur
        lines.append(f"    sstore 9, {chain}")
        if rnd.random() < 0.5:
            lines.append(f"    sstore 10, {rnd.choice(vars_)}")
        lines.append("    stop")
        src_txt = "function main {\n  main:\n" + "\n".join(lines) + "\n}\n"
        try:
            ctx = parse_venom(src_txt)
            fn = list(ctx.functions.values())[0]
            ex = Export(fn, None)
            before, before_s = ex.func(), ex.struct()
            AffineFoldingPass(IRAnalysesCache(fn), fn).run_pass()
            after = ex.func()
        except Exception as e:
            out.append(dict(key=f"fam{t}", name=f"family_{t}", error=repr(e), text=src_txt))
            continue
        if after != before:
            out.append(dict(key=f"fam{t}", name=f"family_{t}", func=before, after=after, ninsts=len(lines), text=src_txt + "\n-- after --\n" + str(fn),
                            before_s=before_s, after_s=ex.struct()))
    return out
