"""Source pins: the structural Coq models (coq/C06/Venc.v, coq/C05/DecImpl.v) transcribe specific functions of the two
code generators.  Each pinned function's AST (docstrings removed) is hashed; a changed hash means the model no longer
tracks the code and is reported (after Search) as correspondence-broken naming the function."""
import ast
import hashlib
import inspect
import textwrap


def fn_hash(fn):
    tree = ast.parse(textwrap.dedent(inspect.getsource(fn)))
    f = tree.body[0]
    for node in ast.walk(f):
        if isinstance(node, (ast.FunctionDef, ast.AsyncFunctionDef)) and node.body and isinstance(node.body[0], ast.Expr) \
                and isinstance(node.body[0].value, ast.Constant) and isinstance(node.body[0].value.value, str):
            node.body = node.body[1:] or [ast.Pass()]
    return hashlib.sha256(ast.dump(f).encode()).hexdigest()[:16]


def check(pins):
    """pins: list of (module, qualname, expected_hash).  Returns list of (name, got, expected) mismatches."""
    import importlib
    bad = []
    for mod, name, exp in pins:
        try:
            obj = importlib.import_module(mod)
            for part in name.split("."):
                obj = getattr(obj, part)
            got = fn_hash(obj)
        except Exception as e:  # noqa
            got = f"missing: {type(e).__name__}"
        if got != exp:
            bad.append((f"{mod}.{name}", got, exp))
    return bad
