"""Source pins: the structural Coq models (coq/C06/Venc.v, coq/C05/DecImpl.v) transcribe specific functions of the two
code generators.  Each pinned function's AST (docstrings removed) is hashed; a changed hash means the model no longer
tracks the code and is reported (after Search) as correspondence-broken naming the function."""
import ast
import hashlib
import inspect
import textwrap


def fn_hash(fn):
    tree = ast.parse(textwrap.dedent(inspect.getsource(fn)))
    f = tree.body[0]
    for node in ast.walk(f):
        if isinstance(node, (ast.FunctionDef, ast.AsyncFunctionDef)) and node.body and isinstance(node.body[0], ast.Expr) \
                and isinstance(node.body[0].value, ast.Constant) and isinstance(node.body[0].value.value, str):
            node.body = node.body[1:] or [ast.Pass()]
    return hashlib.sha256(ast.dump(f).encode()).hexdigest()[:16]


def _strip_doc(f):
    for node in ast.walk(f):
        if isinstance(node, (ast.FunctionDef, ast.AsyncFunctionDef)) and node.body and isinstance(node.body[0], ast.Expr) \
                and isinstance(node.body[0].value, ast.Constant) and isinstance(node.body[0].value.value, str):
            node.body = node.body[1:] or [ast.Pass()]
    return hashlib.sha256(ast.dump(f).encode()).hexdigest()[:16]


_FILES = {}


def file_hash(mod, name):
    """Hash of `name` (dotted path of class/def names) read from the module's file as it is on disk now.  Unlike
    inspect.getsource on the imported object this cannot mix line numbers of an older import with a newer file."""
    import importlib.util
    spec = importlib.util.find_spec(mod)
    if spec.origin not in _FILES:
        with open(spec.origin) as fh:
            _FILES[spec.origin] = ast.parse(fh.read())
    node = _FILES[spec.origin]
    for part in name.split("."):
        nxt = [n for n in node.body if isinstance(n, (ast.FunctionDef, ast.AsyncFunctionDef, ast.ClassDef))
               and n.name == part]
        if len(nxt) != 1:
            raise LookupError(part)
        node = nxt[0]
    import copy
    return _strip_doc(copy.deepcopy(node))


def check(pins):
    """pins: list of (module, qualname, expected_hash).  Returns list of (name, got, expected) mismatches."""
    import importlib
    bad = []
    for mod, name, exp in pins:
        try:
            got = file_hash(mod, name)
        except Exception:  # noqa
            try:
                obj = importlib.import_module(mod)
                for part in name.split("."):
                    obj = getattr(obj, part)
                got = fn_hash(obj)
            except Exception as e:  # noqa
                got = f"missing: {type(e).__name__}"
        if got != exp:
            bad.append((f"{mod}.{name}", got, exp))
    return bad
