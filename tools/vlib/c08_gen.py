"""C08: position x effect-kind matrix.  Every side-effecting sub-expression is an internal function that logs a
unique tag and bumps a counter; programs are built on the C01 AST so VyCore predicts the ordered trace."""
from vlib.c01_ast import E, S, Fun, Program, U256, BOOL

I128 = ("int", 128, True)
U8 = ("int", 8, False)
ARR3 = ("sarr", U256, 3)
ARR4 = ("sarr", U256, 4)
MAT = ("sarr", ARR3, 3)
DARR = ("darr", U256, 6)
PAIR = ("struct", "Pair", (("a", U256), ("b", U256)))

MAPT = ("map", U256, U256)
# storage indices
B40 = ("bytes", 40)
CTR, SV, ARR, DYN, MATV, FLAG, PV, MP, A3, PS, DM, BS, BM, BAL = range(14)
STO = [("ctr", U256), ("sv", U256), ("arr", ARR4), ("dyn", DARR), ("mat", MAT), ("flg", BOOL), ("pv", PAIR), ("mp", MAPT),
       ("a3", ARR3), ("ps", ("sarr", PAIR, 3)), ("dm", ("sarr", DARR, 3)), ("bs", B40), ("bm", ("map", U256, B40)),
       ("$balance", U256)]     # $balance: the contract's ether balance, a reserved cell of the reference program's state
TV = 0                          # transient index (declared only in programs that contain a transient test)


def c(v, t=U256):
    return E("const", t, v=v)


def sto(i):
    return E("self", STO[i][1], name=STO[i][0], id=i)


def bsto(i):
    return ("sto", STO[i][0], i)


def log_tag(k):
    return S("log", name="Tag", id=0, fields=["x"], args=[c(k)])


def bump_ctr():
    return S("aug", op="Add", ty=U256, base=bsto(CTR), path=[], e=c(1))


class Builder:
    """one program = prelude of effect functions + a batch of external test functions"""

    def __init__(self, rng, with_tra=False):
        self.r = rng
        self.p = Program()
        p = self.p
        if with_tra:
            p.tra = [("tv", U256), ("ta3", ARR3), ("tpv", PAIR), ("tdyn", DARR)]
        self.values = {}     # test index -> msg.value of its call
        p.c08_values = self.values
        p.structs.append(PAIR)
        p.events = [("Tag", [("x", U256)]), ("Ev2", [("a", U256), ("b", U256)]), ("Ev3", [("a", U256), ("b", U256), ("c", U256)])]
        p.sto = list(STO)
        self.eff = {}    # name -> (index, ret type)
        self.unordered = {}
        # g0..g5: uint256 effect functions with distinct tags and small return values (valid indices)
        rets = [1, 2, 0, 2, 1, 0]
        for k in range(6):
            self.add_int(f"g{k}", [], U256, [bump_ctr(), log_tag(100 + k), S("return", e=c(rets[k]))])
        self.add_int("bt", [], BOOL, [bump_ctr(), log_tag(201), S("return", e=c(True, BOOL))])
        self.add_int("bf", [], BOOL, [bump_ctr(), log_tag(202), S("return", e=c(False, BOOL))])
        # bump: writes the storage variable read elsewhere in the same expression
        self.add_int("bump", [], U256, [S("aug", op="Add", ty=U256, base=bsto(SV), path=[], e=c(10)), log_tag(300),
                                        S("return", e=sto(SV))])
        # bump1: same effect, returns 1 (a valid index / small operand)
        self.add_int("bump1", [], U256, [S("aug", op="Add", ty=U256, base=bsto(SV), path=[], e=c(10)), log_tag(301),
                                         S("return", e=c(1))])
        # h(a, b): a callee with its own tag
        a0 = E("var", U256, name="a0", id=0)
        a1 = E("var", U256, name="a1", id=1)
        self.add_int("h", [("a0", U256), ("a1", U256)], U256,
                     [log_tag(400), S("return", e=E("bin", U256, op="Add", a=E("bin", U256, op="Mul", a=a0, b=c(10)), b=a1))])
        self.add_int("mk", [], ARR3, [bump_ctr(), log_tag(500), S("return", e=E("list", ARR3, elems=[c(7), c(8), c(9)]))])
        self.add_int("mkd", [], DARR, [bump_ctr(), log_tag(501), S("return", e=E("list", DARR, elems=[c(4), c(5)]))])
        # mod(a): assigns to its (by-value) array parameter
        arr0 = E("var", ARR3, name="a0", id=0)
        self.add_int("mod", [("a0", ARR3)], U256,
                     [S("assign", base=("loc", "a0", 0), path=[("i", c(0))], e=c(99), decl=None), log_tag(600),
                      S("return", e=E("idx", U256, a=arr0, i=c(0)))])
        # modp(a): assigns to its scalar parameter
        self.add_int("modp", [("a0", U256)], U256,
                     [S("aug", op="Add", ty=U256, base=("loc", "a0", 0), path=[], e=c(1000)), log_tag(601),
                      S("return", e=E("var", U256, name="a0", id=0))])
        # wr(): overwrites arr[1] and dyn (an effect on containers), returns 1
        self.add_int("wr", [], U256,
                     [S("assign", base=bsto(ARR), path=[("i", c(1))], e=c(55), decl=None),
                      S("assign", base=bsto(DYN), path=[], e=E("list", DARR, elems=[c(66), c(67)]), decl=None),
                      log_tag(700), S("return", e=c(1))])
        # effects on the other kinds of mutable state read by the read-vs-effect matrix (each returns 1)
        def eff(name, tag, body):
            self.add_int(name, [], U256, body + [log_tag(tag), S("return", e=c(1))])
        if with_tra:
            eff("bumpt", 710, [S("aug", op="Add", ty=U256, base=("tra", "tv", TV), path=[], e=c(10))])
            eff("wct", 717, [S("assign", base=("tra", "ta3", 1), path=[], e=E("list", ARR3, elems=[c(7), c(8), c(9)]), decl=None),
                             S("assign", base=("tra", "tpv", 2), path=[], e=E("list", PAIR, elems=[c(70), c(80)]), decl=None),
                             S("assign", base=("tra", "tdyn", 3), path=[], e=E("list", DARR, elems=[c(6), c(6), c(6)]), decl=None)])
        eff("app", 711, [S("append", base=bsto(DYN), path=[], cap=6, e=c(9))])
        eff("popd", 712, [S("expr", e=E("pop", U256, base=bsto(DYN), path=[]))])
        eff("wmap", 713, [S("assign", base=bsto(MP), path=[("i", c(2))], e=c(77), decl=None)])
        eff("wpv", 714, [S("assign", base=bsto(PV), path=[("f", "a", 0)], e=c(89), decl=None)])
        eff("pay", 715, [S("send", hid=BAL, e=c(10))])
        # wc(): overwrites the multi-word variables read by the complex-typed part of the matrix
        eff("wc", 716, [S("assign", base=bsto(A3), path=[], e=E("list", ARR3, elems=[c(7), c(8), c(9)]), decl=None),
                        S("assign", base=bsto(PV), path=[], e=E("list", PAIR, elems=[c(70), c(80)]), decl=None),
                        S("assign", base=bsto(DYN), path=[], e=E("list", DARR, elems=[c(6), c(6), c(6)]), decl=None),
                        S("assign", base=bsto(BS), path=[], e=E("const", ("bytes", 7), v=b"changed"), decl=None)])
        # sc(x): an effect function WITH a parameter (its frame overlaps an outer callee's argument area), returns 10*x+1
        self.add_int("sc", [("a0", U256)], U256,
                     [bump_ctr(), S("log", name="Tag", id=0, fields=["x"], args=[E("bin", U256, op="Add", a=c(800), b=E("var", U256, name="a0", id=0))]),
                      S("return", e=E("bin", U256, op="Add", a=E("bin", U256, op="Mul", a=E("var", U256, name="a0", id=0), b=c(10)), b=c(1)))])
        # callees taking multi-word arguments, returning a value that identifies every member
        v0 = E("var", ARR3, name="a0", id=0)
        def at(v, k):
            return E("idx", U256, a=v, i=c(k))
        def mix(x, y, z):
            return E("bin", U256, op="Add", a=x, b=E("bin", U256, op="Add", a=E("bin", U256, op="Mul", a=y, b=c(1000)),
                                                     b=E("bin", U256, op="Mul", a=z, b=c(1000000))))
        self.add_int("sum3", [("a0", ARR3)], U256, [log_tag(730), S("return", e=mix(at(v0, 0), at(v0, 1), at(v0, 2)))])
        self.add_int("sum3b", [("a0", ARR3), ("a1", U256)], U256,
                     [log_tag(731), S("return", e=E("bin", U256, op="Add", a=mix(at(v0, 0), at(v0, 1), at(v0, 2)),
                                                    b=E("bin", U256, op="Mul", a=E("var", U256, name="a1", id=1), b=c(10 ** 9))))])
        vp = E("var", PAIR, name="a0", id=0)
        self.add_int("sump", [("a0", PAIR)], U256,
                     [log_tag(732), S("return", e=mix(E("fld", U256, a=vp, name="a", id=0), E("fld", U256, a=vp, name="b", id=1), c(0)))])
        vd = E("var", DARR, name="a0", id=0)
        self.add_int("sumd", [("a0", DARR)], U256,
                     [log_tag(733), S("return", e=mix(E("idx", U256, a=vd, i=c(0)), E("idx", U256, a=vd, i=c(1)), E("len", U256, a=vd)))])
        # identity callees taking a multi-word first argument and a word
        for nm, ty in (("ida", ARR3), ("idp", PAIR), ("idd", DARR), ("idb", B40)):
            self.add_int(nm, [("a0", ty), ("a1", U256)], ty, [log_tag(720), S("return", e=E("var", ty, name="a0", id=0))])
        self.n_ext = 0

    def add_int(self, name, params, ret, body):
        i = len(self.p.ints)
        self.p.ints.append(Fun(name, params, ret, body, False))
        self.eff[name] = (i, ret)

    def call(self, name, *args):
        i, ret = self.eff[name]
        return E("call", ret, name=name, id=i, args=list(args))

    def g(self, k=None):
        if k is None:
            k = self.r.randrange(6)
        return self.call(f"g{k}")

    def two(self):
        a, b = self.r.sample(range(6), 2)
        return self.g(a), self.g(b)

    def three(self):
        a, b, d = self.r.sample(range(6), 3)
        return self.g(a), self.g(b), self.g(d)

    def add_test(self, label, ret, body, unordered=False, value=0):
        name = f"t{self.n_ext}_{label}"
        if value:
            body = [S("credit", hid=BAL)] + body
            self.values[self.n_ext] = value
        self.p.exts.append(Fun(name, [], ret, body, True, payable=bool(value)))
        self.unordered[self.n_ext] = unordered
        self.n_ext += 1

    # ------------------------------------------------------------ read-vs-effect matrix
    # READS: kind of mutable state read by the LEFT operand -> (setup, read expression, effect function changing it, value read
    # first, msg.value).  The RIGHT operand is a call of the effect function (returns 1).  CONTEXTS: the compound form.
    def rve_read(self, rd):
        dyn2 = E("list", DARR, elems=[c(1), c(2)])
        return {
            "sv": ([S("assign", base=bsto(SV), path=[], e=c(3), decl=None)], sto(SV), "bump1", 3, 0),
            "tv": ([S("assign", base=("tra", "tv", TV), path=[], e=c(3), decl=None)], E("tra", U256, name="tv", id=TV), "bumpt", 3, 0),
            "len": ([S("assign", base=bsto(DYN), path=[], e=dyn2, decl=None)], E("len", U256, a=sto(DYN)), "app", 2, 0),
            "lenp": ([S("assign", base=bsto(DYN), path=[], e=dyn2, decl=None)], E("len", U256, a=sto(DYN)), "popd", 2, 0),
            "map": ([S("assign", base=bsto(MP), path=[("i", c(2))], e=c(5), decl=None)], E("idx", U256, a=sto(MP), i=c(2)), "wmap", 5, 0),
            "arr": ([S("assign", base=bsto(ARR), path=[("i", c(1))], e=c(5), decl=None)], E("idx", U256, a=sto(ARR), i=c(1)), "wr", 5, 0),
            "dynel": ([S("assign", base=bsto(DYN), path=[], e=dyn2, decl=None)], E("idx", U256, a=sto(DYN), i=c(0)), "wr", 1, 0),
            "fld": ([S("assign", base=bsto(PV), path=[], e=E("list", PAIR, elems=[c(4), c(5)]), decl=None)],
                    E("fld", U256, a=sto(PV), name="a", id=0), "wpv", 4, 0),
            "bal": ([], E("balance", U256, hid=BAL), "pay", 100, 100),
        }[rd]

    # multi-word reads: (setup, read expression, container indexed by the effectful call, identity callee)
    def rve_cplx(self, ctxk, rd):
        setup, R, cont, idf = {
            "carr": ([S("assign", base=bsto(A3), path=[], e=E("list", ARR3, elems=[c(1), c(2), c(3)]), decl=None)], sto(A3), MATV, "ida"),
            "cstruct": ([S("assign", base=bsto(PV), path=[], e=E("list", PAIR, elems=[c(1), c(2)]), decl=None)], sto(PV), PS, "idp"),
            "cdyn": ([S("assign", base=bsto(DYN), path=[], e=E("list", DARR, elems=[c(1), c(2)]), decl=None)], sto(DYN), DM, "idd"),
            "cbytes": ([S("assign", base=bsto(BS), path=[], e=E("const", ("bytes", 4), v=b"orig"), decl=None)], sto(BS), BM, "idb"),
            # the same read from TRANSIENT storage
            "ctarr": ([S("assign", base=("tra", "ta3", 1), path=[], e=E("list", ARR3, elems=[c(1), c(2), c(3)]), decl=None)],
                      E("tra", ARR3, name="ta3", id=1), MATV, "ida"),
            "ctstruct": ([S("assign", base=("tra", "tpv", 2), path=[], e=E("list", PAIR, elems=[c(1), c(2)]), decl=None)],
                         E("tra", PAIR, name="tpv", id=2), PS, "idp"),
            "ctdyn": ([S("assign", base=("tra", "tdyn", 3), path=[], e=E("list", DARR, elems=[c(1), c(2)]), decl=None)],
                      E("tra", DARR, name="tdyn", id=3), DM, "idd"),
        }[rd]
        ty = R.ty
        F = self.call("wct" if rd.startswith("ct") else "wc")
        if ctxk == "cassign":      # container[wc()] = <multi-word read>: the value is copied before wc() runs
            body = setup + [S("assign", base=bsto(cont), path=[("i", F)], e=R, decl=None),
                            S("return", e=E("idx", ty, a=sto(cont), i=c(1)))]
        elif ctxk == "ccallarg":   # f(<multi-word read>, wc())
            body = setup + [S("return", e=self.call(idf, R, F))]
        elif ctxk == "clocal":     # z: T = read; wc(); return z  (copy, not alias)
            body = setup + [S("assign", base=("loc", "z", 0), path=[], e=R, decl=ty), S("expr", e=F),
                            S("return", e=E("var", ty, name="z", id=0))]
        else:
            raise ValueError(ctxk)
        self.add_test(f"rve_{ctxk}_{rd}", ty, body)

    RVE_CPLX = [f"rve_{cx}_{rd}" for cx in ("cassign", "ccallarg", "clocal")
                for rd in ("carr", "cstruct", "cdyn", "cbytes", "ctarr", "ctstruct", "ctdyn")]
    RVE_READS = ["sv", "tv", "len", "lenp", "map", "arr", "dynel", "fld", "bal"]
    RVE_CONTEXTS = ["add", "sub", "mul", "div", "mod", "cmp", "bit", "and", "or", "max", "min", "ifexp", "list", "struct",
                    "callargs", "subscript", "assign_rhs", "aug"]

    def rve(self, ctxk, rd):
        setup, R, fn, v0, value = self.rve_read(rd)
        F = self.call(fn)

        def b(op, x, y, t=U256):
            return E("bin", t, op=op, a=x, b=y)
        ret = U256
        pre, post = [], None
        if ctxk == "add":
            e = b("Add", R, F)
        elif ctxk == "sub":
            e = b("Sub", b("Add", R, c(5)), F)
        elif ctxk == "mul":
            e = b("Mul", R, b("Add", F, c(1)))
        elif ctxk == "div":
            e = b("Div", b("Mul", R, c(7)), b("Add", F, c(1)))
        elif ctxk == "mod":
            e = b("Mod", R, b("Add", F, c(6)))
        elif ctxk == "cmp":
            up = rd not in ("lenp", "bal")      # does the effect increase the value read?
            op = self.r.choice(["Eq", "Le" if up else "Ge", "Lt" if up else "Gt"])
            X = b("Sub", b("Add", F, c(v0)), c(1))      # = v0
            if op in ("Lt", "Gt"):
                X = b("Add", X, c(1)) if op == "Lt" else b("Sub", X, c(1))
            e, ret = E("cmp", BOOL, op=op, a=R, b=X), BOOL
        elif ctxk == "bit":
            e = b(self.r.choice(["BXor", "BOr"]), R, b("Mul", F, c(2 ** 16)))
        elif ctxk == "and":
            e, ret = E("and", BOOL, a=E("cmp", BOOL, op="Eq", a=R, b=c(v0)), b=E("cmp", BOOL, op="Eq", a=F, b=c(1))), BOOL
        elif ctxk == "or":
            e, ret = E("or", BOOL, a=E("cmp", BOOL, op="Ne", a=R, b=c(v0)), b=E("cmp", BOOL, op="Ne", a=F, b=c(1))), BOOL
        elif ctxk == "max":
            e = E("max", U256, a=R, b=F)
        elif ctxk == "min":
            e = E("min", U256, a=R, b=b("Add", F, c(1000)))
        elif ctxk == "ifexp":
            e = E("ifexp", U256, c=E("cmp", BOOL, op="Eq", a=R, b=c(v0)), a=b("Add", F, c(40)), b=c(0))
        elif ctxk == "list":
            e, ret = E("list", ARR3, elems=[R, F, c(3)]), ARR3
        elif ctxk == "struct":
            e, ret = E("list", PAIR, elems=[R, F]), PAIR
        elif ctxk == "callargs":
            e = self.call("h", R, F)
        elif ctxk == "subscript":
            pre = [S("assign", base=bsto(MATV), path=[("i", c(k))], e=E("list", ARR3, elems=[c(10 * k + 1), c(10 * k + 2), c(10 * k + 3)]), decl=None)
                   for k in range(3)]
            e = E("idx", U256, a=E("idx", ARR3, a=sto(MATV), i=b("Mod", R, c(3))), i=F)
        elif ctxk == "assign_rhs":
            # the right-hand side is evaluated before the target's index expression
            pre = [S("assign", base=("loc", "z", 0), path=[], e=E("list", ARR3, elems=[c(0), c(0), c(0)]), decl=ARR3)]
            body = setup + pre + [S("assign", base=("loc", "z", 0), path=[("i", F)], e=R, decl=None),
                                  S("return", e=E("idx", U256, a=E("var", ARR3, name="z", id=0), i=c(1)))]
            self.add_test(f"rve_{ctxk}_{rd}", U256, body, value=value)
            return
        elif ctxk == "aug":
            # x += R + F through a local: the read is part of the right-hand side, before the call
            body = setup + [S("assign", base=("loc", "x", 0), path=[], e=c(1000), decl=U256),
                            S("aug", op="Add", ty=U256, base=("loc", "x", 0), path=[], e=b("Add", R, F)),
                            S("return", e=E("var", U256, name="x", id=0))]
            self.add_test(f"rve_{ctxk}_{rd}", U256, body, value=value)
            return
        else:
            raise ValueError(ctxk)
        self.add_test(f"rve_{ctxk}_{rd}", ret, setup + pre + [S("return", e=e)], value=value)

    # ------------------------------------------------------------ positions
    def pos_binop_bit(self):
        a, b = self.two()
        op = self.r.choice(["BOr", "BXor", "BAnd"])
        self.add_test("binop_" + op, U256, [S("return", e=E("bin", U256, op=op, a=a, b=b))])

    def pos_binop(self):
        a, b = self.two()
        op = self.r.choice(["Add", "Sub", "Mul"])
        if op == "Sub":
            a = E("bin", U256, op="Add", a=a, b=c(5))
        self.add_test("binop_" + op, U256, [S("return", e=E("bin", U256, op=op, a=a, b=b))])

    def pos_binop_nested(self):
        a, b, d = self.three()
        inner = E("bin", U256, op="Add", a=b, b=d)
        e = E("bin", U256, op=self.r.choice(["Add", "Mul"]), a=a, b=inner) if self.r.random() < 0.5 else \
            E("bin", U256, op=self.r.choice(["Add", "Mul"]), a=inner, b=a)
        self.add_test("binop_nested", U256, [S("return", e=e)])

    def pos_divmod(self):
        a, b = self.two()
        op = self.r.choice(["Div", "Mod"])
        self.add_test("binop_" + op, U256, [S("return", e=E("bin", U256, op=op, a=a, b=E("bin", U256, op="Add", a=b, b=c(1))))])

    def pos_compare(self):
        a, b = self.two()
        op = self.r.choice(["Lt", "Le", "Gt", "Ge", "Eq", "Ne"])
        self.add_test("cmp_" + op, BOOL, [S("return", e=E("cmp", BOOL, op=op, a=a, b=b))])

    def _boolop(self, k, first):
        a = self.call(first)
        b = E("cmp", BOOL, op="Ge", a=self.g(), b=c(0)) if self.r.random() < 0.5 else self.call(self.r.choice(["bt", "bf"]))
        self.add_test(f"bool_{k}_{first}", BOOL, [S("return", e=E(k, BOOL, a=a, b=b))])

    def pos_bool_and_t(self):
        self._boolop("and", "bt")

    def pos_bool_and_f(self):
        self._boolop("and", "bf")

    def pos_bool_or_t(self):
        self._boolop("or", "bt")

    def pos_bool_or_f(self):
        self._boolop("or", "bf")

    def _boolop3(self, k):
        xs = [self.call(self.r.choice(["bt", "bf"])) for _ in range(3)]
        e = E(k, BOOL, a=E(k, BOOL, a=xs[0], b=xs[1]), b=xs[2])
        self.add_test(f"bool3_{k}", BOOL, [S("return", e=e)])

    def pos_bool3_and(self):
        self._boolop3("and")

    def pos_bool3_or(self):
        self._boolop3("or")

    def pos_bool_mixed(self):
        # (a and b) or c  /  a and (b or c)
        xs = [self.call(self.r.choice(["bt", "bf"])) for _ in range(3)]
        if self.r.random() < 0.5:
            e = E("or", BOOL, a=E("and", BOOL, a=xs[0], b=xs[1]), b=xs[2])
        else:
            e = E("and", BOOL, a=xs[0], b=E("or", BOOL, a=xs[1], b=xs[2]))
        self.add_test("bool_mixed", BOOL, [S("return", e=e)])

    def pos_not_neg(self):
        self.add_test("not", BOOL, [S("return", e=E("not", BOOL, a=self.call(self.r.choice(["bt", "bf"]))))])

    def pos_ifexp(self):
        a, b = self.two()
        cnd = self.call(self.r.choice(["bt", "bf"]))
        self.add_test("ifexp", U256, [S("return", e=E("ifexp", U256, c=cnd, a=a, b=b))])

    def pos_call_args(self):
        a, b = self.two()
        self.add_test("callargs", U256, [S("return", e=self.call("h", a, b))])

    def pos_call_args_nested(self):
        a, b, d = self.three()
        e = self.call("h", a, self.call("h", b, d)) if self.r.random() < 0.5 else self.call("h", self.call("h", a, b), d)
        self.add_test("callargs_nested", U256, [S("return", e=e)])

    # internal-call arguments that are literals whose members contain internal calls (the callee's argument area is written
    # while nested calls still run), and nested calls with parameters
    def sc(self, k):
        return self.call("sc", c(k))

    def pos_callarg_list_of_calls(self):
        a, b, d = self.r.sample(range(1, 9), 3)
        self.add_test("callarg_list_of_calls", U256, [S("return", e=self.call("sum3", E("list", ARR3, elems=[self.sc(a), self.sc(b), self.sc(d)])))])

    def pos_callarg_list_mixed(self):
        a, b = self.r.sample(range(1, 9), 2)
        self.add_test("callarg_list_mixed", U256, [S("return", e=self.call("sum3", E("list", ARR3, elems=[c(5), self.sc(a), E("bin", U256, op="Add", a=self.sc(b), b=c(1))])))])

    def pos_callarg_list_then_word(self):
        a, b = self.r.sample(range(1, 9), 2)
        self.add_test("callarg_list_then_word", U256, [S("return", e=self.call("sum3b", E("list", ARR3, elems=[self.sc(a), self.sc(b), c(3)]), c(7)))])

    def pos_callarg_list_then_call(self):
        a, b, d = self.r.sample(range(1, 9), 3)
        self.add_test("callarg_list_then_call", U256, [S("return", e=self.call("sum3b", E("list", ARR3, elems=[self.sc(a), c(2), self.sc(b)]), self.sc(d)))])

    def pos_callarg_struct_of_calls(self):
        a, b = self.r.sample(range(1, 9), 2)
        self.add_test("callarg_struct_of_calls", U256, [S("return", e=self.call("sump", E("list", PAIR, elems=[self.sc(a), self.sc(b)])))])

    def pos_callarg_dyn_of_calls(self):
        a, b = self.r.sample(range(1, 9), 2)
        self.add_test("callarg_dyn_of_calls", U256, [S("return", e=self.call("sumd", E("list", DARR, elems=[self.sc(a), self.sc(b)])))])

    def pos_callarg_nested_with_params(self):
        a, b, d = self.r.sample(range(1, 9), 3)
        e = self.call("h", self.sc(a), self.call("h", self.sc(b), self.sc(d))) if self.r.random() < 0.5 else \
            self.call("h", self.call("h", self.sc(a), self.sc(b)), self.sc(d))
        self.add_test("callarg_nested_with_params", U256, [S("return", e=e)])

    def pos_callarg_call_of_call(self):
        a = self.r.randrange(1, 9)
        self.add_test("callarg_call_of_call", U256, [S("return", e=self.call("sc", self.call("sc", self.sc(a))))])

    def pos_subscript_read(self):
        self.add_test("sub_read", U256, [
            S("assign", base=bsto(ARR), path=[("i", c(2))], e=c(42), decl=None),
            S("return", e=E("bin", U256, op="Add", a=E("idx", U256, a=sto(ARR), i=self.g()), b=self.g()))])

    def pos_subscript_2d(self):
        a, b = self.two()
        self.add_test("sub_2d", U256, [
            S("assign", base=bsto(MATV), path=[("i", c(1)), ("i", c(2))], e=c(13), decl=None),
            S("return", e=E("idx", U256, a=E("idx", ARR3, a=sto(MATV), i=a), i=b))])

    def pos_subscript_of_call(self):
        self.add_test("sub_of_call", U256, [S("return", e=E("idx", U256, a=self.call("mk"), i=self.g()))])

    def pos_assign_target(self):
        a, b = self.two()
        self.add_test("assign_target", U256, [
            S("assign", base=bsto(ARR), path=[("i", a)], e=E("bin", U256, op="Add", a=b, b=c(20)), decl=None),
            S("return", e=E("bin", U256, op="Add", a=E("idx", U256, a=sto(ARR), i=c(1)),
                            b=E("bin", U256, op="Mul", a=E("idx", U256, a=sto(ARR), i=c(2)), b=c(100))))])

    def pos_assign_target_2d(self):
        a, b, d = self.three()
        self.add_test("assign_target_2d", U256, [
            S("assign", base=bsto(MATV), path=[("i", a), ("i", b)], e=E("bin", U256, op="Add", a=d, b=c(20)), decl=None),
            S("return", e=sto(CTR))])

    def pos_assign_field(self):
        a, b = self.two()
        self.add_test("assign_struct", U256, [
            S("assign", base=bsto(PV), path=[], e=E("list", PAIR, elems=[a, b]), decl=None),
            S("return", e=E("fld", U256, a=sto(PV), name="a", id=0))])

    def pos_aug_scalar(self):
        # target value is read before the right-hand side's effect on the same variable
        op = self.r.choice(["Add", "Mul"])
        pre = self.r.choice([1, 2, 7])
        self.add_test("aug_scalar_" + op, U256, [
            S("assign", base=bsto(SV), path=[], e=c(pre), decl=None),
            S("aug", op=op, ty=U256, base=bsto(SV), path=[], e=self.call("bump")),
            S("return", e=sto(SV))])

    def pos_aug_scalar_bit(self):
        op = self.r.choice(["BXor", "BOr", "BAnd"])
        self.add_test("aug_scalar_" + op, U256, [
            S("assign", base=bsto(SV), path=[], e=c(self.r.choice([5, 7, 12])), decl=None),
            S("aug", op=op, ty=U256, base=bsto(SV), path=[], e=self.call("bump")),
            S("return", e=sto(SV))])

    def pos_aug_local(self):
        a, b = self.two()
        self.add_test("aug_local", U256, [
            S("assign", base=("loc", "x", 0), path=[], e=a, decl=U256),
            S("aug", op="Add", ty=U256, base=("loc", "x", 0), path=[], e=E("bin", U256, op="Mul", a=b, b=self.g())),
            S("return", e=E("var", U256, name="x", id=0))])

    def pos_read_before_effect(self):
        left = self.r.random() < 0.5
        a, b = (sto(SV), self.call("bump")) if left else (self.call("bump"), sto(SV))
        self.add_test("read_before_effect" if left else "effect_before_read", U256, [
            S("assign", base=bsto(SV), path=[], e=c(3), decl=None),
            S("assign", base=("loc", "x", 0), path=[], e=E("bin", U256, op="Add", a=a, b=b), decl=U256),
            S("return", e=E("var", U256, name="x", id=0))])

    def pos_read_before_container_effect(self):
        # arr[1] read, then wr() overwrites arr[1]
        left = self.r.random() < 0.5
        rd = E("idx", U256, a=sto(ARR), i=c(1))
        a, b = (rd, self.call("wr")) if left else (self.call("wr"), rd)
        self.add_test("container_read_vs_effect", U256, [
            S("assign", base=bsto(ARR), path=[("i", c(1))], e=c(5), decl=None),
            S("return", e=E("bin", U256, op="Add", a=a, b=b))])

    def pos_return(self):
        a, b = self.two()
        self.add_test("return_struct", PAIR, [S("return", e=E("list", PAIR, elems=[a, b]))])

    def pos_list_literal(self):
        a, b, d = self.three()
        self.add_test("list_literal", ARR3, [S("return", e=E("list", ARR3, elems=[a, b, d]))])

    def pos_dyn_literal(self):
        a, b = self.two()
        self.add_test("dyn_literal", U256, [
            S("assign", base=bsto(DYN), path=[], e=E("list", DARR, elems=[a, b, c(3)]), decl=None),
            S("return", e=E("len", U256, a=sto(DYN)))])

    def pos_loop_iterable(self):
        self.add_test("loop_iterable", U256, [
            S("assign", base=("loc", "acc", 0), path=[], e=c(0), decl=U256),
            S("forin", name="it", id=1, vty=U256, e=E("list", ARR3, elems=[c(3), E("var", U256, name="acc", id=0), c(5)]),
              body=[S("aug", op="Add", ty=U256, base=("loc", "acc", 0), path=[], e=E("bin", U256, op="Add", a=E("var", U256, name="it", id=1), b=self.g(2)))]),
            S("return", e=E("var", U256, name="acc", id=0))])

    def pos_loop_iterable_dyn(self):
        self.add_test("loop_iterable_dyn", U256, [
            S("assign", base=("loc", "acc", 0), path=[], e=c(0), decl=U256),
            S("assign", base=bsto(DYN), path=[], e=self.call("mkd"), decl=None),
            S("forin", name="it", id=1, vty=U256, e=sto(DYN),
              body=[S("aug", op="Add", ty=U256, base=("loc", "acc", 0), path=[], e=E("var", U256, name="it", id=1)), log_tag(900)]),
            S("return", e=E("var", U256, name="acc", id=0))])

    def pos_loop_range_bound(self):
        self.add_test("loop_range_bound", U256, [
            S("assign", base=("loc", "acc", 0), path=[], e=c(0), decl=U256),
            S("assign", base=bsto(SV), path=[], e=c(2), decl=None),
            # the bound expression reads sv once; the body changes sv (bump) without changing the trip count
            S("fordyn", name="it", id=1, vty=U256, e=sto(SV), bound=4,
              body=[S("aug", op="Add", ty=U256, base=("loc", "acc", 0), path=[], e=E("bin", U256, op="Add", a=self.call("bump"), b=self.g()))]),
            S("return", e=E("var", U256, name="acc", id=0))])

    def pos_log_args(self):
        a, b = self.two()
        self.add_test("log_args", None, [S("log", name="Ev2", id=1, fields=["a", "b"], args=[a, b])], unordered=True)

    def pos_log_args3(self):
        a, b, d = self.three()
        self.add_test("log_args3", None, [S("log", name="Ev3", id=2, fields=["a", "b", "c"], args=[a, self.call("h", b, c(1)), d])],
                      unordered=True)

    def pos_builtin_args(self):
        a, b = self.two()
        k = self.r.choice(["min", "max"])
        self.add_test("builtin_" + k, U256, [S("return", e=E(k, U256, a=a, b=b))], unordered=True)

    def pos_convert_len(self):
        self.add_test("convert_len", U256, [S("return", e=E("bin", U256, op="Add",
                                                              a=E("conv", U256, a=E("conv", U8, a=self.g())),
                                                              b=E("len", U256, a=self.call("mkd"))))])

    def pos_append_pop(self):
        a, b = self.two()
        self.add_test("append_pop", U256, [
            S("append", base=bsto(DYN), path=[], cap=6, e=a),
            S("append", base=bsto(DYN), path=[], cap=6, e=E("bin", U256, op="Add", a=b, b=c(30))),
            S("assign", base=("loc", "x", 0), path=[], e=E("bin", U256, op="Add", a=E("pop", U256, base=bsto(DYN), path=[]), b=self.g()), decl=U256),
            S("return", e=E("bin", U256, op="Add", a=E("var", U256, name="x", id=0), b=E("len", U256, a=sto(DYN))))])

    # append whose ARGUMENT changes the length of the same array (the argument is evaluated before append reads the length)
    def _dyn3(self):
        return S("assign", base=bsto(DYN), path=[], e=E("list", DARR, elems=[c(1), c(2), c(3)]), decl=None)

    def pos_append_arg_pops(self):
        self.add_test("append_arg_pops", DARR, [self._dyn3(),
                      S("append", base=bsto(DYN), path=[], cap=6, e=E("pop", U256, base=bsto(DYN), path=[])),
                      S("return", e=sto(DYN))])

    def pos_append_arg_pops_expr(self):
        self.add_test("append_arg_pops_expr", DARR, [self._dyn3(),
                      S("append", base=bsto(DYN), path=[], cap=6,
                        e=E("bin", U256, op="Add", a=E("pop", U256, base=bsto(DYN), path=[]), b=E("pop", U256, base=bsto(DYN), path=[]))),
                      S("return", e=sto(DYN))])

    def pos_append_arg_call_appends(self):
        self.add_test("append_arg_call_appends", DARR, [self._dyn3(),
                      S("append", base=bsto(DYN), path=[], cap=6, e=E("bin", U256, op="Add", a=self.call("app"), b=c(4))),
                      S("return", e=sto(DYN))])

    def pos_append_arg_call_pops(self):
        self.add_test("append_arg_call_pops", DARR, [self._dyn3(),
                      S("append", base=bsto(DYN), path=[], cap=6, e=E("bin", U256, op="Add", a=self.call("popd"), b=self.call("popd"))),
                      S("return", e=sto(DYN))])

    def pos_append_arg_pops_local(self):
        z = ("loc", "z", 0)
        self.add_test("append_arg_pops_local", DARR, [
            S("assign", base=z, path=[], e=E("list", DARR, elems=[c(1), c(2), c(3)]), decl=DARR),
            S("append", base=z, path=[], cap=6, e=E("pop", U256, base=z, path=[])),
            S("return", e=E("var", DARR, name="z", id=0))])

    def pos_pop_both(self):
        self.add_test("pop_pop", U256, [
            S("assign", base=bsto(DYN), path=[], e=E("list", DARR, elems=[c(1), c(2), c(3)]), decl=None),
            S("return", e=E("bin", U256, op="Sub", a=E("bin", U256, op="Mul", a=E("pop", U256, base=bsto(DYN), path=[]), b=c(10)),
                            b=E("pop", U256, base=bsto(DYN), path=[])))])

    def pos_assert(self):
        e = E("or", BOOL, a=self.call("bf"), b=self.call("bt")) if self.r.random() < 0.5 else \
            E("and", BOOL, a=self.call("bt"), b=self.call("bt"))
        self.add_test("assert", U256, [S("assert", e=e), S("return", e=sto(CTR))])

    def pos_if_cond(self):
        a, b = self.two()
        self.add_test("if_cond", U256, [
            S("if", c=E("cmp", BOOL, op="Lt", a=a, b=E("bin", U256, op="Add", a=b, b=c(1))), th=[S("return", e=self.g())], el=[]),
            S("return", e=c(0))])

    def pos_by_value_array(self):
        loc = E("var", ARR3, name="x", id=0)
        self.add_test("by_value_array", U256, [
            S("assign", base=("loc", "x", 0), path=[], e=E("list", ARR3, elems=[c(1), c(2), c(3)]), decl=ARR3),
            S("assign", base=("loc", "y", 1), path=[], e=self.call("mod", loc), decl=U256),
            S("return", e=E("bin", U256, op="Add", a=E("idx", U256, a=loc, i=c(0)), b=E("bin", U256, op="Mul", a=E("var", U256, name="y", id=1), b=c(1000))))])

    def pos_by_value_storage_array(self):
        self.add_test("by_value_sto", U256, [
            S("assign", base=bsto(MATV), path=[("i", c(0))], e=E("list", ARR3, elems=[c(1), c(2), c(3)]), decl=None),
            S("assign", base=("loc", "y", 0), path=[], e=self.call("mod", E("idx", ARR3, a=sto(MATV), i=c(0))), decl=U256),
            S("return", e=E("bin", U256, op="Add", a=E("idx", U256, a=E("idx", ARR3, a=sto(MATV), i=c(0)), i=c(0)), b=E("var", U256, name="y", id=0)))])

    def pos_by_value_scalar(self):
        loc = E("var", U256, name="x", id=0)
        self.add_test("by_value_scalar", U256, [
            S("assign", base=("loc", "x", 0), path=[], e=self.g(), decl=U256),
            S("assign", base=("loc", "y", 1), path=[], e=self.call("modp", loc), decl=U256),
            S("return", e=E("bin", U256, op="Add", a=loc, b=E("var", U256, name="y", id=1)))])

    def pos_copy_then_effect(self):
        # y = arr (copy), then wr() changes arr[1]: y must keep the old value
        self.add_test("copy_then_effect", U256, [
            S("assign", base=bsto(ARR), path=[("i", c(1))], e=c(8), decl=None),
            S("assign", base=("loc", "y", 0), path=[], e=sto(ARR), decl=ARR4),
            S("expr", e=self.call("wr")),
            S("return", e=E("bin", U256, op="Add", a=E("idx", U256, a=E("var", ARR4, name="y", id=0), i=c(1)),
                            b=E("bin", U256, op="Mul", a=E("idx", U256, a=sto(ARR), i=c(1)), b=c(100))))])

    def pos_arg_copy_vs_effect(self):
        # h(arr[1], wr()): first argument is read before wr() overwrites arr[1]
        self.add_test("arg_read_vs_effect", U256, [
            S("assign", base=bsto(ARR), path=[("i", c(1))], e=c(8), decl=None),
            S("return", e=self.call("h", E("idx", U256, a=sto(ARR), i=c(1)), self.call("wr")))])

    POSITIONS = ["binop", "binop_bit", "binop_nested", "divmod", "compare", "bool_and_t", "bool_and_f", "bool_or_t", "bool_or_f", "bool3_and", "bool3_or", "bool_mixed", "not_neg", "ifexp", "call_args",
                 "call_args_nested", "subscript_read", "subscript_2d", "subscript_of_call", "assign_target",
                 "assign_target_2d", "assign_field", "aug_scalar", "aug_scalar_bit", "aug_local", "read_before_effect",
                 "read_before_container_effect", "return", "list_literal", "dyn_literal", "loop_iterable",
                 "loop_iterable_dyn", "loop_range_bound", "log_args", "log_args3", "builtin_args", "convert_len",
                 "append_pop", "pop_both", "assert", "if_cond", "by_value_array", "by_value_storage_array",
                 "by_value_scalar", "copy_then_effect", "arg_copy_vs_effect", "callarg_list_of_calls", "callarg_list_mixed",
                 "callarg_list_then_word", "callarg_list_then_call", "callarg_struct_of_calls", "callarg_dyn_of_calls",
                 "callarg_nested_with_params", "callarg_call_of_call", "append_arg_pops", "append_arg_pops_expr",
                 "append_arg_call_appends", "append_arg_call_pops", "append_arg_pops_local"]


RVE_POSITIONS = [f"rve_{cx}_{rd}" for cx in Builder.RVE_CONTEXTS for rd in Builder.RVE_READS]


def uses_tra(pos):
    return pos.startswith("rve_") and (pos.endswith("_tv") or pos.rsplit("_", 1)[1].startswith("ct"))


def _emit(b, pos):
    if pos.startswith("rve_"):
        _, cx, rd = pos.split("_", 2) if not pos.startswith("rve_assign_rhs") else ("rve", "assign_rhs", pos[len("rve_assign_rhs_"):])
        if rd.startswith("c") and cx.startswith("c"):
            b.rve_cplx(cx, rd)
        else:
            b.rve(cx, rd)
    else:
        getattr(b, "pos_" + pos)()


def build_one(seed_rng_factory, pos, rnd):
    b = Builder(seed_rng_factory(f"{rnd}:{pos}"), with_tra=uses_tra(pos))
    _emit(b, pos)
    return b


def build_group(seed_rng_factory, group):
    """group: list of (pos, round) -> (Program, unordered flags, labels); each test is generated from its own PRNG so a test
    is the same whether built alone or in a bundle"""
    b = Builder(None, with_tra=any(uses_tra(pos) for pos, _ in group))
    for pos, rnd in group:
        b.r = seed_rng_factory(f"{rnd}:{pos}")
        _emit(b, pos)
    return b.p, dict(b.unordered), [f.name for f in b.p.exts]
