"""Boundary value grids for 256-bit words."""
W = 2**256
HALF = 2**255


def word_grid():
    vals = {
        0, 1, 2, 3, 5, 7, 8, 16, 31, 32, 33, 127, 128, 255, 256, 257,
        2**16 - 1, 2**31, 2**32, 2**64 - 1, 2**64, 2**127 - 1, 2**127, 2**127 + 1, 2**128 - 1, 2**128, 2**128 + 1,
        2**160 - 1, 2**160, 2**254, HALF - 2, HALF - 1, HALF, HALF + 1, HALF + 2,
        W - 2**128, W - 2**127, W - 2**127 - 1, W - 256, W - 129, W - 128, W - 127, W - 32, W - 8, W - 3, W - 2, W - 1,
        0xFF00, 0x8000, 0x7FFF, 0x80, 0x7F, 3 * 2**253 + 12345,
    }
    return sorted(vals)


def small_word_grid():
    vals = {0, 1, 2, 7, 8, 31, 32, 255, 256, 2**127, 2**128 - 1, 2**128, HALF - 1, HALF, HALF + 1,
            W - 2**127, W - 129, W - 128, W - 2, W - 1, 0x80, 0x7F}
    return sorted(vals)


def lit_grid():
    """Literals as the venom optimizer sees them: [MIN_INT256, MAX_UINT256]."""
    g = set(word_grid())
    g |= {-1, -2, -3, -7, -8, -127, -128, -129, -(2**127), -(2**127) - 1, -HALF, -HALF + 1, -(2**254)}
    return sorted(g)
