"""C12 builtins correspondence driver (send / raw_revert / raw_call kinds / create_*)."""
from vlib import c12_builtins as B
from vlib import c12_lib as L
from vlib import configs, coqrun
from vlib.evm import Chain

IMPORTS = "From Verif Require Import C12.ExtCall C12.Builtins.\n"


def compile_builtins(cfg):
    try:
        out = configs.compile_src(B.SRC, cfg, formats=("bytecode", "method_identifiers"))
        return {"ok": True, "bytecode": out["bytecode"], "mi": out["method_identifiers"]}
    except Exception as e:
        return {"ok": False, "error": f"{type(e).__name__}: {e}"[:2000]}


def zb(b):
    return "[" + "; ".join(str(x) for x in b) + "]"


def outcome_coq(o):
    return f"({'Success' if o[0] == 's' else 'Failure'} {zb(o[1])})"


def enc_bytes_arg(d):
    return (32).to_bytes(32, "big") + len(d).to_bytes(32, "big") + d + bytes(-len(d) % 32)


class Case:
    """one scenario: how to run it, the model expression (list Z via res_to_list), extra python oracles"""

    def __init__(self, name, fn, target, args=b"", value=0, expr=None, post=None, prep=None, note=""):
        self.name, self.fn, self.target, self.args, self.value = name, fn, target, args, value
        self.expr, self.post, self.prep, self.note = expr, post, prep, note


def build_cases(rnd):
    cases = []
    salt = bytes(rnd.randrange(256) for _ in range(32))
    w = lambda x: x.to_bytes(32, "big")  # noqa
    # ---- send: the EVM's answer is known from the target
    for fn in ("s_send", "s_send_gas"):
        for tgt, out in (("nocode", ("s", b"")), ("accept", ("s", b"")), ("reject", ("f", bytes.fromhex("deadbeef")))):
            cases.append(Case(f"{fn}:{tgt}", fn, tgt, w(5), 5, f"res_to_list (send {outcome_coq(out)})",
                              post=("balance_delta", 5 if out[0] == "s" else 0)))
    cases.append(Case("s_send:callee_oog", "s_send", "callee0", w(5), 5, f"res_to_list (send {outcome_coq(('f', b''))})",
                      note="2300 gas stipend cannot pay the callee's storage reads"))
    cases.append(Case("s_send_gas:callee_ok", "s_send_gas", "callee0", w(5), 5, f"res_to_list (send {outcome_coq(('s', b''))})"))
    cases.append(Case("s_send_gas:callee_revert", "s_send_gas", "callee1", w(5), 5,
                      f"res_to_list (send {outcome_coq(('f', b'abcd'))})"))
    # ---- raw_revert
    for n in (0, 1, 4, 32, 33, 100):
        d = bytes(rnd.randrange(256) for _ in range(n))
        cases.append(Case(f"rr:{n}", "rr", "echo", enc_bytes_arg(d), 0, f"res_to_list (raw_revert {zb(d)})"))
    # ---- raw_call kinds against the calldata-scripted echo target
    behs = [(0, b""), (0, bytes(range(1, 21))), (0, bytes(range(1, 33))), (0, bytes(range(1, 41))),
            (1, b""), (1, bytes(rnd.randrange(256) for _ in range(36))), (2, b"zz"), (3, bytes(range(9, 19)))]
    for name, k, M, R in B.RAWK:
        for mode, data in behs + [("nocode", b"")]:
            if mode == "nocode":
                tgt, out, d = "nocode", ("s", b""), b"\x00"
            else:
                tgt, d = "echo", bytes([mode]) + data
                out = {0: ("s", data), 1: ("f", data), 2: ("f", b""), 3: (("f", b"") if k == "KStatic" else ("s", data))}[mode]
            expr = f"res_to_list (raw_call_k {k} {M} {'true' if R else 'false'} 0 (fun _ _ => {outcome_coq(out)}))"
            cases.append(Case(f"{name}:{mode}:{len(data)}", name, tgt, enc_bytes_arg(d), 0, expr, post=("raw", (M, R))))
    # ---- create_*
    def cexpr(b, R, cs, cres):
        return f"res_to_list (create_builtin {b} {'true' if R else 'false'} {cs} {cres})"
    OKA = "(CreateOk ADDR)"   # ADDR substituted by the observed / computed address word
    for fn, R in (("cp_1", True), ("cp_0", False)):
        cases.append(Case(f"{fn}:echo", fn, "echo", b"", 0, cexpr("MinimalProxy", R, "CS", OKA), post=("code", "proxy")))
        cases.append(Case(f"{fn}:nocode", fn, "nocode", b"", 0, cexpr("MinimalProxy", R, "CS", OKA), post=("code", "proxy")))
    for fn, R in (("cps_1", True), ("cps_0", False)):
        cases.append(Case(f"{fn}:fresh", fn, "echo", salt, 0, cexpr("MinimalProxy", R, "CS", OKA), post=("create2", "proxy", salt)))
        cases.append(Case(f"{fn}:collision", fn, "echo", salt, 0, cexpr("MinimalProxy", R, "CS", "(CreateFail [])"), prep=("call", "cps_1", salt)))
    for fn, R in (("cc_1", True), ("cc_0", False)):
        cases.append(Case(f"{fn}:echo", fn, "echo", b"", 0, cexpr("CopyOf", R, "CS", OKA), post=("code", "copy")))
        cases.append(Case(f"{fn}:nocode", fn, "nocode", b"", 0, cexpr("CopyOf", R, "CS", OKA)))
    cases.append(Case("ccs_1:fresh", "ccs_1", "echo", salt, 0, cexpr("CopyOf", True, "CS", OKA), post=("create2", "copy", salt)))
    cases.append(Case("ccs_1:collision", "ccs_1", "echo", salt, 0, cexpr("CopyOf", True, "CS", "(CreateFail [])"), prep=("call", "ccs_1", salt)))
    for fn, R in (("cb_1", True), ("cb_0", False)):
        for x, cres in ((7, OKA), (1, f"(CreateFail {zb(bytes.fromhex('deadbeef'))})"), (2, "(CreateFail [])")):
            cases.append(Case(f"{fn}:bp:{x}", fn, "bp", w(x), 0, cexpr("(FromBlueprint 3)", R, "CS", cres),
                              post=("code", "word", x) if x == 7 else None))
        cases.append(Case(f"{fn}:nocode", fn, "nocode", w(7), 0, cexpr("(FromBlueprint 3)", R, "CS", OKA)))
        cases.append(Case(f"{fn}:tiny", fn, "accept", w(7), 0, cexpr("(FromBlueprint 3)", R, "CS", OKA),
                          note="target code shorter than code_offset"))
    for fn, R in (("cbo_1", True), ("cbo_0", False)):
        cases.append(Case(f"{fn}:bp0", fn, "bp0", w(7), 0, cexpr("(FromBlueprint 0)", R, "CS", OKA), post=("code", "word", 7)))
        cases.append(Case(f"{fn}:bp_with_preamble", fn, "bp", w(7), 0, cexpr("(FromBlueprint 0)", R, "CS", "(CreateFail [])"),
                          note="initcode starting with the 0xFE preamble byte is INVALID"))
    cases.append(Case("cbbig_1:bp", "cbbig_1", "bp", w(7), 0, cexpr("(FromBlueprint 1000)", True, "CS", OKA)))
    cases.append(Case("cbs_1:bp", "cbs_1", "bp", w(7) + salt, 0, cexpr("(FromBlueprint 3)", True, "CS", OKA),
                      post=("create2", "bp", salt, 7)))
    cases.append(Case("cbv_1:bp", "cbv_1", "bp", w(7), 9, cexpr("(FromBlueprint 3)", True, "CS", OKA), post=("created_balance", 9)))
    cases.append(Case("cp_1:value_ignored", "cp_1", "echo", b"", 0, cexpr("MinimalProxy", True, "CS", OKA), post=("created_balance", 0)))
    return cases


def run_config(cfg, bd, cases, rnd):
    """-> (n_eval, reports[(kind, name, detail)], deferred model exprs with observed pieces)"""
    ch = Chain(cfg.evm)
    RT = {"accept": B.ACCEPT, "reject": B.REJECT, "echo": B.echo_runtime(), "callee0": L.callee_runtime(),
          "callee1": L.callee_runtime(), "bp": B.ERC5202 + B.blueprint_initcode(), "bp0": B.blueprint_initcode()}
    T = {"nocode": L.NO_CODE}
    for k, rt in RT.items():
        T[k] = ch.set_code(None, rt)
    L.install(ch, T["callee0"], 0, b"")
    L.install(ch, T["callee1"], 1, b"abcd")
    caller = ch.deploy(bytes.fromhex(bd["bytecode"][2:]))
    ch.evm.set_balance(caller, 10**18)
    mi = {k.split("(")[0]: int(v, 16).to_bytes(4, "big") for k, v in bd["mi"].items()}
    codes = dict(RT, nocode=b"")   # (pyrevm pads get_code() output with zeros: compare modulo trailing zeros)
    results = []
    for c in cases:
        sid = ch.snapshot()
        try:
            tgt = T[c.target]
            assert ch.call(caller, mi["set_t"] + bytes(12) + bytes.fromhex(tgt[2:])).ok
            extra = []
            if c.prep:
                p = ch.call(caller, mi[c.prep[1]] + c.prep[2])
                if not p.ok:
                    extra.append(f"the first {c.prep[1]} with a fresh salt reverted (data {p.out.hex()})")
            bal0 = ch.evm.get_balance(tgt)
            r = ch.call(caller, mi[c.fn] + c.args, value=c.value)
            obs = {"ok": r.ok, "out": r.out}
            addr = None
            if r.ok and c.fn[0] == "c" and len(r.out) == 32:
                addr = "0x" + r.out[12:].hex()
            if c.post and r.ok:
                kind = c.post[0]
                if kind == "balance_delta":
                    d = ch.evm.get_balance(tgt) - bal0
                    if d != c.post[1]:
                        extra.append(f"target balance changed by {d}, expected {c.post[1]}")
                elif kind == "code" and addr and int(addr, 16) != 0:
                    want = {"proxy": lambda: B.eip1167_runtime(tgt), "copy": lambda: codes[c.target],
                            "word": lambda: c.post[2].to_bytes(32, "big")}[c.post[1]]()
                    got = ch.code(addr)
                    if got.rstrip(b"\0") != want.rstrip(b"\0") or len(got) < len(want):
                        extra.append(f"deployed code {got.hex()[:200]} != expected {want.hex()[:200]}")
                elif kind == "create2" and addr:
                    init = {"proxy": lambda: B.eip1167_initcode(tgt), "copy": lambda: B.copyof_initcode(codes[c.target]),
                            "bp": lambda: B.blueprint_initcode() + c.post[3].to_bytes(32, "big") if len(c.post) > 3 else b""}[c.post[1]]()
                    want = B.create2_address(caller, c.post[2], init)
                    if addr != want:
                        extra.append(f"CREATE2 address {addr} != keccak(0xff, sender, salt, keccak(initcode)) = {want}")
                elif kind == "created_balance" and addr:
                    b = ch.evm.get_balance(addr)
                    if b != c.post[1]:
                        extra.append(f"created contract balance {b}, expected {c.post[1]}")
            results.append((c, obs, addr, len(codes[c.target]), extra, tgt))
        finally:
            ch.revert(sid)
    return results, caller


def model_exprs(results):
    out = []
    for c, obs, addr, cs, extra, tgt in results:
        a = int(addr, 16) if addr else 1
        out.append(c.expr.replace("ADDR", str(a)).replace("CS", str(cs)))
    return out


def observed_list(c, obs):
    """shape the caller's ABI output like res_to_list"""
    if not obs["ok"]:
        return [0] + list(obs["out"])
    out = obs["out"]
    if c.post and c.post[0] == "raw":
        M, R = c.post[1]
        if M == 0 and R:
            return None
        if M == 0:
            return [1, int.from_bytes(out[:32], "big"), 0]
        if R:
            ln = int.from_bytes(out[32:64], "big")
            return [1, 1, ln] + list(out[64:64 + ln])
        ln = int.from_bytes(out[64:96], "big")
        return [1, int.from_bytes(out[:32], "big"), ln] + list(out[96:96 + ln])
    if c.fn[0] == "c":
        return [1, int.from_bytes(out, "big")]
    return [1]


def compare(c, obs, pred):
    real = observed_list(c, obs)
    if real is None:                      # no return value: only the status is observable
        return pred[0] == 1
    if c.post and c.post[0] == "raw" and c.post[1][0] == 0 and real[0] == 1:
        return pred[:2] == real[:2]      # bool only
    return real == pred


def eval_models(exprs, name):
    return coqrun.eval_zlists(IMPORTS, exprs, name, shard=80)
