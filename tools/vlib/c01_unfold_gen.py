"""Regenerate coq/C01/VyUnfold.v (one-step unfolding equations) from the function bodies in coq/C01/VyCore.v.
Each generated lemma is proved by `reflexivity`, so a copy error cannot pass.  Run: python3 tools/vlib/c01_unfold_gen.py"""
import re
from pathlib import Path

COQ = Path(__file__).resolve().parents[2] / "coq"


def generate():
    src = (COQ / "C01" / "VyCore.v").read_text()
    start = src.index("Fixpoint eval (fuel : nat)")
    end_ = src.index("End Interp.")
    parts = re.split(r"\n(?=with )", src[start:end_])
    names, lemmas = [], []
    for p in parts:
        m = re.match(r"(?:Fixpoint|with) (\w+) \(fuel : nat\) (.*?) \{struct fuel\} : (.*?) :=\s*"
                     r"match fuel with O => Fail OutOfFuel \| S f =>\n(.*)\n\s*end end", p.strip(), re.S)
        assert m, p[:80]
        name, args, _rty, body = m.groups()
        argnames = re.findall(r"\((\w+) :", args)
        names.append(name)
        lemmas.append(f"Lemma {name}_S f {' '.join(argnames)} :\n  {name} (S f) {' '.join(argnames)} =\n{body}\n  end.\n"
                      f"Proof. reflexivity. Qed.\n")
    out = ("(* Unfolding equations of the VyCore interpreter (one step of fuel).  GENERATED from VyCore.v by\n"
           "   tools/vlib/c01_unfold_gen.py (copies the function bodies); each is proved by reflexivity, so a copy error\n"
           "   cannot go unnoticed. *)\n"
           "From Coq Require Import ZArith List Bool.\nFrom Verif Require Import C01.VyCore.\nImport ListNotations.\n"
           "Open Scope Z_scope.\n\nSection Unfold.\nVariable P : prog.    (*section*)\nVariable ce : cenv.   (*section*)\n")
    for n in names:
        out += f"Let {n} := VyCore.{n} P ce.\n"
    out += "\n" + "\n".join(lemmas) + "\nEnd Unfold.\n"
    return out


if __name__ == "__main__":
    (COQ / "C01" / "VyUnfold.v").write_text(generate())
    print("written")
