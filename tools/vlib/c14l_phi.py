"""C14L: PhiEliminationPass -- certificate generation for the verified validator coq/C14L/PhiElim.v.

`snapshot` turns a function into a plain structure (same numbering as c14_fix.Export); `copy_classes` computes, by a
forward must-dataflow to a fixpoint, the copy-equivalence classes at the start of every block body (parallel phi semantics on
the edges); `certificate` = those classes (even class ids) + the replaced phis read off the function after the pass.
Nothing here is trusted: `phi_check` re-verifies the classes and `func_eqb (phi_apply f Rs) f'` compares the result."""
from . import coqrun


def snapshot(fn, ex):
    from vyper.venom.basicblock import IRLabel, IRLiteral, IRVariable
    blocks = []
    for bb in ex.blocks:
        insts = []
        for i in bb.instructions:
            args = []
            for o in i.operands:
                if isinstance(o, IRLiteral):
                    args.append(("l", o.value))
                elif isinstance(o, IRVariable):
                    args.append(("v", ex.v(o)))
                elif isinstance(o, IRLabel):
                    if o.value in ex.lab:
                        args.append(("b", ex.lab[o.value]))
                    else:
                        if o.value not in ex.foreign:
                            ex.foreign[o.value] = 1_000_000 + len(ex.foreign)
                        args.append(("b", ex.foreign[o.value]))
                else:
                    raise ValueError(repr(o))
            insts.append((i.opcode, args, [ex.v(o) for o in i.get_outputs()]))
        blocks.append(insts)
    return blocks


def coq_func(blocks):
    def opnd(a):
        return f"OLit {coqrun.hexlit(a[1])}" if a[0] == "l" else (f"OVar {a[1]}%N" if a[0] == "v" else f"OLab {a[1]}%N")
    bl = []
    for insts in blocks:
        bl.append("[" + ";\n    ".join(f'mkI "{op}" [{"; ".join(opnd(a) for a in args)}] [{"; ".join(f"{o}%N" for o in outs)}]'
                                      for op, args, outs in insts) + "]")
    return "[" + ";\n  ".join(bl) + "]"


def _phis(insts):
    out = []
    for op, args, outs in insts:
        if op != "phi":
            break
        out.append((op, args, outs))
    return out


def _body(insts):
    k = 0
    while k < len(insts) and insts[k][0] == "phi":
        k += 1
    return insts[k:]


def _pairs(args):
    out = []
    k = 0
    while k + 1 < len(args) and args[k][0] == "b" and args[k + 1][0] == "v":
        out.append((args[k][1], args[k + 1][1]))
        k += 2
    return out


def _succs(insts):
    if not insts:
        return []
    op, args, _ = insts[-1]
    if op in ("jmp", "jnz", "djmp"):
        return [a[1] for a in args if a[0] == "b"]
    return []


TOP = None


def copy_classes(blocks):
    """IN[b]: dict var -> class token at the start of the body of b (after the phis); None = not yet reached (top)"""
    n = len(blocks)
    allvars = set()
    for insts in blocks:
        for op, args, outs in insts:
            allvars.update(outs)
            allvars.update(a[1] for a in args if a[0] == "v")
    IN = [TOP] * n
    IN[0] = {}

    def cls(st, x):
        return st.get(x, ("own", x))

    def run_body(st, b):
        st = dict(st)
        for k, (op, args, outs) in enumerate(_body(blocks[b])):
            if op == "assign" and len(args) == 1 and args[0][0] == "v" and len(outs) == 1 and outs[0] != args[0][1]:
                st[outs[0]] = cls(st, args[0][1])
            else:
                for j, o in enumerate(outs):
                    st[o] = ("def", b, k, j)
        return st

    def edge(st, p, b):
        new = {}
        srcs = {}
        for op, args, outs in _phis(blocks[b]):
            if len(outs) == 1:
                pr = dict(_pairs(args))
                srcs[outs[0]] = pr.get(p)
        for x in allvars:
            if x in srcs:
                new[x] = cls(st, srcs[x]) if srcs[x] is not None else ("undef", b, x)
            else:
                new[x] = cls(st, x)
        return new

    def meet(a, b_):
        if a is TOP:
            return b_
        if b_ is TOP:
            return a
        return {x: (cls(a, x), cls(b_, x)) if cls(a, x) != cls(b_, x) else cls(a, x) for x in allvars}

    def canon(st):
        """partition as a frozenset of frozensets (classes with >= 2 members)"""
        groups = {}
        for x in allvars:
            groups.setdefault(cls(st, x), []).append(x)
        return frozenset(frozenset(g) for g in groups.values() if len(g) > 1)

    def normalise(st, b):
        idx = {}
        out = {}
        for x in sorted(allvars):
            t = cls(st, x)
            if t not in idx:
                idx[t] = len(idx)
            out[x] = ("c", b, idx[t])
        return out

    def fix(IN):
        for _ in range(200):
            changed = False
            newin = [TOP] * n
            newin[0] = {}
            for p in range(n):
                if IN[p] is TOP:
                    continue
                out = run_body(IN[p], p)
                for b in _succs(blocks[p]):
                    if 0 < b < n:
                        newin[b] = meet(newin[b], edge(out, p, b))
            for b in range(1, n):
                if newin[b] is not TOP:
                    newin[b] = normalise(newin[b], b)
                a = canon(newin[b]) if newin[b] is not TOP else None
                c = canon(IN[b]) if IN[b] is not TOP else None
                if a != c:
                    changed = True
            IN = newin
            if not changed:
                break
        return IN

    IN = fix(IN)
    if any(st is TOP for st in IN):
        # unreachable blocks claim nothing; their edges weaken what the successors may claim
        IN = fix([({} if st is TOP else st) for st in IN])
        IN = [({} if st is TOP else st) for st in IN]
    return IN, allvars


def certificate(before, after):
    """(As terms, Rs terms, stats) as Coq text"""
    IN, allvars = copy_classes(before)
    As = []
    for b, st in enumerate(IN):
        if st is TOP or b == 0:
            As.append("mkA [] 0")
            continue
        groups = {}
        for x in sorted(allvars):
            groups.setdefault(st.get(x, ("own", x)), []).append(x)
        ents = []
        k = 0
        for g in groups.values():
            if len(g) > 1:
                for x in g:
                    ents.append(f"({x}%N, {2 * k}%N)")
                k += 1
        As.append(f"mkA [{'; '.join(ents)}] {k}%N")
    Rs = []
    nrep = 0
    for bb, ba in zip(before, after):
        pouts = [outs[0] for op, args, outs in _phis(bb) if len(outs) == 1]
        kept = {outs[0] for op, args, outs in _phis(ba) if len(outs) == 1}
        R = []
        for op, args, outs in _body(ba):
            if op == "assign" and len(outs) == 1 and outs[0] in pouts and outs[0] not in kept and len(args) == 1 and args[0][0] == "v":
                R.append((outs[0], args[0][1]))
            else:
                break
        nrep += len(R)
        Rs.append("[" + "; ".join(f"({x}%N, {v}%N)" for x, v in R) + "]")
    return "[" + ";\n ".join(As) + "]", "[" + "; ".join(Rs) + "]", nrep
