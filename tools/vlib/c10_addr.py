"""C10 (f): O-tie for element addressing.  Build the address IR with the REAL vyper.codegen.core.get_element_ptr for
generated (type tree, access path, index types, location) cases, export it as C03/LIR terms and compare it
syntactically (vm_compute, lir_eqb) with the Coq generator C10/AddrTemplates.v `addr_path`, whose result is proved
(addr_path_correct) to evaluate to base + ws * Layout.resolve offset.  HashMap steps are checked to be exactly
`(sha3_64 <parent> <key>)` and start a new static segment."""
import warnings

from . import coqrun
from .c03_export import ExportError, lir_term, settings_ctx
from .c10_decls import Names, gen_type


def vy_type(t):
    from vyper.semantics.types import AddressT, BoolT, BytesM_T, BytesT, DArrayT, HashMapT, IntegerT, SArrayT, StringT, StructT
    k = t.kind
    if k == "word":
        n = t.name
        if n.startswith("uint"):
            return IntegerT(False, int(n[4:]))
        if n.startswith("int"):
            return IntegerT(True, int(n[3:]))
        if n == "address":
            return AddressT()
        if n == "bool":
            return BoolT()
        if n.startswith("bytes"):
            return BytesM_T(int(n[5:]))
        raise ExportError(n)
    if k == "flag":
        return IntegerT(False, 256)
    if k == "bytes":
        return BytesT(t.n) if t.bs == "Bytes" else StringT(t.n)
    if k == "sarr":
        return SArrayT(vy_type(t.t), t.n)
    if k == "darr":
        return DArrayT(vy_type(t.t), t.n)
    if k == "struct":
        return StructT(t.name, {f: vy_type(m) for f, m in t.members})
    if k == "map":
        return HashMapT({"uint256": IntegerT(False, 256), "address": AddressT(), "int128": IntegerT(True, 128),
                         "bytes32": BytesM_T(32)}[t.ksrc], vy_type(t.v))
    raise ExportError(k)


def replace_len_loads(node, load_op, counter):
    """`(ge ixK (<load> X))` -> `(ge ixK lenK)`; any other load is left (and rejected later by lir_term)"""
    from vyper.codegen.ir_node import IRnode
    if node.value == "ge" and len(node.args) == 2 and node.args[1].value == load_op and isinstance(node.args[0].value, str) \
            and node.args[0].value.startswith("ix"):
        k = node.args[0].value[2:]
        counter.append(k)
        return IRnode.from_list(["ge", node.args[0], "len" + k])
    if not node.args:
        return node
    return IRnode.from_list([node.value] + [replace_len_loads(a, load_op, counter) for a in node.args])


def gen_case(rnd, idx):
    """random non-map type + path of index / member steps"""
    names = Names(f"_a{idx}_")
    for _ in range(50):
        t = gen_type(rnd, names, 3, allow_map=False, big=rnd.random() < 0.3, small=rnd.random() < 0.5)
        if t.kind in ("sarr", "darr", "struct"):
            break
    path, signs, cur = [], [], t
    while cur.kind in ("sarr", "darr", "struct") and len(path) < 9:
        if cur.kind == "struct":
            j = rnd.randrange(len(cur.members))
            path.append(("field", j, cur.members[j][0]))
            signs.append(False)
            cur = cur.members[j][1]
        else:
            signed = rnd.random() < 0.5
            bits = rnd.choice([8, 64, 128, 256])
            path.append(("idx", signed, bits))
            signs.append(signed)
            cur = cur.t
        if rnd.random() < 0.15:
            break
    return t, path, signs


def venom_cases(rnd, n):
    import types
    from unittest import mock
    import vyper.codegen_venom.expr as VE
    from vyper import ast as vy_ast
    from vyper.semantics.data_locations import DataLocation as DL
    from vyper.semantics.types import IntegerT
    from .c04_export import venom_observe
    from .c10_decls import T
    ns = types.SimpleNamespace
    real_sub = VE.Expr._lower_array_subscript
    real_fld = VE.Expr._lower_struct_field
    locs = [(DL.MEMORY, 32), (DL.STORAGE, 1), (DL.TRANSIENT, 1), (DL.CALLDATA, 32), (DL.CODE, 32)]
    exprs, meta = [], []

    def fake_expr(base_vv, index):
        class FakeExpr:
            def __init__(s, nd, ctx):
                s.nd = nd

            def lower(s):
                return base_vv

            def lower_value(s):
                return index
        return FakeExpr
    with warnings.catch_warnings():
        warnings.simplefilter("ignore")
        with settings_ctx():
            for idx in range(n):
                names = Names(f"_v{idx}_")
                loc, ws = locs[idx % len(locs)]
                inner = gen_type(rnd, names, 2, allow_map=False, big=rnd.random() < 0.2, small=rnd.random() < 0.5)
                kind = rnd.choice(["sarr", "darr", "struct"])
                if kind == "struct":
                    nm = rnd.randint(1, 4)
                    t = T("struct", name=names.fresh("S"), members=[(f"f{i}", gen_type(rnd, names, 1, False, False, True)) for i in range(nm)])
                    j = rnd.randrange(nm)

                    def runf(b, ps, t=t, j=j, loc=loc):
                        node = vy_ast.Attribute.__new__(vy_ast.Attribute)
                        object.__setattr__(node, "value", ns(_metadata={"type": vy_type(t)}))
                        object.__setattr__(node, "attr", t.members[j][0])
                        fself = ns(node=node, ctx=ns(builder=b), builder=b, _make_ptr_value=lambda p, l, ty: p)
                        with mock.patch.object(VE, "Expr", fake_expr(ns(operand=ps[0], location=loc), None)):
                            return real_fld(fself)
                    terms, res = venom_observe(runf, 1, full=True)
                    step, signed = f"SField {j}%nat", False
                else:
                    if kind == "sarr" and inner.kind in ("bytes", "flag"):
                        inner = T("word", name="uint256")
                    count = rnd.choice([1, 2, 5, 2**64])
                    t = T(kind, t=inner, n=count)
                    signed = rnd.random() < 0.5
                    it = IntegerT(signed, rnd.choice([8, 64, 128, 256]))

                    def runs(b, ps, t=t, it=it, loc=loc):
                        node = vy_ast.Subscript.__new__(vy_ast.Subscript)
                        object.__setattr__(node, "value", ns(_metadata={"type": vy_type(t)}))
                        object.__setattr__(node, "slice", ns(_metadata={"type": it}))
                        fctx = ns(builder=b, load_word=lambda addr, l: b.load(addr, l))
                        fself = ns(node=node, ctx=fctx, builder=b, _make_ptr_value=lambda p, l, ty: p)
                        with mock.patch.object(VE, "Expr", fake_expr(ns(operand=ps[0], location=loc), ps[1])):
                            return real_sub(fself, True)
                    terms, res = venom_observe(runs, 2, full=True)
                    step = "SIdx 0"
                exprs.append(f"[if match vaddr_step {ws} {'true' if signed else 'false'} {t.coq()} ({step}) with "
                             f"Some (tpl, _) => vtemplate_eqb ({terms}, {res}) tpl | None => false end then 1 else 0]")
                meta.append({"type": t.src(), "location": loc.name, "step": step, "signed": signed, "observed": terms[:800]})
    return exprs, meta


def venom_path_cases(rnd, n):
    """whole access paths through the REAL venom lowering (recursive Expr.lower with the real _lower_array_subscript /
    _lower_struct_field at every level); SSA names canonicalised per level k: base, <k>p1 (index), <k>ld0 (length), <k>t<i>"""
    import types
    from unittest import mock
    import vyper.codegen_venom.expr as VE
    from vyper import ast as vy_ast
    from vyper.semantics.data_locations import DataLocation as DL
    from vyper.semantics.types import IntegerT
    from vyper.venom.basicblock import IRLiteral, IRVariable
    from vyper.venom.builder import VenomBuilder
    from vyper.venom.context import IRContext
    from .c03_export import OP1, V_OP2, V_OP3
    from .c04_export import PURE_DROP, zl_
    ns = types.SimpleNamespace
    real_sub = VE.Expr._lower_array_subscript
    real_fld = VE.Expr._lower_struct_field
    locs = [(DL.MEMORY, 32), (DL.STORAGE, 1), (DL.TRANSIENT, 1), (DL.CALLDATA, 32), (DL.CODE, 32)]
    exprs, meta = [], []
    with warnings.catch_warnings():
        warnings.simplefilter("ignore")
        with settings_ctx():
            for idx in range(n):
                t, path, signs = gen_case(rnd, 10000 + idx)
                if not path:
                    continue
                loc, ws = locs[idx % len(locs)]
                ictx = IRContext()
                fn = ictx.create_function("probe")
                b = VenomBuilder(ictx, fn)
                base = b.param()
                idxp = {k: b.param() for k, st in enumerate(path) if st[0] == "idx"}
                bb = b.current_block
                n0 = len(bb.instructions)
                info, ends = {}, {}
                # AST chain: level k node wraps level k-1 node
                cur_t, inner = t, ns(_metadata={"type": vy_type(t)})
                info[id(inner)] = ("base", -1)
                nodes = []
                for k, st in enumerate(path):
                    if st[0] == "field":
                        node = vy_ast.Attribute.__new__(vy_ast.Attribute)
                        object.__setattr__(node, "value", inner)
                        object.__setattr__(node, "attr", st[2])
                        cur_t = cur_t.members[st[1]][1]
                    else:
                        node = vy_ast.Subscript.__new__(vy_ast.Subscript)
                        object.__setattr__(node, "value", inner)
                        sl = ns(_metadata={"type": IntegerT(st[1], st[2])})
                        info[id(sl)] = ("index", k)
                        object.__setattr__(node, "slice", sl)
                        cur_t = cur_t.t
                    object.__setattr__(node, "_metadata", {"type": vy_type(cur_t)})
                    info[id(node)] = (st[0], k)
                    nodes.append(node)
                    inner = node
                fctx = ns(builder=b, load_word=lambda addr, l: b.load(addr, l))

                class FakeExpr:
                    def __init__(s_, nd, c_):
                        s_.node, s_.ctx, s_.builder = nd, fctx, b

                    def _make_ptr_value(s_, p_, l_, ty_):
                        return ns(operand=p_, location=l_)

                    def lower(s_):
                        kind, k = info[id(s_.node)]
                        if kind == "base":
                            return ns(operand=base, location=loc)
                        r = real_sub(s_, True) if kind == "idx" else real_fld(s_)
                        ends[k] = len(bb.instructions)
                        return r

                    def lower_value(s_):
                        kind, k = info[id(s_.node)]
                        assert kind == "index"
                        return idxp[k]
                with mock.patch.object(VE, "Expr", FakeExpr):
                    res = FakeExpr(nodes[-1], None).lower().operand
                if b.current_block is not bb:
                    raise ExportError("venom path lowering is not straight-line")
                names = {base.name: "base"}
                for k, p_ in idxp.items():
                    names[p_.name] = f"{k}p1"

                def op(o):
                    if isinstance(o, IRLiteral):
                        return f"(VLit {zl_(o.value)})"
                    if isinstance(o, IRVariable) and o.name in names:
                        return f'(VVar "{names[o.name]}")'
                    raise ExportError(f"unsupported / unbound venom operand {o!r}")
                terms = []
                start = n0
                for k in range(len(path)):
                    nt = 0
                    for ins in bb.instructions[start:ends[k]]:
                        outs_ = ins.get_outputs()
                        opc = ins.opcode
                        if opc in PURE_DROP:
                            names[outs_[0].name] = f"{k}ld0"
                            continue
                        ops = [op(o) for o in ins.operands]
                        if opc == "assert" and len(ops) == 1:
                            terms.append(f"(VAssert {ops[0]})")
                            continue
                        if len(outs_) != 1:
                            raise ExportError(f"venom instruction outside the straight-line subset: {ins}")
                        names[outs_[0].name] = f"{k}t{nt}"
                        out = f'"{k}t{nt}"'
                        nt += 1
                        if opc in OP1 and len(ops) == 1:
                            terms.append(f"(V1 {out} {OP1[opc]} {ops[0]})")
                        elif opc in V_OP2 and len(ops) == 2:
                            terms.append(f"(V2 {out} {V_OP2[opc]} {ops[0]} {ops[1]})")
                        elif opc in V_OP3 and len(ops) == 3:
                            terms.append(f"(V3 {out} {V_OP3[opc]} {ops[0]} {ops[1]} {ops[2]})")
                        elif opc == "assign" and len(ops) == 1:
                            terms.append(f"(VAssign {out} {ops[0]})")
                        else:
                            raise ExportError(f"venom instruction outside the straight-line subset: {ins}")
                    start = ends[k]
                fin = names[res.name]
                steps = "; ".join(f"SField {st[1]}%nat" if st[0] == "field" else "SIdx 0" for st in path)
                sg = "[" + "; ".join("true" if s_ else "false" for s_ in signs) + "]"
                exprs.append(f'[if match vaddr_path {ws} {sg} 0%nat {t.coq()} [{steps}] "base"%string with '
                             f'Some (q, fin) => vlist_eqb [{"; ".join(terms)}] q && String.eqb fin "{fin}"%string | None => false end then 1 else 0]')
                meta.append({"type": t.src(), "location": loc.name, "path": [list(map(str, s_)) for s_ in path], "observed": "; ".join(terms)[:1200]})
    return exprs, meta


def venom_map_cases():
    """REAL Expr._lower_mapping_subscript (+ _lower_keccak256_key) for word keys nested 1..3 deep and for Bytes / String
    keys, exported as C10/VMapTemplates.v hinstr terms (operands in EVM order; outputs numbered t0.. in order)"""
    import types
    from unittest import mock
    import vyper.codegen_venom.expr as VE
    from vyper import ast as vy_ast
    from vyper.codegen_venom.context import VenomCodegenContext as VCC
    from vyper.semantics.data_locations import DataLocation as DL
    from vyper.semantics.types import AddressT, BytesM_T, BytesT, HashMapT, IntegerT, StringT
    from vyper.venom.basicblock import IRLiteral, IRVariable
    from vyper.venom.builder import VenomBuilder
    from vyper.venom.context import IRContext
    ns = types.SimpleNamespace
    U = IntegerT(False, 256)
    real_map = VE.Expr._lower_mapping_subscript
    real_kk = VE.Expr._lower_keccak256_key
    exprs, meta = [], []
    word_keys = [U, IntegerT(True, 128), AddressT(), BytesM_T(32), BytesM_T(4), IntegerT(False, 8)]
    cases = []
    for loc in (DL.STORAGE, DL.TRANSIENT):
        for kt in word_keys:
            cases.append((loc, [kt]))
        cases.append((loc, [U, AddressT()]))
        cases.append((loc, [IntegerT(True, 128), BytesM_T(32), U]))
        for kt in (BytesT(10), StringT(7), BytesT(100)):
            cases.append((loc, [kt]))
    with warnings.catch_warnings():
        warnings.simplefilter("ignore")
        with settings_ctx():
            for loc, kts in cases:
                ictx = IRContext()
                fn = ictx.create_function("probe")
                b = VenomBuilder(ictx, fn)
                base = b.param()
                keys = [b.param() for _ in kts]
                bb = b.current_block
                n0 = len(bb.instructions)
                fctx = ns(builder=b, _ALLOCATION_LIMIT=VCC._ALLOCATION_LIMIT)
                for m_ in ("allocate_buffer", "ptr_store", "add_offset", "store_word", "ensure_bytestring_in_memory", "bytes_data_ptr",
                           "bytestring_length", "_with_byte_offset", "new_temporary_value", "load_word"):
                    setattr(fctx, m_, types.MethodType(getattr(VCC, m_), fctx))
                vt = U
                for kt in reversed(kts):
                    vt = HashMapT(kt, vt)
                info = {}
                inner = ns(_metadata={"type": vt})
                info[id(inner)] = ("base", -1)
                cur = vt
                for j, kt in enumerate(kts):
                    node = vy_ast.Subscript.__new__(vy_ast.Subscript)
                    object.__setattr__(node, "value", inner)
                    sl = ns(_metadata={"type": kt})
                    info[id(sl)] = ("key", j)
                    object.__setattr__(node, "slice", sl)
                    cur = cur.value_type
                    object.__setattr__(node, "_metadata", {"type": cur})
                    info[id(node)] = ("map", j)
                    inner = node

                class FakeExpr:
                    def __init__(s_, nd, c_):
                        s_.node, s_.ctx, s_.builder = nd, fctx, b

                    def lower(s_):
                        kind, j = info[id(s_.node)]
                        if kind == "base":
                            return ns(operand=base, location=loc)
                        if kind == "key":
                            return ns(operand=keys[j], location=DL.MEMORY)
                        return real_map(s_)

                    def lower_value(s_):
                        kind, j = info[id(s_.node)]
                        assert kind == "key"
                        return keys[j]
                    _lower_keccak256_key = real_kk
                with mock.patch.object(VE, "Expr", FakeExpr):
                    res = FakeExpr(inner, None).lower().operand
                names = {base.name: "p0"}
                for j, k_ in enumerate(keys):
                    names[k_.name] = f"k{j}"

                def op(o):
                    if isinstance(o, IRLiteral):
                        return f"(VLit {hex(o.value)})"
                    if isinstance(o, IRVariable) and o.name in names:
                        return f'(VVar "{names[o.name]}")'
                    raise ExportError(f"unsupported / unbound venom operand {o!r}")
                terms, nt = [], 0
                for ins in bb.instructions[n0:]:
                    ops = [op(o) for o in reversed(ins.operands)]      # EVM order
                    outs_ = ins.get_outputs()
                    o_ = None
                    if outs_:
                        names[outs_[0].name] = f"t{nt}"
                        o_ = f'"t{nt}"'
                        nt += 1
                    opc = ins.opcode
                    if opc == "alloca" and isinstance(ins.operands[0], IRLiteral):
                        terms.append(f"(HAlloca {o_} {ins.operands[0].value})")
                    elif opc == "mstore" and len(ops) == 2:
                        terms.append(f"(HMstore {ops[0]} {ops[1]})")
                    elif opc == "mload" and len(ops) == 1:
                        terms.append(f"(HMload {o_} {ops[0]})")
                    elif opc == "add" and len(ops) == 2:
                        terms.append(f"(HAdd {o_} {ops[0]} {ops[1]})")
                    elif opc == "sha3" and len(ops) == 2 and isinstance(ins.operands[0], IRLiteral) and ins.operands[0].value == 64:
                        terms.append(f"(HSha3_64 {o_} {ops[0]})")
                    elif opc == "sha3" and len(ops) == 2:
                        terms.append(f"(HSha3B {o_} {ops[0]} {ops[1]})")
                    else:
                        raise ExportError(f"venom instruction outside the mapping template language: {ins}")
                obs = "[" + "; ".join(terms) + "]"
                resn = names[res.name]
                if any(isinstance(kt, (BytesT, StringT)) for kt in kts):
                    tpl = "map_bytes_key"
                else:
                    tpl = f'(map_chain 0%nat (VVar "p0") {len(kts)}%nat)'
                exprs.append(f'[if hlist_eqb {obs} (fst {tpl}) && vop_eqb (VVar "{resn}") (snd {tpl}) then 1 else 0]')
                meta.append({"location": loc.name, "key_types": [str(k) for k in kts], "observed": obs[:1200]})
    return exprs, meta


def run(ctx, model_ok, n):
    from vyper.codegen.core import get_element_ptr
    from vyper.codegen.ir_node import IRnode
    from vyper.evm import address_space as A
    from vyper.semantics.types import IntegerT
    rnd = ctx.rng("addr")
    locs = [(A.STORAGE, 1), (A.TRANSIENT, 1), (A.MEMORY, 32), (A.CALLDATA, 32), (A.IMMUTABLES, 32), (A.DATA, 32)]
    exprs, meta = [], []
    n_maps = 0
    with warnings.catch_warnings():
        warnings.simplefilter("ignore")
        with settings_ctx():
            for idx in range(n):
                t, path, signs = gen_case(rnd, idx)
                loc, ws = locs[idx % len(locs)]
                node = IRnode.from_list("base", typ=vy_type(t), location=loc)
                steps = []
                for k, st in enumerate(path):
                    if st[0] == "field":
                        node = get_element_ptr(node, st[2])
                        steps.append(f"SField {st[1]}%nat")
                    else:
                        node = get_element_ptr(node, IRnode.from_list(f"ix{k}", typ=IntegerT(st[1], st[2])))
                        steps.append("SIdx 0")
                node = replace_len_loads(IRnode.from_list(node), loc.load_op, [])
                obs = lir_term(node)
                sg = "[" + "; ".join("true" if s else "false" for s in signs) + "]"
                exprs.append(f'[if match addr_path {ws} {sg} 0%nat {t.coq()} [{"; ".join(steps)}] (LVar "base"%string) with '
                             f"Some q => lir_eqb {obs} q | None => false end then 1 else 0]")
                meta.append({"type": t.src(), "location": loc.name, "path": [list(map(str, s)) for s in path], "observed": str(node)[:1500]})
            # HashMap steps: exactly (sha3_64 parent key), then a fresh static segment
            from .c10_decls import T
            for idx in range(max(4, n // 6)):
                depth = rnd.randint(1, 3)
                names = Names(f"_m{idx}_")
                v = gen_type(rnd, names, 2, allow_map=False, big=False, small=True)
                t = v
                for _ in range(depth):
                    t = T("map", ksrc=rnd.choice(["uint256", "address", "int128", "bytes32"]), v=t)
                loc = rnd.choice([A.STORAGE, A.TRANSIENT])
                node = IRnode.from_list("base", typ=vy_type(t), location=loc)
                cur = t
                for k in range(depth):
                    key = IRnode.from_list(f"k{k}", typ=vy_type(cur).key_type)
                    parent = node
                    node = IRnode.from_list(get_element_ptr(node, key))
                    inner = node
                    if inner.value == "with":     # cache_when_complex("val") of a complex parent
                        ok = inner.args[0].value == "val" and repr(inner.args[1]) == repr(parent)
                        inner = inner.args[2]
                        want_parent = "val"
                    else:
                        ok = True
                        want_parent = None
                    ok = ok and inner.value == "sha3_64" and len(inner.args) == 2 and inner.args[1].value == f"k{k}" and \
                        (inner.args[0].value == want_parent if want_parent else repr(inner.args[0]) == repr(parent))
                    n_maps += 1
                    if not ok:
                        ctx.violation("correspondence-broken", "HashMap subscript is not (sha3_64 <parent slot> <key>)",
                                      {"type": t.src(), "level": k, "observed": str(node)[:800]})
                        return len(exprs), True
                    cur = cur.v
    # ---- venom front end: one subscript / struct-member step (Expr._lower_array_subscript, _lower_struct_field)
    vexprs, vmeta = venom_cases(rnd, max(120, (3 * n) // 2))   # session 3: raised from n // 2 (0.6 s per 360 cases)
    found = False
    if model_ok and vexprs:
        outs = coqrun.eval_zlists("From Verif Require Import C03.LIR C03.VSL C10.Layout C10.VAddrTemplates.\n", vexprs, "c10vaddr",
                                  shard=max(8, len(vexprs) // 4 + 1))
        for m, o in zip(vmeta, outs):
            if o != [1]:
                ctx.violation("correspondence-broken", "venom address code differs from the template VAddrTemplates.vaddr_step", m)
                found = True
                break
    ctx.corr["venom_address_steps"] = len(vexprs)
    pexprs, pmeta = venom_path_cases(rnd, max(120, (3 * n) // 2))
    if model_ok and pexprs and not found:
        outs = coqrun.eval_zlists("From Verif Require Import C03.LIR C03.VSL C10.Layout C10.VAddrPath.\n", pexprs, "c10vpath",
                                  shard=max(8, len(pexprs) // 4 + 1))
        for m, o in zip(pmeta, outs):
            if o != [1]:
                ctx.violation("correspondence-broken", "venom multi-step address code differs from the composed template VAddrPath.vaddr_path", m)
                found = True
                break
    ctx.corr["venom_address_paths"] = len(pexprs)
    mexprs, mmeta = venom_map_cases()
    if model_ok and mexprs and not found:
        outs = coqrun.eval_zlists("From Verif Require Import C03.LIR C03.VSL C10.VMapTemplates.\nOpen Scope string_scope.\n", mexprs, "c10vmap", shard=16)
        for m, o in zip(mmeta, outs):
            if o != [1]:
                ctx.violation("correspondence-broken", "venom HashMap lowering differs from the template VMapTemplates (key buffer + sha3)", m)
                found = True
                break
    ctx.corr["venom_mapping_templates"] = len(mexprs)
    if model_ok and exprs and not found:
        outs = coqrun.eval_zlists("From Verif Require Import C03.LIR C10.Layout C10.AddrTemplates.\n", exprs, "c10addr",
                                  shard=max(8, len(exprs) // 4 + 1))
        for m, o in zip(meta, outs):
            if o != [1]:
                ctx.violation("correspondence-broken", "address code emitted by get_element_ptr differs from the template AddrTemplates.addr_path",
                              m)
                found = True
                break
    ctx.corr["address_templates"] = {"paths": len(exprs), "hashmap_levels": n_maps, "locations": [l.name for l, _ in locs]}
    ctx.extra["family_size"] = ctx.extra.get("family_size", 0) + len(exprs)
    ctx.extra["syntactic_matches"] = ctx.extra.get("syntactic_matches", 0) + (0 if found else len(exprs))
    return len(exprs), found
