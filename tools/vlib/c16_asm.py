"""C16 helpers: serialise vyper assembly to Coq terms (coq/C16/Asm.v `item`), regenerate the opcode
table, an independent Python byte scanner and the property oracle that runs on real output."""
import re
from pathlib import Path

EVM_NAMES = ["london", "paris", "shanghai", "cancun", "prague"]


def _imports():
    from vyper.evm.assembler import instructions as I
    return I


def coq_str(s):
    assert all(32 <= ord(c) < 127 for c in s), s
    return '"' + s.replace('"', '""') + '"'


def coq_bytes(b: bytes, chunk=1000, minrun=512):
    """Coq term of type `list Z` for a byte string: hex text in chunks (long literals overflow coqc's
    stack), long runs of one byte value as `repeat` (exact run-length encoding)."""
    parts = []
    i, n = 0, len(b)
    lit_start = 0

    def flush(lo, hi):
        h = b[lo:hi].hex()
        for j in range(0, len(h), chunk):
            parts.append(f'unhex "{h[j:j + chunk]}"')

    while i < n:
        j = i
        while j < n and b[j] == b[i]:
            j += 1
        if j - i >= minrun:
            flush(lit_start, i)
            parts.append(f"repeat {b[i]} (Z.to_nat {j - i})")
            lit_start = j
        i = j
    flush(lit_start, n)
    return "(" + " ++ ".join(parts or ["[]"]) + ")"


class Labels:
    """Injective numbering of label / constant names; 0 is reserved for the magic "code_end"."""

    def __init__(self):
        self.ids = {"code_end": 0}

    def __call__(self, name):
        if name not in self.ids:
            self.ids[name] = len(self.ids)
        return self.ids[name]


def zl(n):
    n = int(n)
    return f"({n})" if n < 0 else (hex(n) if n > 9 else str(n))


def serialise(asm, labels=None, consts=None):
    """-> (coq term of type `list item`, label ids, const ids).  Raises TypeError on an item kind
    the model does not know (fail closed)."""
    I = _imports()
    labels = labels or Labels()
    consts = consts or Labels()
    out = []
    for it in asm:
        if isinstance(it, str):  # includes TaggedInstruction
            out.append(f"IOp {coq_str(str(it))}")
        elif isinstance(it, bool):
            raise TypeError(f"bool item {it!r}")
        elif isinstance(it, int):
            out.append(f"IInt {zl(it)}")
        elif isinstance(it, I.PUSHLABEL):
            out.append(f"IPushLabel {labels(it.label.label)}")
        elif isinstance(it, I.Label):
            out.append(f"ILabel {labels(it.label)}")
        elif isinstance(it, I.PUSH_OFST):
            if isinstance(it.label, I.Label):
                out.append(f"IPushOfstL {labels(it.label.label)} {zl(it.ofst)}")
            elif isinstance(it.label, I.CONSTREF):
                out.append(f"IPushOfstC {consts(it.label.label)} {zl(it.ofst)}")
            else:
                raise TypeError(f"PUSH_OFST label {it.label!r}")
        elif isinstance(it, I.DATA_ITEM):
            if isinstance(it.data, bytes):
                out.append(f"IDataBytes {coq_bytes(it.data)}")
            elif isinstance(it.data, I.Label):
                out.append(f"IDataLabel {labels(it.data.label)}")
            else:
                raise TypeError(f"DATA_ITEM payload {it.data!r}")
        elif isinstance(it, I.DataHeader):
            out.append(f"IDataHeader {labels(it.label.label)}")
        elif isinstance(it, I.CONST):
            out.append(f"IConst {consts(it.name)} {zl(it.value)}")
        else:
            raise TypeError(f"unknown assembly item {type(it).__name__}: {it!r}")
    chunks = ["[" + "; ".join(out[i:i + 200]) + "]" for i in range(0, len(out), 200)] or ["[]"]
    return "(" + " ++ ".join(chunks) + ")", labels, consts


def gen_opcodes():
    """GenOpcodes.v: get_opcodes() of every EVM version + version_check(begin='shanghai')."""
    from vyper.compiler.settings import Settings, anchor_settings
    from vyper.evm import opcodes as O
    lines = ["(* GENERATED from vyper/evm/opcodes.py by tools/vlib/c16_asm.py -- do not edit *)",
             "From Coq Require Import ZArith List String Bool.", "Import ListNotations.",
             "Open Scope string_scope.", "Open Scope Z_scope.", ""]
    names = list(O.EVM_VERSIONS)
    problems = []
    for nm in names:
        with anchor_settings(Settings(evm_version=nm)):
            tbl = O.get_opcodes()
            p0 = O.version_check(begin="shanghai")
            ents = []
            for k, v in tbl.items():
                if not (isinstance(k, str) and k == k.upper()):
                    problems.append(f"non upper-case mnemonic {k!r}")
                if not (isinstance(v[0], int) and 0 <= v[0] < 256):
                    problems.append(f"opcode {k} has byte {v[0]!r}")
                    continue
                ents.append(f"({coq_str(k)}, {hex(v[0])})")
        lines.append(f"Definition opcodes_{nm} : list (string * Z) :=\n  [" + "; ".join(ents) + "].")
        lines.append(f"Definition push0_{nm} : bool := {'true' if p0 else 'false'}.")
        lines.append(f"Definition idx_{nm} : Z := {O.EVM_VERSIONS[nm]}.")
    arms = "".join(f"  if v =? idx_{nm} then opcodes_{nm} else\n" for nm in names)
    lines.append(f"Definition opcode_table (v : Z) : list (string * Z) :=\n{arms}  [].")
    arms = "".join(f"  if v =? idx_{nm} then push0_{nm} else\n" for nm in names)
    lines.append(f"Definition has_push0 (v : Z) : bool :=\n{arms}  false.")
    lines.append("Definition evm_versions : list Z := [" + "; ".join(f"idx_{nm}" for nm in names) + "].")
    return "\n".join(lines) + "\n", names, problems


# ---------------------------------------------------------------- independent python byte view

def py_scan(code: bytes):
    """instruction start offsets (EVM jumpdest analysis) -- written independently of vyper."""
    starts = []
    i = 0
    n = len(code)
    while i < n:
        starts.append(i)
        b = code[i]
        i += 1 + (b - 0x5F if 0x60 <= b <= 0x7F else 0)
    return starts


class _Problems(list):
    """list of messages; .items holds (item index | None, message)"""

    def __init__(self):
        super().__init__()
        self.items = []

    def append(self, msg):
        m = re.match(r"item (\d+):", msg)
        self.items.append((int(m.group(1)) if m else None, msg))
        super().append(msg)


def oracle(asm, code: bytes, symbol_map, const_map, push0: bool, opbyte, evm=None):
    """Property oracle on REAL output: walks the item list and the real bytes in lock step using
    only the resolved maps (no re-assembly).  Returns a list of problem strings (empty = holds).
    `opbyte(name)` is the Yellow-Paper byte of a mnemonic (independent table)."""
    I = _imports()
    probs = _Problems()
    starts = set(py_scan(code))
    sym = {k.label: v for k, v in symbol_map.items()}
    cst = {k.label: v for k, v in const_map.items()}
    pc = 0
    in_data = False
    pend = 0
    for idx, it in enumerate(asm):
        if isinstance(it, I.CONST) or it == "DEBUG":
            continue
        if isinstance(it, I.DataHeader):
            in_data = True
            if sym.get(it.label.label) != pc:
                probs.append(f"item {idx}: data header {it.label.label} resolves to "
                             f"{sym.get(it.label.label)} but its data starts at {pc}")
            continue
        if isinstance(it, I.DATA_ITEM):
            in_data = True
            if isinstance(it.data, bytes):
                if code[pc:pc + len(it.data)] != it.data:
                    probs.append(f"item {idx}: data bytes not verbatim at offset {pc}")
                pc += len(it.data)
            else:
                tgt = it.data.label
                is_code = any(isinstance(x, I.Label) and x.label == tgt for x in asm)
                is_head = any(isinstance(x, I.DataHeader) and x.label.label == tgt for x in asm)
                if not (is_code or is_head or tgt == "code_end"):
                    probs.append(f"item {idx}: data label {tgt} is neither a code label, a data section nor code_end")
                want = sym.get(it.data.label)
                got = int.from_bytes(code[pc:pc + 2], "big")
                if len(code) < pc + 2 or want != got:
                    probs.append(f"item {idx}: data label {it.data.label}={want} but bytes hold {got}")
                pc += 2
            continue
        if in_data:
            probs.append(f"item {idx}: code item {it!r} after data")
        if isinstance(it, int) and not isinstance(it, str):
            if pend == 0:
                probs.append(f"item {idx}: stray int {it}")
            else:
                pend -= 1
            if pc >= len(code) or code[pc] != it:
                probs.append(f"item {idx}: immediate byte {it} not at offset {pc}")
            pc += 1
            continue
        if pend:
            probs.append(f"item {idx}: push immediates cut short before {it!r}")
            pend = 0
        if pc not in starts:
            probs.append(f"item {idx}: {it!r} at offset {pc} is not an instruction boundary")
        if isinstance(it, I.Label):
            if sym.get(it.label) != pc:
                probs.append(f"item {idx}: label {it.label} resolves to {sym.get(it.label)}, is at {pc}")
            off = sym.get(it.label, -1)
            if not (0 <= off < len(code) and code[off] == 0x5B and off in starts):
                probs.append(f"label {it.label} -> {off} is not a JUMPDEST at an instruction boundary")
            pc += 1
        elif isinstance(it, (I.PUSHLABEL, I.PUSH_OFST)) and isinstance(it.label, I.Label):
            base = sym.get(it.label.label)
            want = None if base is None else base + (it.ofst if isinstance(it, I.PUSH_OFST) else 0)
            if code[pc:pc + 1] != b"\x61" or int.from_bytes(code[pc + 1:pc + 3], "big") != want or len(code) < pc + 3:
                probs.append(f"item {idx}: {it!r} at {pc}: bytes {code[pc:pc+3].hex()} do not push {want}")
            pc += 3
        elif isinstance(it, I.PUSH_OFST):
            want = cst.get(it.label.label, None)
            want = None if want is None else want + it.ofst
            op = code[pc] if pc < len(code) else -1
            if op == 0x5F:
                n, ok0 = 0, push0
            else:
                n, ok0 = op - 0x5F, True
            val = int.from_bytes(code[pc + 1:pc + 1 + n], "big")
            if not (0x5F <= op <= 0x7F) or not ok0 or val != want or len(code) < pc + 1 + n:
                probs.append(f"item {idx}: {it!r} at {pc}: bytes {code[pc:pc+1+max(n,0)].hex()} do not push {want}")
            elif n > 1 and code[pc + 1] == 0 or (n == 1 and val == 0 and push0):
                probs.append(f"item {idx}: {it!r} at {pc}: push wider than needed")
            pc += 1 + max(n, 0)
        else:
            name = str(it)
            b = opbyte(name)
            if b is None or pc >= len(code) or code[pc] != b:
                probs.append(f"item {idx}: mnemonic {name} at {pc}: byte "
                             f"{code[pc] if pc < len(code) else None} != {b}")
            elif name == "PUSH0" and not push0:
                probs.append(f"item {idx}: PUSH0 emitted for a target without PUSH0")
            elif evm is not None and not opcode_defined(b, evm):
                probs.append(f"item {idx}: {name} ({b:#04x}) is not an instruction on target {evm}")
            if b is not None and 0x60 <= b <= 0x7F:
                pend = b - 0x5F
            pc += 1
    if pend:
        probs.append("push immediates cut short at end")
    if pc != len(code):
        probs.append(f"bytes length {len(code)} != walked length {pc}")
    if sym.get("code_end") != len(code):
        probs.append(f"code_end={sym.get('code_end')} but bytecode has {len(code)} bytes")
    return probs


# independent mnemonic table (Yellow Paper + EIPs 145, 1014, 1052, 1344, 1884, 3198, 3855, 4399, 1153, 5656,
# 4844, 7516); DEBUG/BREAKPOINT are vyper-internal pseudo bytes and deliberately absent.
def yp_table():
    t = {}
    for i, n in enumerate("STOP ADD MUL SUB DIV SDIV MOD SMOD ADDMOD MULMOD EXP SIGNEXTEND".split()):
        t[n] = i
    for i, n in enumerate("LT GT SLT SGT EQ ISZERO AND OR XOR NOT BYTE SHL SHR SAR".split()):
        t[n] = 0x10 + i
    t["SHA3"] = t["KECCAK256"] = 0x20
    for i, n in enumerate("ADDRESS BALANCE ORIGIN CALLER CALLVALUE CALLDATALOAD CALLDATASIZE CALLDATACOPY CODESIZE "
                          "CODECOPY GASPRICE EXTCODESIZE EXTCODECOPY RETURNDATASIZE RETURNDATACOPY EXTCODEHASH "
                          "BLOCKHASH COINBASE TIMESTAMP NUMBER PREVRANDAO GASLIMIT CHAINID SELFBALANCE BASEFEE "
                          "BLOBHASH BLOBBASEFEE".split()):
        t[n] = 0x30 + i
    t["DIFFICULTY"] = 0x44
    for i, n in enumerate("POP MLOAD MSTORE MSTORE8 SLOAD SSTORE JUMP JUMPI PC MSIZE GAS JUMPDEST TLOAD TSTORE "
                          "MCOPY PUSH0".split()):
        t[n] = 0x50 + i
    for i in range(1, 33):
        t[f"PUSH{i}"] = 0x5F + i
    for i in range(1, 17):
        t[f"DUP{i}"] = 0x7F + i
        t[f"SWAP{i}"] = 0x8F + i
    for i in range(5):
        t[f"LOG{i}"] = 0xA0 + i
    t.update(CREATE=0xF0, CALL=0xF1, CALLCODE=0xF2, RETURN=0xF3, DELEGATECALL=0xF4, CREATE2=0xF5,
             STATICCALL=0xFA, REVERT=0xFD, INVALID=0xFE, SELFDESTRUCT=0xFF)
    return t


# first fork (index into EVM_NAMES) on which an opcode byte exists; bytes absent from yp_table() are
# undefined on every fork.  (EIP-3855 PUSH0: shanghai; EIP-1153 TLOAD/TSTORE, EIP-5656 MCOPY,
# EIP-4844 BLOBHASH, EIP-7516 BLOBBASEFEE: cancun.  Everything else predates london.)
INTRODUCED = {0x5F: "shanghai", 0x5C: "cancun", 0x5D: "cancun", 0x5E: "cancun", 0x49: "cancun", 0x4A: "cancun"}


def opcode_defined(byte, evm):
    if byte not in set(yp_table().values()):
        return False
    return EVM_NAMES.index(evm) >= EVM_NAMES.index(INTRODUCED.get(byte, "london"))


def target_validity(code: bytes, code_len: int, evm):
    """Decode the code part [0, code_len) of real bytecode independently and require every opcode byte to
    be defined on the target fork.  Returns problem strings."""
    defined = {b for b in set(yp_table().values()) if EVM_NAMES.index(evm) >= EVM_NAMES.index(INTRODUCED.get(b, "london"))}
    names = {}
    for k, v in yp_table().items():
        names.setdefault(v, k)
    probs = []
    i = 0
    while i < code_len:
        b = code[i]
        if b not in defined:
            intro = INTRODUCED.get(b)
            probs.append(f"offset {i}: opcode byte {b:#04x} ({names.get(b, 'unassigned')}) is not an instruction on "
                         f"target {evm}" + (f" (introduced in {intro})" if intro else ""))
            if len(probs) >= 4:
                break
        i += 1 + (b - 0x5F if 0x60 <= b <= 0x7F else 0)
    return probs


# ---------------------------------------------------------------- corpus

CORPUS = {
    "counter": """
x: public(uint256)
@external
def inc():
    self.x += 1
""",
    "immut": """
A: immutable(uint256)
B: immutable(address)
y: public(uint256)
@deploy
def __init__(a: uint256):
    A = a
    B = msg.sender
    self.y = a
@internal
def f(a: uint256) -> uint256:
    return a * 2 + A
@external
def g(a: uint256) -> uint256:
    return self.f(a)
@external
@view
def who() -> address:
    return B
""",
    "dyn": """
@external
def h(a: DynArray[uint256, 10]) -> uint256:
    s: uint256 = 0
    for i: uint256 in a:
        s += i
    return s
@external
def cat(a: Bytes[40], b: String[10]) -> Bytes[80]:
    return concat(a, convert(b, Bytes[10]))
""",
    "manyfn": "\n".join(
        f"@external\ndef fn{i}(a: uint256) -> uint256:\n    return a + {i * 7919}\n" for i in range(24)),
    "payable": """
event Paid:
    who: indexed(address)
    amt: uint256
bal: HashMap[address, uint256]
@external
@payable
def pay():
    self.bal[msg.sender] += msg.value
    log Paid(who=msg.sender, amt=msg.value)
@external
@payable
def __default__():
    self.bal[msg.sender] += msg.value
""",
    "lock": """
n: uint256
@external
@nonreentrant
def a():
    self.n += 1
    raw_call(msg.sender, b"")
@external
@nonreentrant
def b() -> uint256:
    return self.n
""",
    "bigconst": """
K1: constant(uint256) = 2**255
K2: constant(int256) = min_value(int256)
K3: constant(bytes32) = 0xffffffffffffffffffffffffffffffffffffffffffffffffffffffffffffffff
@external
def k(a: uint256) -> uint256:
    return (a & K1) | (a >> 7) | 256 | 1099511627776
@external
def m(a: int256) -> int256:
    return a // K2
@external
def b() -> bytes32:
    return K3
""",
    "strs": """
@external
def s() -> String[100]:
    return "The quick brown fox jumps over the lazy dog. The quick brown fox jumps over the lazy dog."
@external
def r(a: uint256):
    assert a > 5, "a must be bigger than five, otherwise this fails"
""",
    "structs": """
struct P:
    x: uint256
    y: int128
ps: public(HashMap[uint256, P])
arr: public(uint256[4])
@external
def set(i: uint256, p: P):
    self.ps[i] = p
    self.arr[i] = p.x
""",
    "create": """
@external
def mk(t: address) -> address:
    return create_minimal_proxy_to(t)
@external
def send(t: address):
    send(t, 1)
@external
def hashes(a: Bytes[64]) -> (bytes32, bytes32):
    return keccak256(a), sha256(a)
""",
    "decimals": """
@external
def d(a: decimal, b: decimal) -> decimal:
    return a * b + a / b
@external
def p(a: uint256, b: uint256) -> uint256:
    return a ** 3 + 2 ** b + a // 3
""",
    "flags": """
flag F:
    A
    B
    C
f: F
@external
def t(a: F) -> bool:
    self.f = a
    return F.A in a
@external
def loop(n: uint256) -> uint256:
    s: uint256 = 0
    for i: uint256 in range(n, bound=64):
        if i % 3 == 0:
            continue
        if i > 50:
            break
        s += i
    return s
""",
    "ctor_only": """
x: uint256
@deploy
@payable
def __init__(a: uint256, b: String[33]):
    self.x = a + len(b)
""",
    "empty": """
@external
def nothing():
    pass
""",
    "transient": """
t: transient(uint256)
@external
def s(a: uint256) -> uint256:
    self.t = a
    return self.t
""",
    "extcall": """
interface T:
    def f(a: uint256) -> uint256: view
    def g(a: Bytes[100]): nonpayable
@external
def c(t: T, a: uint256) -> uint256:
    return staticcall t.f(a)
@external
def d(t: T, a: Bytes[100]):
    extcall t.g(a)
""",
}


CORPUS["deepstack"] = """
@external
def many(a0: uint256, a1: uint256, a2: uint256, a3: uint256, a4: uint256, a5: uint256, a6: uint256, a7: uint256, a8: uint256, a9: uint256, a10: uint256, a11: uint256, a12: uint256, a13: uint256, a14: uint256, a15: uint256, a16: uint256, a17: uint256, a18: uint256, a19: uint256) -> uint256:
    b0: uint256 = a0 * 3 + a7
    b1: uint256 = a1 * 4 + a8
    b2: uint256 = a2 * 5 + a9
    b3: uint256 = a3 * 6 + a10
    b4: uint256 = a4 * 7 + a11
    b5: uint256 = a5 * 8 + a12
    b6: uint256 = a6 * 9 + a13
    b7: uint256 = a7 * 10 + a14
    b8: uint256 = a8 * 11 + a15
    b9: uint256 = a9 * 12 + a16
    b10: uint256 = a10 * 13 + a17
    b11: uint256 = a11 * 14 + a18
    b12: uint256 = a12 * 15 + a19
    b13: uint256 = a13 * 16 + a0
    b14: uint256 = a14 * 17 + a1
    b15: uint256 = a15 * 18 + a2
    b16: uint256 = a16 * 19 + a3
    b17: uint256 = a17 * 20 + a4
    b18: uint256 = a18 * 21 + a5
    b19: uint256 = a19 * 22 + a6
    return (b0 + a0) ^ (b1 + a1) ^ (b2 + a2) ^ (b3 + a3) ^ (b4 + a4) ^ (b5 + a5) ^ (b6 + a6) ^ (b7 + a7) ^ (b8 + a8) ^ (b9 + a9) ^ (b10 + a10) ^ (b11 + a11) ^ (b12 + a12) ^ (b13 + a13) ^ (b14 + a14) ^ (b15 + a15) ^ (b16 + a16) ^ (b17 + a17) ^ (b18 + a18) ^ (b19 + a19)
"""


CORPUS["bigframe_ctor"] = """
A: public(immutable(uint256))
B: public(immutable(Bytes[40]))
s: public(uint256)
@deploy
def __init__(a: uint256, b: Bytes[40]):
    buf: uint256[1000] = empty(uint256[1000])
    for i: uint256 in range(1000):
        buf[i] = i + a
    A = a
    B = b
    self.s = buf[999]
"""


CORPUS["ctor_returndata"] = """
A: public(immutable(uint256))
B: public(immutable(address))
C: public(immutable(bytes32))
s: public(uint256)
@deploy
def __init__(a: uint256):
    # the identity precompile returns its input: RETURNDATASIZE is 5 for the rest of the constructor
    r: Bytes[32] = raw_call(0x0000000000000000000000000000000000000004, b"\\x01\\x02\\x03\\x04\\x05", max_outsize=32)
    A = a + len(r)
    B = msg.sender
    C = keccak256(r)
    self.s = a
@external
def sum() -> uint256:
    return A + self.s
# enough runtime code that it is at least as long as the constructor's memory (mem_deploy_start == 0)
@external
def pad(a: uint256[6], b: int256[6], c: String[40]) -> uint256:
    t: uint256 = len(c)
    for i: uint256 in range(6):
        t += a[i] * 3 + convert(abs(b[i]), uint256) // 7
    return t % 1000003 + A
@external
def pad2(a: DynArray[uint256, 8], k: uint256) -> DynArray[uint256, 8]:
    r: DynArray[uint256, 8] = a
    if k < len(r):
        r[k] = A
    if len(r) < 8:
        r.append(k)
    else:
        r.pop()
    return r
"""

# source-level values the deployed contract must read back when the constructor is run with the default-valued
# arguments of deploy_stub_layout (every uint = 1; deployer = vlib.evm.DEPLOYER): getter signature -> 32-byte word(s)
CORPUS_EXPECT = {
    "ctor_returndata": {"A()": 6, "s()": 1, "sum()": 7, "B()": "DEPLOYER", "C()": "keccak:0102030405"},
    "bigframe_ctor": {"A()": 1, "s()": 1000},
}


def example_sources(repo: Path):
    out = {}
    for p in sorted((repo / "examples").rglob("*.vy")):
        out["ex/" + str(p.relative_to(repo / "examples"))] = p
    return out


# ---------------------------------------------------------------- compiling and running the model

def compile_data(name, src, cfg):
    """CompilerData for a corpus entry (source text or Path) under a vlib.configs.Config."""
    import re
    from vyper.compiler.input_bundle import FileInput, FilesystemInputBundle
    from vyper.compiler.phases import CompilerData
    if isinstance(src, Path):
        text = re.sub(r"(?m)^#\s*(pragma\s+version|@version).*$", "", src.read_text())
        fi = FileInput(0, src, src.resolve(), text)
        ib = FilesystemInputBundle([src.parent])
    else:
        fi = FileInput(0, Path(name + ".vy"), Path("/nonexistent") / (name + ".vy"), src)
        ib = FilesystemInputBundle([])
    return CompilerData(fi, ib, settings=cfg.settings())


GEN_PRELUDE = """From Verif Require Import C16.GenAsmLoops.
Definition gen_run (v : Z) (asm : list item) := gen_assemble (opcode_table v) v asm.
"""
NOGEN_PRELUDE = """Definition gen_run (v : Z) (asm : list item) := assemble (opcode_table v) (has_push0 v) asm.
"""
MODEL_PRELUDE = """From Verif Require Import Base.PyInt C16.Asm C16.HexBytes C16.GenOpcodes.
Open Scope list_scope.
Fixpoint leq (a b : list Z) : bool :=
  match a, b with [], [] => true | x :: a', y :: b' => (x =? y) && leq a' b' | _, _ => false end.
Fixpoint first_diff (a b : list Z) (i : Z) : Z :=
  match a, b with [], [] => -1 | x :: a', y :: b' => if x =? y then first_diff a' b' (i + 1) else i | _, _ => i end.
(* result: (verdict, wf, symbol_map, const_map); verdict "ok" iff the model's bytes equal `expect`,
   otherwise "ne:" ++ hex [offset of the first difference (3 bytes); model bytes there (up to 8)] *)
Fixpoint peq (a b : list (Z * Z)) : bool :=
  match a, b with [], [] => true | (x, y) :: a', (x', y') :: b' => (x =? x') && (y =? y') && peq a' b' | _, _ => false end.
(* the regenerated loops (gen_run) must give the same result as the model, errors included *)
Definition agrees (g r : res (list Z * list (Z * Z) * list (Z * Z))) : bool :=
  match g, r with
  | Ok (b1, s1, c1), Ok (b2, s2, c2) => leq b1 b2 && peq s1 s2 && peq c1 c2
  | Err _, Err _ => true
  | _, _ => false
  end.
Definition run (v : Z) (expect : list Z) (asm : list item) :=
  let r := assemble (opcode_table v) (has_push0 v) asm in
  let same := agrees (gen_run v asm) r in
  match r with
  | Ok (bs, sm, cm) =>
      (if negb same then "gen-differs"%string
       else if leq bs expect then "ok"%string
       else let i := first_diff bs expect 0 in
            ("ne:" ++ hex ([i / 65536; (i / 256) mod 256; i mod 256] ++ firstn 8 (skipn (Z.to_nat i) bs)))%string,
       wf_asm (opcode_table v) asm, sm, cm)
  | Err _ => (if same then "err"%string else "gen-differs"%string, false, [], [])
  end.
"""


def parse_run(out):
    """parse `("ok", true, [(0, 5); ...], [...])` -> (verdict, wf, {id: off}, {id: val})"""
    import re
    m = re.match(r'^\("([^"]*)", (true|false), (\[.*?\]), (\[.*?\])\)$', out.strip())
    if not m:
        raise ValueError(f"unparsable model output: {out[:200]}")

    def pairs(t):
        return {int(a): int(b) for a, b in re.findall(r"\(\s*(-?\d+),\s*\(?(-?\d+)\)?\s*\)", t)}

    return m.group(1), m.group(2) == "true", pairs(m.group(3)), pairs(m.group(4))


def run_model(cases, name, shard=24, with_gen=True):
    """cases: list of (evm_index, expected_bytes, coq_term) -> parsed results.  with_gen: also run the
    regenerated loops (GenAsmLoops.v) and require agreement with the model."""
    from . import coqrun
    exprs = [f"run {v} {coq_bytes(exp)} {term}" for v, exp, term in cases]
    head, rest = MODEL_PRELUDE.split("Open Scope list_scope.", 1)
    prelude = head + (GEN_PRELUDE if with_gen else NOGEN_PRELUDE) + "Open Scope list_scope." + rest
    outs = coqrun.eval_cases(prelude, exprs, name, shard=shard, timeout=600)
    return [parse_run(o) for o in outs]


# ---------------------------------------------------------------- in-process probe of PUSH / PUSH_N arguments

class PushProbe:
    """Wraps instructions.PUSH / PUSH_N / calc_push_size in every loaded vyper module (callers import
    them by name) and records each argument; out-of-domain calls are kept with their call site."""

    def __init__(self):
        self.calls = 0
        self.max_seen = -1
        self.min_seen = None
        self.bad = []
        self.sites = {}
        self._undo = []

    def _wrap(self, fn, name):
        import sys as _sys
        probe = self

        def wrapper(x, *a, **k):
            probe.calls += 1
            fr = _sys._getframe(1)
            site = f"{fr.f_code.co_filename.split('vyper/')[-1]}:{fr.f_code.co_name}"
            probe.sites[site] = probe.sites.get(site, 0) + 1
            if isinstance(x, int):
                probe.max_seen = max(probe.max_seen, x)
                probe.min_seen = x if probe.min_seen is None else min(probe.min_seen, x)
            ok = isinstance(x, int) and not isinstance(x, bool) and 0 <= x < 2**256
            if name == "PUSH_N":
                ok = isinstance(x, int)   # PUSH_N guards itself (assert); any int is in its domain
            if not ok and len(probe.bad) < 5:
                probe.bad.append({"function": name, "argument": repr(x)[:90], "call_site": f"{site}:{fr.f_lineno}"})
            return fn(x, *a, **k)

        wrapper.__wrapped__ = fn
        return wrapper

    def __enter__(self):
        import sys as _sys
        I = _imports()
        for name in ("PUSH", "PUSH_N", "calc_push_size"):
            orig = getattr(I, name)
            w = self._wrap(orig, name)
            for mn, mod in list(_sys.modules.items()):
                if mn.startswith("vyper") and mod is not None and getattr(mod, name, None) is orig:
                    setattr(mod, name, w)
                    self._undo.append((mod, name, orig))
        return self

    def __exit__(self, *a):
        for mod, name, orig in self._undo:
            setattr(mod, name, orig)
        self._undo = []


# ---------------------------------------------------------------- output views: model vs real, exact

VIEWS_PRELUDE = """From Verif Require Import Base.PyInt C16.Asm C16.HexBytes C16.Views C16.GenOpcodes.
Open Scope list_scope.
Local Infix "+++" := append (at level 60, right associativity).
Definition vcheck (v : Z) (code : list Z) (asm : list item) (nm nmc : Z -> string) (opc atext : string)
           (ia : list nat) (ka : list Z) (ie : list nat) (ke : list Z) (ij : list nat) (kj : list Z) :=
  (match opcodes_text (opcode_table v) code with Ok t => String.eqb t opc | Err _ => false end,
   match asm_text nm nmc asm with Ok t => String.eqb t atext | Err _ => false end,
   match keys_at (opcode_table v) (has_push0 v) asm ia [] with Ok l => same_set l ka | Err _ => false end,
   match keys_at (opcode_table v) (has_push0 v) asm ie [] with Ok l => same_set l ke | Err _ => false end,
   match keys_at (opcode_table v) (has_push0 v) asm ij [0] with Ok l => same_set l kj | Err _ => false end).
"""


def coq_text(s, chunk=900):
    """Coq term of type string for arbitrary printable text (newlines allowed), chunked."""
    assert all(c == "\n" or 32 <= ord(c) < 127 for c in s), "non-printable character in text"
    parts = ['"' + s[i:i + chunk].replace('"', '""') + '"' for i in range(0, len(s), chunk)] or ['""']
    return "(" + " +++ ".join(parts) + ")"


def name_fun(ids):
    arms = " ".join(f"| {i} => {coq_str(n)}" for n, i in ids.items())
    return f'(fun z => match z with {arms} | _ => "?" end)'


def views_expr(v, code, term, L, C, opcodes_text, asm_text, idx_ast, keys_ast, idx_err, keys_err, idx_jump, keys_jump):
    nl = lambda xs: "(map Z.to_nat [" + "; ".join(str(x) for x in xs) + "])"  # noqa
    zl_ = lambda xs: "[" + "; ".join(str(x) for x in xs) + "]"  # noqa
    return (f"vcheck {v} {coq_bytes(code)} {term} {name_fun(L.ids)} {name_fun(C.ids)} {coq_text(opcodes_text)} "
            f"{coq_text(asm_text)} {nl(idx_ast)} {zl_(keys_ast)} {nl(idx_err)} {zl_(keys_err)} {nl(idx_jump)} {zl_(keys_jump)}")


def source_map_indices(asm, smap):
    """which item indices file entries in pc_raw_ast_map / error_map / pc_jump_map (mirrors note_line_num's
    *classification* of items, not its pc arithmetic), and the real key sets."""
    I = _imports()
    ia, ie, ij = [], [], []
    for k, it in enumerate(asm):
        if isinstance(it, I.TaggedInstruction):
            node = it.ast_source
            if node is not None and hasattr(node.get_original_node(), "node_id"):
                ia.append(k)
            if it.error_msg is not None:
                ie.append(k)
        if isinstance(it, str) and str(it) in ("JUMP", "JUMPI", "JUMPDEST"):
            ij.append(k)
    ka = [pc for pc, node in smap.get("pc_raw_ast_map", {}).items() if not (pc == 0 and type(node).__name__ == "Module")]
    return ia, sorted(ka), ie, sorted(smap.get("error_map", {})), ij, sorted(smap.get("pc_jump_map", {}))


# ---------------------------------------------------------------- deploy stub operands vs real layout

def stub_operands(asm, symbol_map, const_map):
    """Concrete evaluation of the last basic block of the code part (the deploy epilogue) on a tiny stack
    machine: returns dict(codecopy=(dst, src, len) of the last CODECOPY whose source is the label
    runtime_begin, ret=(ofst, len) of the final RETURN); None entries where a value is not a compile-time
    constant.  Independent of vyper except for the pops/pushes arity of opcodes."""
    from vyper.evm.opcodes import OPCODES
    I = _imports()
    sym = {k.label: v for k, v in symbol_map.items()}
    cst = {k.label: v for k, v in const_map.items()}
    end = next((i for i, x in enumerate(asm) if isinstance(x, (I.DataHeader, I.DATA_ITEM))), len(asm))
    rets = [i for i in range(end) if isinstance(asm[i], str) and asm[i] == "RETURN"]
    if not rets:
        return None
    last = rets[-1]
    start = last
    while start > 0:
        x = asm[start - 1]
        if isinstance(x, I.Label) or (isinstance(x, str) and x in ("JUMPDEST", "JUMP", "JUMPI", "STOP", "REVERT", "RETURN", "INVALID")):
            break
        start -= 1
    stack, out = [], {"codecopy": None, "ret": None}

    def pop():
        return stack.pop() if stack else None

    i = start
    rb = sym.get("runtime_begin")
    while i <= last:
        x = asm[i]
        if isinstance(x, I.CONST):
            i += 1
            continue
        if isinstance(x, I.PUSHLABEL):
            stack.append(sym.get(x.label.label))
        elif isinstance(x, I.PUSH_OFST):
            base = sym.get(x.label.label) if isinstance(x.label, I.Label) else cst.get(x.label.label)
            stack.append(None if base is None else base + x.ofst)
        elif isinstance(x, str) and x.startswith("PUSH"):
            n = int(x[4:])
            stack.append(int.from_bytes(bytes(asm[i + 1:i + 1 + n]), "big"))
            i += n
        elif isinstance(x, str) and x.startswith("DUP"):
            n = int(x[3:])
            stack.append(stack[-n] if len(stack) >= n else None)
        elif isinstance(x, str) and x.startswith("SWAP"):
            n = int(x[4:])
            while len(stack) < n + 1:
                stack.insert(0, None)
            stack[-1], stack[-n - 1] = stack[-n - 1], stack[-1]
        elif x == "ADD":
            a, b = pop(), pop()
            stack.append(None if a is None or b is None else (a + b) % 2**256)
        elif x == "CODECOPY":
            dst, src, ln = pop(), pop(), pop()
            if src is not None and src == rb:
                out["codecopy"] = (dst, src, ln)
        elif x == "RETURN":
            out["ret"] = (pop(), pop())
        elif isinstance(x, str) and x in OPCODES:
            _, pops, pushes, _ = OPCODES[x]
            for _ in range(pops):
                pop()
            stack.extend([None] * pushes)
        else:
            return None
        i += 1
    return out
