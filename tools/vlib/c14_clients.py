"""C14: the decision kernels of the passes that delete or fold checks on the strength of value ranges
(overflow_elimination.py, assert_elimination.py, algebraic_optimization.py:_rule_signextend/_try_range_cmp).
The arithmetic decision code is sliced out of the pass methods by AST position (fail closed when the
expected statements are not found), turned into a synthetic module of pure functions over ValueRange,
translated to Coq (py2coq_ext) and proved sound in coq/C14/RangeClients.v.  The same synthetic module
is executed in CPython for the translator validation and for the Search."""
import ast
import importlib
import sys
import textwrap
from pathlib import Path

from .common import BUILD, REPO
from .py2coq import Ty, Unsupported
from .py2coq_ext import ExtTranslator, opt

MODNAME = "c14_clients_mod"


class SliceError(Unsupported):
    pass


def _method(tree, cls, name):
    for n in tree.body:
        if isinstance(n, ast.ClassDef) and n.name == cls:
            for m in n.body:
                if isinstance(m, ast.FunctionDef) and m.name == name:
                    return m
    raise SliceError(f"method {cls}.{name} not found")


class _StripSelf(ast.NodeTransformer):
    """self._f(...) -> _f(...);  SizeLimits.X stays (resolved as a constant)."""

    def visit_Call(self, node):
        self.generic_visit(node)
        if isinstance(node.func, ast.Attribute) and isinstance(node.func.value, ast.Name) and node.func.value.id == "self":
            node.func = ast.Name(id=node.func.attr, ctx=ast.Load())
        return node


def _tail_after_assign(fn, varname):
    """statements of fn after the LAST top-level assignment to `varname`."""
    idx = None
    for i, s in enumerate(fn.body):
        if isinstance(s, ast.Assign) and any(isinstance(t, ast.Name) and t.id == varname for t in s.targets):
            idx = i
    if idx is None:
        raise SliceError(f"assignment to {varname} not found in {fn.name}")
    return fn.body[idx + 1:]


def _mkfn(name, args, body, annotations):
    a = ast.arguments(posonlyargs=[], args=[ast.arg(arg=x, annotation=ast.Name(id=annotations[x], ctx=ast.Load())) for x in args],
                      kwonlyargs=[], kw_defaults=[], defaults=[])
    fn = ast.FunctionDef(name=name, args=a, body=[_StripSelf().visit(s) for s in body], decorator_list=[], returns=None,
                         type_params=[])
    return ast.fix_missing_locations(fn)


class _Refine(ast.NodeTransformer):
    """Turn the state-updating refinement code into a pure function of the current range:
    `return state` -> `return None` (no refinement); `self._write_range(state, v, X)` -> `return X`;
    `self._narrow_var(state, v, bound, inst.opcode, is_true, lo, hi, left_side=B)` -> `return narrow(current, bound, opcode, is_true, lo, hi, B)`;
    `inst.opcode` -> `opcode`; `<lit>.value` -> `lit_value`."""

    def __init__(self, litname):
        self.litname = litname

    def visit_Return(self, node):
        if isinstance(node.value, ast.Name) and node.value.id == "state":
            return ast.Return(value=ast.Constant(value=None))
        return self.generic_visit(node)

    def visit_Attribute(self, node):
        self.generic_visit(node)
        if isinstance(node.value, ast.Name) and node.value.id == "inst" and node.attr == "opcode":
            return ast.Name(id="opcode", ctx=ast.Load())
        if isinstance(node.value, ast.Name) and node.value.id == self.litname and node.attr == "value":
            return ast.Name(id="lit_value", ctx=ast.Load())
        return node

    def visit_Call(self, node):
        self.generic_visit(node)
        # x.clamp(None, h) -> x.clamp_hi(h)
        if isinstance(node.func, ast.Attribute) and node.func.attr == "clamp" and len(node.args) == 2 \
                and isinstance(node.args[0], ast.Constant) and node.args[0].value is None:
            return ast.Call(func=ast.Attribute(value=node.func.value, attr="clamp_hi", ctx=ast.Load()), args=[node.args[1]], keywords=[])
        return node

    def visit_Expr(self, node):
        self.generic_visit(node)
        c = node.value
        if isinstance(c, ast.Call):
            f = ast.unparse(c.func)
            if f == "self._write_range":
                return ast.Return(value=c.args[2])
            if f == "self._narrow_var":
                left = [k.value for k in c.keywords if k.arg == "left_side"][0]
                return ast.Return(value=ast.Call(func=ast.Name(id="narrow", ctx=ast.Load()),
                                                 args=[ast.Name(id="current", ctx=ast.Load())] + c.args[2:] + [left], keywords=[]))
        return node


def _drop_current_assign(stmts):
    out = []
    for s_ in stmts:
        if isinstance(s_, ast.Assign) and isinstance(s_.targets[0], ast.Name) and s_.targets[0].id == "current" \
                and "state.get" in ast.unparse(s_.value):
            continue
        out.append(s_)
    return out


def _refinement_functions(ana):
    fns = []
    cls = "VariableRangeAnalysis"
    # narrow(current, bound, opcode, is_true, min_bound, max_bound, left_side)
    nv = _method(ana, cls, "_narrow_var")
    body = _drop_current_assign([s_ for s_ in nv.body if not (isinstance(s_, ast.Expr) and isinstance(s_.value, ast.Constant))])
    body = [_Refine("__none__").visit(s_) for s_ in body] + [ast.Return(value=ast.Constant(value=None))]
    fns.append(_mkfn("narrow", ["current", "bound", "opcode", "is_true", "min_bound", "max_bound", "left_side"], body,
                     {"current": "ValueRange", "bound": "int", "opcode": "str", "is_true": "bool", "min_bound": "int",
                      "max_bound": "int", "left_side": "bool"}))
    # refine_compare_left / refine_compare_right : the two arms of _apply_compare
    ac = _method(ana, cls, "_apply_compare")
    pre = []
    arms = None
    for s_ in ac.body:
        if isinstance(s_, ast.If) and "isinstance(lhs, IRVariable)" in ast.unparse(s_.test):
            arms = s_
            break
        if isinstance(s_, ast.Assign) and ast.unparse(s_.targets[0]) in ("signed", "min_bound", "max_bound"):
            pre.append(s_)
    if arms is None or len(arms.orelse) != 1 or not isinstance(arms.orelse[0], ast.If):
        raise SliceError("_apply_compare does not have the expected two-arm shape")
    import copy
    for nm, arm, lit in (("refine_compare_left", arms.body, "rhs"), ("refine_compare_right", arms.orelse[0].body, "lhs")):
        body = copy.deepcopy(pre) + _drop_current_assign(copy.deepcopy(arm))
        body = [_Refine(lit).visit(s_) for s_ in body] + [ast.Return(value=ast.Constant(value=None))]
        fns.append(_mkfn(nm, ["current", "lit_value", "opcode", "is_true"], body,
                         {"current": "ValueRange", "lit_value": "int", "opcode": "str", "is_true": "bool"}))
    # refine_iszero_false(current): the else-branch of _apply_iszero (true branch is constant 0)
    iz = _method(ana, cls, "_apply_iszero")
    last_if = [s_ for s_ in iz.body if isinstance(s_, ast.If) and ast.unparse(s_.test) == "is_true"]
    if not last_if:
        raise SliceError("_apply_iszero: `if is_true` not found")
    body = _drop_current_assign(copy.deepcopy(last_if[0].orelse))
    body = [_Refine("__none__").visit(s_) for s_ in body] + [ast.Return(value=ast.Constant(value=None))]
    fns.append(_mkfn("refine_iszero_false", ["current"], body, {"current": "ValueRange"}))
    # refine_eq_vars(lhs_range, rhs_range): the var/var arm of _apply_eq (pure helper method _eq_range)
    er = _method(ana, cls, "_eq_range")
    body = [s_ for s_ in er.body if not (isinstance(s_, ast.Expr) and isinstance(s_.value, ast.Constant))]
    fns.append(_mkfn("refine_eq_vars", ["lhs_range", "rhs_range"], copy.deepcopy(body),
                     {"lhs_range": "ValueRange", "rhs_range": "ValueRange"}))
    # the arm itself must be: new_range = self._eq_range(..); if new_range is not None: write lhs, write rhs
    ae = ast.unparse(_method(ana, cls, "_apply_eq"))
    want = ("new_range = self._eq_range(lhs_range, rhs_range)\n        if new_range is not None:\n"
            "            self._write_range(state, lhs, new_range)\n            self._write_range(state, rhs, new_range)")
    if want not in ae:
        raise SliceError("_apply_eq: var/var arm does not have the expected shape")
    return fns


def build_module_source():
    passes = REPO / "vyper" / "venom" / "passes"
    ovf = ast.parse((passes / "overflow_elimination.py").read_text())
    asr = ast.parse((passes / "assert_elimination.py").read_text())
    alg = ast.parse((passes / "algebraic_optimization.py").read_text())
    fns = []
    # overflow elimination
    nn = _method(ovf, "OverflowEliminationPass", "_range_is_non_negative")
    fns.append(_mkfn("_range_is_non_negative", ["value_range"], nn.body, {"value_range": "ValueRange"}))
    add = _method(ovf, "OverflowEliminationPass", "_try_eliminate_add_overflow")
    fns.append(_mkfn("add_elim_cond", ["x_range", "y_range"], _tail_after_assign(add, "y_range"),
                     {"x_range": "ValueRange", "y_range": "ValueRange"}))
    sub = _method(ovf, "OverflowEliminationPass", "_try_eliminate_sub_underflow")
    fns.append(_mkfn("sub_elim_cond", ["x_range", "y_range"], _tail_after_assign(sub, "y_range"),
                     {"x_range": "ValueRange", "y_range": "ValueRange"}))
    # assert elimination
    ez = _method(asr, "AssertEliminationPass", "_range_excludes_zero")
    fns.append(_mkfn("_range_excludes_zero", ["rng"], ez.body, {"rng": "ValueRange"}))
    # signextend rule: statements after `x_range = ...`; the rewrite `self.updater.mk_assign(inst, x_op)` is the
    # "fold" decision: replace it by `return True`, falling off the end by `return False`
    se = _method(alg, "AlgebraicOptimizationPass", "_rule_signextend")
    tail = _tail_after_assign(se, "x_range")

    class _Dec(ast.NodeTransformer):
        def visit_Expr(self, node):
            if isinstance(node.value, ast.Call) and ast.unparse(node.value.func) == "self.updater.mk_assign":
                return ast.Return(value=ast.Constant(value=True))
            return node

        def visit_Return(self, node):
            if node.value is None:
                return ast.Return(value=ast.Constant(value=False))
            return node

    tail = [_Dec().visit(s) for s in tail] + [ast.Return(value=ast.Constant(value=False))]
    fns.append(_mkfn("signextend_noop_cond", ["n", "x_range"], tail, {"n": "int", "x_range": "ValueRange"}))
    # range cmp: statements after `var_range = ...`
    rc = _method(alg, "AlgebraicOptimizationPass", "_try_range_cmp")
    fns.append(_mkfn("range_cmp_kernel", ["lit_val", "var_range", "is_gt", "signed", "lit_is_first"],
                     _tail_after_assign(rc, "var_range"),
                     {"lit_val": "int", "var_range": "ValueRange", "is_gt": "bool", "signed": "bool", "lit_is_first": "bool"}))
    # ---- branch refinement in variable_range/analysis.py (_apply_compare/_narrow_var, _apply_iszero, _apply_eq)
    ana = ast.parse((REPO / "vyper" / "venom" / "analysis" / "variable_range" / "analysis.py").read_text())
    fns += _refinement_functions(ana)
    hdr = textwrap.dedent("""
        # GENERATED by tools/vlib/c14_clients.py: decision kernels sliced from /repo venom passes
        from vyper.utils import SizeLimits, wrap256
        from vyper.venom.analysis.variable_range.value_range import SIGNED_MAX, SIGNED_MIN, UNSIGNED_MAX, ValueRange


        class _R:
            # adapter so that the sliced `x.clamp_hi(h)` (= x.clamp(None, h)) runs on real ValueRange objects

            def __init__(self, r):
                self._r = r

            def __getattr__(self, name):
                return getattr(self._r, name)

            def clamp_hi(self, h):
                return self._r.clamp(None, h)
    """)
    mod = ast.Module(body=fns, type_ignores=[])
    return hdr + "\n\n" + ast.unparse(ast.fix_missing_locations(mod)) + "\n"


def load_module():
    BUILD.mkdir(exist_ok=True)
    src = build_module_source()
    p = BUILD / f"{MODNAME}.py"
    p.write_text(src)
    if str(BUILD) not in sys.path:
        sys.path.insert(0, str(BUILD))
    if MODNAME in sys.modules:
        del sys.modules[MODNAME]
    return importlib.import_module(MODNAME), src


def gen_coq():
    mod, src = load_module()
    VR = "vrange"
    ab = {
        (VR, "lo"): dict(coq="vr_lo", ret=Ty.Z, partial=True),
        (VR, "hi"): dict(coq="vr_hi", ret=Ty.Z, partial=True),
        (VR, "is_top"): dict(coq="vr_is_top", ret=Ty.B),
        (VR, "is_empty"): dict(coq="vr_is_empty", ret=Ty.B),
        (VR, "is_constant"): dict(coq="vr_is_constant", ret=Ty.B),
    }
    tr = ExtTranslator(MODNAME, extra_modules=["vyper.utils"], bindings={}, attr_bindings=ab,
                       type_names={"ValueRange": VR, "int": Ty.Z, "bool": Ty.B},
                       none_hints={})
    tr.ret_hints = {"range_cmp_kernel": opt(Ty.Z)}
    tr.arg_types_hint[("wrap256", "signed")] = Ty.B
    tr.arg_types_hint[("unsigned_to_signed", "strict")] = Ty.B
    tr.arg_types_hint[("int_bounds", "signed")] = Ty.B
    VRo = opt(VR)
    tr.ret_hints.update({"narrow": VRo, "refine_compare_left": VRo, "refine_compare_right": VRo, "refine_iszero_false": VRo, "refine_eq_vars": VRo})
    tr.attr_bindings[(VR, "clamp")] = dict(coq="vr_clamp2", ret=VR, call=True, args=[Ty.Z, Ty.Z])
    tr.attr_bindings[(VR, "clamp_hi")] = dict(coq="vr_clamp_hi", ret=VR, call=True, args=[Ty.Z])
    tr.attr_bindings[(VR, "intersect")] = dict(coq="vr_intersect", ret=VR, call=True, args=[VR])
    tr.bindings["ValueRange.iv"] = dict(coq="vr_iv", args=[Ty.Z, Ty.Z], ret=VR)
    tr.bindings["ValueRange.constant"] = dict(coq="vr_constant", args=[Ty.Z], ret=VR)
    tr.type_names["str"] = Ty.S
    for f in ["add_elim_cond", "sub_elim_cond", "_range_excludes_zero", "signextend_noop_cond", "range_cmp_kernel",
              "narrow", "refine_compare_left", "refine_compare_right", "refine_iszero_false", "refine_eq_vars"]:
        tr.translate_function(f)
    return tr.render(header="From Verif Require Import C14.RangeBase."), src
