"""C09 correspondence: scenario enumeration, EVM execution (pyrevm), model evaluation (Coq vm_compute)."""
import itertools

from vlib import c09_contracts as cc
from vlib import configs, coqrun
from vlib.evm import Chain

DEFAULT_SEL = 0xDEADBEEF


class Scenario:
    def __init__(self, top, direct, oracle, desc, mode=0):
        self.top, self.direct, self.oracle, self.desc, self.mode = top, direct, oracle, desc, mode
        # oracle: {tag: (must_fail: bool, text)}


def build_scenarios(rnd, pragma, full=True, sample=None):
    """outer kind x outer exit x depth x inner kind (+ seeded variation of inner exit / static flag / direct)"""
    out = []
    seen = set()
    combos = list(itertools.product(cc.KINDS, cc.EXITS, (1, 2, 3), cc.KINDS))
    if sample is not None and sample < len(combos):
        combos = rnd.sample(combos, sample)
    for ko, xo, d, ki in combos:
        if ko in cc.FIXED_EXIT and xo != "retbranch":
            continue
        xi = "retbranch" if ki in cc.FIXED_EXIT else rnd.choice(cc.EXITS)
        inner_static = (ki in ("view", "getter", "libview")) and rnd.random() < 0.7 or rnd.random() < 0.1
        direct = d == 1 and rnd.random() < 0.3
        outer_mk = cc.model_kind(ko, pragma)
        static_ctx = ko in ("view", "libview", "rawst")  # below a view outer / static raw_call everything is static
        oracle = {}

        def sub(target, tag, static=False, holders=()):
            rec = not static_ctx
            if isinstance(target, cc.VNode):
                mk = cc.model_kind(target.kind, pragma)
                mf = mk != "Unprot" and target.c in holders
                oracle[tag] = (mf, f"call to V{target.c}.{cc.entry_name(target)} ({mk}) while locks held on {sorted(holders)}")
            return (target, static, rec, False, tag)

        holders0 = (0,) if outer_mk == "Nonview" else ()
        inner = cc.VNode(0, ki, xi, None)
        tail = [sub(cc.VNode(0, "unprot", "retbranch", None), 3, holders=()),  # unprotected entry: never blocked
                ]
        if d == 1:
            c1 = cc.ANode([sub(inner, 2, inner_static, holders0)] + tail + [sub(cc.VNode(1, "np", "retbranch", None), 4, holders=holders0)])
        elif d == 2:
            hop = cc.ANode([sub(inner, 2, inner_static, holders0)] + tail)
            c1 = cc.ANode([sub(hop, 5), sub(cc.VNode(1, "pay", "fall", None), 4, holders=holders0)])
        else:
            holders1 = holders0 + (1,)
            c2 = cc.ANode([sub(inner, 2, inner_static, holders1), sub(cc.VNode(1, "np", "fall", None), 6, holders=holders1)] + tail)
            mid = cc.VNode(1, "np", "retbranch", c2)
            c1 = cc.ANode([sub(mid, 5, holders=holders0), sub(cc.VNode(1, "view", "retloop", None), 4, True, holders=holders0)])
        outer = cc.VNode(0, ko, xo, c1 if ko not in ("getter", "leaf") else None)
        if ko in ("getter", "leaf"):
            oracle = {}
        if direct:
            top = outer
        else:
            oracle[1] = (False, "outer call")
            top = cc.ANode([(outer, False, True, False, 1)])
        key = (ko, "-" if ko in ("getter", "leaf") else (xo, d, ki, xi, inner_static, direct))
        if key in seen:
            continue
        seen.add(key)
        out.append(Scenario(top, direct, dict(oracle), f"outer={ko}/{xo} depth={d} inner={ki}/{xi} inner_static={inner_static} direct={direct}"))
    return out


def probe_nodes():
    return [cc.VNode(0, "np", "fall", None), cc.VNode(1, "np", "fall", None)]


def model_predict(scens, pragma, transient, name):
    """list of int lists: [len, ok, ret, cell0, cell1, cell2, log...] x 3 transactions"""
    P = "transient_params" if transient else "storage_params"
    probes = "; ".join(cc.coq_node(p, pragma) for p in probe_nodes())
    exprs = [f"observe_seq {P} false [{cc.coq_node(s.top, pragma)}; {probes}] (init_state {P})" for s in scens]
    return coqrun.eval_zlists("From Verif Require Import C09.Lock.\n", exprs, name, shard=120)


def split_obs(v):
    out = []
    i = 0
    while i < len(v):
        n = v[i]
        out.append(v[i + 1:i + 1 + n])
        i += 1 + n
    return out


class World:
    def __init__(self, cfg, pragma, victim_out, attacker_out):
        self.cfg, self.pragma = cfg, pragma
        self.ch = Chain(cfg.evm)
        enc = lambda a: bytes(12) + bytes.fromhex(a[2:])  # noqa
        self.A = self.ch.deploy(bytes.fromhex(attacker_out["bytecode"][2:]))
        vb = bytes.fromhex(victim_out["bytecode"][2:])
        self.vb = vb
        self.V = [self.ch.deploy(vb + enc(self.A) + bytes(64)), self.ch.deploy(vb + enc(self.A) + bytes(64))]
        if self.A is None or None in self.V:
            raise RuntimeError("deployment failed")
        self.mi = {k: int(v, 16) for k, v in victim_out["method_identifiers"].items()}
        self.ami = {k.split("(")[0]: int(v, 16) for k, v in attacker_out["method_identifiers"].items()}
        al = attacker_out["layout"]["storage_layout"]
        self.nch, self.act, self.jl = al["nch"]["slot"], al["act"]["slot"], al["jlog"]["slot"]
        lay = victim_out["layout"]
        self.transient = "$.nonreentrant_key" in lay.get("transient_storage_layout", {})
        if self.transient:
            self.lock_slot = lay["transient_storage_layout"]["$.nonreentrant_key"]["slot"]
        else:
            self.lock_slot = lay["storage_layout"]["$.nonreentrant_key"]["slot"]

    def target(self, t):
        """(address, selector, arg) for a call to node t"""
        if isinstance(t, cc.ANode):
            return self.A, self.ami["cb"], t.pid
        pid = t.child.pid if t.child is not None else 0
        if t.kind == "default":
            return self.V[t.c], DEFAULT_SEL, pid | (cc.EXIT_CODE[t.exit] << 8)
        if t.kind == "nocode":
            return self.ctor_addr, DEFAULT_SEL, 0
        return self.V[t.c], self.mi[cc.entry_sig(t)], pid

    def install(self, top):
        nodes = cc.assign_pids(top)
        ins = self.ch.evm.insert_account_storage
        for n in nodes:
            ins(self.A, self.nch + n.pid, len(n.subs))
            if len(n.subs) > 4:
                raise ValueError("too many subs")
            for i, (t, static, rec, prop, tag) in enumerate(n.subs):
                addr, sel, arg = self.target(t)
                w = int(addr, 16) | sel << 160 | int(static) << 192 | int(rec) << 193 | int(prop) << 194 | tag << 200 | arg << 216
                ins(self.A, self.act + 4 * n.pid + i, w)

    def tx(self, t):
        addr, sel, arg = self.target(t)
        data = sel.to_bytes(4, "big") + arg.to_bytes(32, "big") + (7).to_bytes(32, "big")
        r = self.ch.call(addr, data)
        ret = int.from_bytes(r.out, "big") if (r.ok and len(r.out) == 32) else 0
        n = self.ch.storage(self.A, self.jl)
        lg = [self.ch.storage(self.A, self.jl + 1 + i) for i in range(n)]
        self.ch.evm.insert_account_storage(self.A, self.jl, 0)
        cells = [None, None, 0] if self.transient else [self.ch.storage(self.V[0], self.lock_slot),
                                                         self.ch.storage(self.V[1], self.lock_slot), 0]
        return [int(r.ok), ret] + cells + lg, data

    def observe_after(self, r_ok, r_out):
        ret = int.from_bytes(r_out, "big") if (r_ok and len(r_out) == 32) else 0
        n = self.ch.storage(self.A, self.jl)
        lg = [self.ch.storage(self.A, self.jl + 1 + i) for i in range(n)]
        self.ch.evm.insert_account_storage(self.A, self.jl, 0)
        cells = [None, None, 0] if self.transient else [self.ch.storage(self.V[0], self.lock_slot),
                                                         self.ch.storage(self.V[1], self.lock_slot), 0]
        return [int(r_ok), ret] + cells + lg

    def run_ctor(self, scen):
        """scen.top = ANode script run from the constructor (mode 1: plain callback, mode 2: through the library's
        @nonreentrant internal function).  The contract under construction takes the place of V0."""
        sid = self.ch.snapshot()
        try:
            enc = lambda a: bytes(12) + bytes.fromhex(a[2:])  # noqa
            # learn the address the deployment will get, then script the attacker against it
            s2 = self.ch.snapshot()
            probe_addr = self.ch.deploy(self.vb + enc(self.A) + bytes(64))
            self.ch.revert(s2)
            self.ch.reset_transient()
            self.ctor_addr = probe_addr
            old_v0 = self.V[0]
            self.install(scen.top)
            init = self.vb + enc(self.A) + scen.top.pid.to_bytes(32, "big") + scen.mode.to_bytes(32, "big")
            addr = self.ch.deploy(init)
            ok = addr is not None
            if ok and addr != probe_addr:
                raise RuntimeError("deployment address changed")
            self.V[0] = probe_addr if ok else old_v0
            obs = [self.observe_after(ok, b"")]
            calls = ["deploy:" + init[-96:].hex()]
            if ok:
                for t in probe_nodes():
                    o, data = self.tx(t)
                    obs.append(o)
                    calls.append(data.hex())
            self.V[0] = old_v0
            return obs, calls
        finally:
            self.ch.revert(sid)
            self.ch.reset_transient()

    def run(self, scen):
        """Execute scenario from the pristine post-deployment state.  Transient storage is NOT reset
        between the main call and the probes (stricter: the probes run as in the same transaction)."""
        sid = self.ch.snapshot()
        try:
            self.install(scen.top)
            obs, calls = [], []
            for t in [scen.top] + probe_nodes():
                o, data = self.tx(t)
                obs.append(o)
                calls.append(data.hex())
            return obs, calls
        finally:
            self.ch.revert(sid)
            self.ch.reset_transient()


def compare(model, real):
    """model: list of 3 int lists; real: same with None for unobservable"""
    if len(model) != len(real):
        return False
    for m, r in zip(model, real):
        if len(m) != len(r):
            return False
        for a, b in zip(m, r):
            if b is not None and a != b:
                return False
    return True


def oracle_violations(scen, real):
    """the property's own oracle, independent of the model: (1) journalled protected re-entries must have
    failed, (2) both follow-up plain calls to protected functions succeed."""
    bad = []
    main = real[0]
    for e in main[5:]:
        tag, ok = e // 2, e % 2
        if tag in scen.oracle and scen.oracle[tag][0] and ok:
            bad.append("re-entry succeeded: " + scen.oracle[tag][1])
    for i, p in enumerate(real[1:]):
        if p[0] != 1:
            bad.append(f"lock not released: follow-up call to V{i}.e_np_fall reverted after the outermost call ended")
    return bad


# ---------------------------------------------------------------- constructor scenarios
def ctor_scenarios(pragma):
    """the constructor calls out (mode 1) / enters the library's @nonreentrant internal function which calls out
    (mode 2); the attacker calls the contract under construction (no code yet: succeeds, runs nothing), another
    victim (independent lock) and itself."""
    out = []
    for mode in (1, 2):
        for variant in range(3):
            under = cc.VNode(0, "nocode", "fall", None)
            subs = [(under, False, True, False, 2)]
            if variant >= 1:
                subs.append((cc.VNode(1, "np", "retbranch", None), False, True, False, 3))
            if variant == 2:
                subs.append((cc.ANode([(cc.VNode(0, "nocode", "fall", None), True, True, False, 4)]), False, True, False, 5))
            top = cc.ANode(subs)
            out.append(Scenario(top, False, {}, f"ctor mode={mode} variant={variant}", mode=mode))
    return out


def ctor_model_expr(scen, pragma, transient):
    P = "transient_params" if transient else "storage_params"
    kind = "Unprot" if scen.mode == 1 else "Nonview"
    # ctor: [lock]; callback (propagating); write sink; [unlock]
    dep = f"Call 0%nat {kind} (BSub ({cc.coq_node(scen.top, pragma)}) false false None (BWrite (BEnd false)))"
    probes = "; ".join(cc.coq_node(p, pragma) for p in probe_nodes())
    return f"observe_seq {P} false [{dep}; {probes}] (init_state {P})"
