"""py2coq: fail-closed translator from a small pure subset of Python to Gallina.

Every translated function returns `res T` (PyInt.v).  Types are inferred
statically over {Z, bool, list T, tuple, fn}; Python bools used as ints are
coerced with b2z, ints used as conditions with z2b.  Anything outside the
subset raises Unsupported naming the construct (the caller treats that as a
broken tie).

Supported:
  * module-level int constants and class-attribute int constants (resolved from
    the *imported live module*, so they are the current source's values)
  * def with positional args (defaults allowed -> separate explicit args),
    if/elif/else, return, assignment, augmented assignment, assert, raise,
    tuple unpacking, while/for-range loops (fuel), closures of the form
    `def outer(f): def inner(args): ...; return inner`, dict-of-functions
    lookup tables (-> string match)
  * int operators, comparisons (incl. chained), and/or/not, IfExp,
    abs/min/max/int/bool/len/pow, list indexing with constant index
"""
import ast
import importlib
import inspect
import textwrap

COQ_KEYWORDS = {
    "mod", "in", "at", "as", "fun", "let", "end", "match", "with", "if", "then", "else",
    "forall", "exists", "Type", "Prop", "Set", "fix", "cofix", "return", "where", "for",
    "using", "struct", "IF", "by", "is", "Definition", "Lemma", "Theorem", "Proof", "Qed",
    "left", "right", "true", "false", "lt", "gt", "eq", "le", "ge", "min", "max", "abs", "not",
    "or", "and", "xor", "N", "Z", "S", "O", "Ok", "Err", "bind", "res", "length", "fst", "snd",
    "size", "value", "list", "nat", "bool", "option", "Some", "None", "id", "sum", "prod",
}


class Unsupported(Exception):
    pass


def cname(name):
    name = name.replace(".", "_")
    if name in COQ_KEYWORDS or name == "_":
        return name + "_"
    return name


def zlit(n):
    n = int(n)
    return f"({n})" if n < 0 else f"{n}"


class Ty:
    Z = "Z"
    B = "bool"
    S = "string"

    @staticmethod
    def lst(t):
        return ("list", t)

    @staticmethod
    def tup(ts):
        return ("tuple", tuple(ts))

    @staticmethod
    def fn(args, ret):
        return ("fn", tuple(args), ret)


def ty_str(t):
    if isinstance(t, str):
        return t
    if t[0] == "list":
        return f"(list {ty_str(t[1])})"
    if t[0] == "opt":
        return f"(option {ty_str(t[1])})"
    if t[0] == "tuple":
        return "(" + " * ".join(ty_str(x) for x in t[1]) + ")"
    if t[0] == "fn":
        return "(" + " -> ".join([ty_str(a) for a in t[1]] + [f"res {ty_str(t[2])}"]) + ")"
    raise Unsupported(f"type {t}")


class E:
    """A translated expression: pure coq text + its type + monadic pre-bindings."""

    def __init__(self, text, ty, pre=None):
        self.text = text
        self.ty = ty
        self.pre = pre or []  # list of (var, monadic_expr_text)


class Translator:
    def __init__(self, module_name, bindings=None, extra_sigs=None, extra_modules=None):
        self.modname = module_name
        self.mod = importlib.import_module(module_name)
        src = inspect.getsource(self.mod)
        self.tree = ast.parse(src)
        self.funcs = {}  # name -> ast.FunctionDef
        self.func_mod = {}  # name -> module object (for constant resolution)
        for mn in list(extra_modules or []) + [module_name]:
            m = importlib.import_module(mn)
            t = ast.parse(inspect.getsource(m))
            for node in t.body:
                if isinstance(node, ast.FunctionDef):
                    self.funcs[node.name] = node
                    self.func_mod[node.name] = m
        self.sigs = {}  # name -> (argtypes, rettype, kind) for translated functions
        self.bindings = dict(BUILTIN_BINDINGS)
        if bindings:
            self.bindings.update(bindings)
        if extra_sigs:
            self.sigs.update(extra_sigs)
        self.out = []
        self.consts = {}
        self.tmp = 0
        self.arg_types_hint = {}

    # ---------- helpers
    def fresh(self, base="v"):
        self.tmp += 1
        return f"{base}__{self.tmp}"

    def const_value(self, dotted):
        """Resolve NAME or NAME.ATTR to an int constant in the live module."""
        obj = self.mod
        for part in dotted.split("."):
            if not hasattr(obj, part):
                return None
            obj = getattr(obj, part)
        if isinstance(obj, bool):
            return None
        if isinstance(obj, int):
            return obj
        return None

    def emit_const(self, dotted):
        v = self.const_value(dotted)
        if v is None:
            return None
        nm = "c_" + cname(dotted)
        if nm not in self.consts:
            self.consts[nm] = v
        return nm

    # ---------- expressions
    def as_z(self, e):
        if e.ty == Ty.Z:
            return e
        if e.ty == Ty.B:
            return E(f"(b2z {e.text})", Ty.Z, e.pre)
        raise Unsupported(f"cannot use {ty_str(e.ty)} as int: {e.text}")

    def as_b(self, e):
        if e.ty == Ty.B:
            return e
        if e.ty == Ty.Z:
            return E(f"(z2b {e.text})", Ty.B, e.pre)
        raise Unsupported(f"cannot use {ty_str(e.ty)} as bool: {e.text}")

    def expr(self, node, env):
        if isinstance(node, ast.Constant):
            if isinstance(node.value, bool):
                return E("true" if node.value else "false", Ty.B)
            if isinstance(node.value, int):
                return E(zlit(node.value), Ty.Z)
            if isinstance(node.value, str):
                return E('"' + node.value.replace('"', '""') + '"%string', Ty.S)
            raise Unsupported(f"constant {node.value!r}")
        if isinstance(node, ast.Name):
            if node.id in env:
                return E(cname(node.id), env[node.id])
            c = self.emit_const(node.id)
            if c is not None:
                return E(c, Ty.Z)
            if node.id in self.sigs:
                a, r, _ = self.sigs[node.id]
                return E(cname(node.id), Ty.fn(a, r))
            raise Unsupported(f"unknown name {node.id}")
        if isinstance(node, ast.Attribute):
            dotted = self.dotted(node)
            if dotted is not None:
                if dotted in self.bindings:
                    b = self.bindings[dotted]
                    if b.get("value"):
                        return E(b["value"], b["ty"])
                c = self.emit_const(dotted)
                if c is not None:
                    return E(c, Ty.Z)
                # attribute of a bound local (e.g. ops[1].value handled in Subscript)
            base = self.expr(node.value, env)
            if node.attr == "value" and base.ty == Ty.Z:
                # IRLiteral.value : literals are modelled by their int value
                return base
            raise Unsupported(f"attribute {ast.dump(node)[:80]}")
        if isinstance(node, ast.UnaryOp):
            v = self.expr(node.operand, env)
            if isinstance(node.op, ast.USub):
                v = self.as_z(v)
                return E(f"(- {v.text})", Ty.Z, v.pre)
            if isinstance(node.op, ast.Not):
                v = self.as_b(v)
                return E(f"(negb {v.text})", Ty.B, v.pre)
            if isinstance(node.op, ast.Invert):
                v = self.as_z(v)
                return E(f"(Z.lnot {v.text})", Ty.Z, v.pre)
            raise Unsupported("unary op")
        if isinstance(node, ast.BinOp):
            a = self.as_z(self.expr(node.left, env))
            b = self.as_z(self.expr(node.right, env))
            pre = a.pre + b.pre
            op = node.op
            pure = {
                ast.Add: "+", ast.Sub: "-", ast.Mult: "*",
            }
            fn2 = {ast.BitAnd: "Z.land", ast.BitOr: "Z.lor", ast.BitXor: "Z.lxor"}
            partial = {
                ast.FloorDiv: "py_floordiv", ast.Mod: "py_mod", ast.Pow: "py_pow",
                ast.LShift: "py_lshift", ast.RShift: "py_rshift",
            }
            for k, s in pure.items():
                if isinstance(op, k):
                    return E(f"({a.text} {s} {b.text})", Ty.Z, pre)
            for k, s in fn2.items():
                if isinstance(op, k):
                    return E(f"({s} {a.text} {b.text})", Ty.Z, pre)
            for k, s in partial.items():
                if isinstance(op, k):
                    v = self.fresh()
                    return E(v, Ty.Z, pre + [(v, f"{s} {a.text} {b.text}")])
            raise Unsupported(f"binop {type(op).__name__}")
        if isinstance(node, ast.BoolOp):
            vals = [self.expr(v, env) for v in node.values]
            if any(v.pre for v in vals[1:]):
                raise Unsupported("partial operation under short-circuit operator")
            if all(v.ty == Ty.B for v in vals):
                op = "&&" if isinstance(node.op, ast.And) else "||"
                return E("(" + f" {op} ".join(v.text for v in vals) + ")", Ty.B, vals[0].pre)
            raise Unsupported("and/or on non-bool operands")
        if isinstance(node, ast.Compare):
            operands = [node.left] + list(node.comparators)
            es = [self.expr(o, env) for o in operands]
            pre = sum((e.pre for e in es), [])
            parts = []
            for i, op in enumerate(node.ops):
                l, r = es[i], es[i + 1]
                if isinstance(op, (ast.Eq, ast.NotEq)) and l.ty == Ty.B and r.ty == Ty.B:
                    t = f"(Bool.eqb {l.text} {r.text})"
                    if isinstance(op, ast.NotEq):
                        t = f"(negb {t})"
                    parts.append(t)
                    continue
                if isinstance(op, (ast.Eq, ast.NotEq)) and l.ty == Ty.S and r.ty == Ty.S:
                    t = f"(String.eqb {l.text} {r.text})"
                    if isinstance(op, ast.NotEq):
                        t = f"(negb {t})"
                    parts.append(t)
                    continue
                l, r = self.as_z(l), self.as_z(r)
                sym = {
                    ast.Eq: "=?", ast.Lt: "<?", ast.LtE: "<=?", ast.Gt: ">?", ast.GtE: ">=?",
                }
                if isinstance(op, ast.NotEq):
                    parts.append(f"(negb ({l.text} =? {r.text}))")
                elif type(op) in sym:
                    parts.append(f"({l.text} {sym[type(op)]} {r.text})")
                else:
                    raise Unsupported(f"compare op {type(op).__name__}")
            if len(parts) > 1 and any(e.pre for e in es[1:]):
                pass  # operands are pure ints evaluated once; chaining is fine
            return E("(" + " && ".join(parts) + ")" if len(parts) > 1 else parts[0], Ty.B, pre)
        if isinstance(node, ast.IfExp):
            c = self.as_b(self.expr(node.test, env))
            a = self.expr(node.body, env)
            b = self.expr(node.orelse, env)
            if a.pre or b.pre:
                raise Unsupported("partial operation inside conditional expression")
            if a.ty != b.ty:
                a, b = self.as_z(a), self.as_z(b)
            return E(f"(if {c.text} then {a.text} else {b.text})", a.ty, c.pre)
        if isinstance(node, ast.Tuple):
            es = [self.expr(e, env) for e in node.elts]
            return E(
                "(" + ", ".join(e.text for e in es) + ")",
                Ty.tup([e.ty for e in es]),
                sum((e.pre for e in es), []),
            )
        if isinstance(node, ast.List):
            es = [self.expr(e, env) for e in node.elts]
            if not es:
                raise Unsupported("empty list literal needs annotation")
            return E(
                "[" + "; ".join(e.text for e in es) + "]",
                Ty.lst(es[0].ty),
                sum((e.pre for e in es), []),
            )
        if isinstance(node, ast.Subscript):
            base = self.expr(node.value, env)
            if isinstance(base.ty, tuple) and base.ty[0] == "list":
                idx = self.as_z(self.expr(node.slice, env))
                v = self.fresh()
                return E(v, base.ty[1], base.pre + idx.pre + [(v, f"py_index {base.text} {idx.text}")])
            raise Unsupported(f"subscript on {ty_str(base.ty)}")
        if isinstance(node, ast.Call):
            return self.call(node, env)
        raise Unsupported(f"expression {type(node).__name__}")

    def dotted(self, node):
        parts = []
        while isinstance(node, ast.Attribute):
            parts.append(node.attr)
            node = node.value
        if isinstance(node, ast.Name):
            parts.append(node.id)
            return ".".join(reversed(parts))
        return None

    def call(self, node, env):
        if node.keywords:
            kw = {k.arg: k.value for k in node.keywords}
        else:
            kw = {}
        fname = self.dotted(node.func) if not isinstance(node.func, ast.Name) else node.func.id
        if fname is None:
            raise Unsupported("call of computed function")
        # isinstance(x, int) asserts are type documentation: statically true here
        if fname == "isinstance":
            return E("true", Ty.B)
        args = [self.expr(a, env) for a in node.args]
        pre = sum((a.pre for a in args), [])
        if fname in env:  # call of a function-typed local (closure parameter)
            t = env[fname]
            if not (isinstance(t, tuple) and t[0] == "fn"):
                raise Unsupported(f"call of non-function local {fname}")
            argtxt = " ".join(self.coerce(a, ty).text for a, ty in zip(args, t[1]))
            v = self.fresh()
            return E(v, t[2], pre + [(v, f"{cname(fname)} {argtxt}")])
        if fname in self.bindings:
            b = self.bindings[fname]
            if "special" in b:
                return b["special"](self, node, args, kw, env)
            at = b["args"]
            if len(args) != len(at):
                raise Unsupported(f"arity of {fname}")
            argtxt = " ".join(self.coerce(a, ty).text for a, ty in zip(args, at))
            if b.get("partial"):
                v = self.fresh()
                return E(v, b["ret"], pre + [(v, f"{b['coq']} {argtxt}")])
            return E(f"({b['coq']} {argtxt})", b["ret"], pre)
        if fname in self.funcs or fname in self.sigs:
            if fname not in self.sigs:
                self.translate_function(fname)
            argtys, ret, params = self.sigs[fname]
            # keyword / default arguments
            full = list(args)
            fdef = self.funcs.get(fname)
            if len(full) < len(argtys) or kw:
                if fdef is None:
                    raise Unsupported(f"defaults of external {fname}")
                names = [a.arg for a in fdef.args.args]
                defaults = dict(zip(names[len(names) - len(fdef.args.defaults):], fdef.args.defaults))
                for nm in names[len(full):]:
                    if nm in kw:
                        full.append(self.expr(kw[nm], env))
                    elif nm in defaults:
                        full.append(self.expr(defaults[nm], {}))
                    else:
                        raise Unsupported(f"missing argument {nm} of {fname}")
                pre = sum((a.pre for a in full), [])
            argtxt = " ".join(self.coerce(a, ty).text for a, ty in zip(full, argtys))
            v = self.fresh()
            return E(v, ret, pre + [(v, f"{cname(fname)} {argtxt}")])
        raise Unsupported(f"call to unknown function {fname}")

    def coerce(self, e, ty):
        if ty == Ty.Z:
            return self.as_z(e)
        if ty == Ty.B:
            return self.as_b(e)
        if e.ty != ty:
            # function-typed: allow passing translated functions / bindings
            if isinstance(ty, tuple) and ty[0] == "fn" and isinstance(e.ty, tuple) and e.ty[0] == "fn":
                return e
            raise Unsupported(f"type mismatch {ty_str(e.ty)} vs {ty_str(ty)} in {e.text}")
        return e

    # ---------- statements
    def wrap_pre(self, pre, body):
        for v, m in reversed(pre):
            body = f"{v} <- {m} ;;\n{body}"
        return body

    def always_returns(self, stmts):
        for s in stmts:
            if isinstance(s, (ast.Return, ast.Raise)):
                return True
            if isinstance(s, ast.If) and s.orelse and self.always_returns(s.body) and self.always_returns(s.orelse):
                return True
        return False

    def assigned_vars(self, stmts):
        out = []
        for s in stmts:
            if isinstance(s, ast.Assign):
                for t in s.targets:
                    for n in ast.walk(t):
                        if isinstance(n, ast.Name) and n.id not in out:
                            out.append(n.id)
            elif isinstance(s, ast.AugAssign) and isinstance(s.target, ast.Name):
                if s.target.id not in out:
                    out.append(s.target.id)
            elif isinstance(s, ast.AnnAssign) and isinstance(s.target, ast.Name):
                if s.target.id not in out:
                    out.append(s.target.id)
            elif isinstance(s, ast.If):
                for v in self.assigned_vars(s.body) + self.assigned_vars(s.orelse):
                    if v not in out:
                        out.append(v)
            elif isinstance(s, (ast.While, ast.For)):
                for v in self.assigned_vars(s.body):
                    if v not in out:
                        out.append(v)
        return out

    def contains_return(self, stmts):
        for s in stmts:
            for n in ast.walk(s):
                if isinstance(n, (ast.Return, ast.Raise)):
                    return True
        return False

    def block(self, stmts, env, ret_ty_box, tail=None):
        """Translate stmts followed by `tail` (a callable env->text for falling off the end)."""
        if not stmts:
            if tail is None:
                raise Unsupported("function may fall off the end without return")
            return tail(env)
        s, rest = stmts[0], stmts[1:]
        if isinstance(s, ast.Expr) and isinstance(s.value, ast.Constant) and isinstance(s.value.value, str):
            return self.block(rest, env, ret_ty_box, tail)  # docstring
        if isinstance(s, ast.Pass):
            return self.block(rest, env, ret_ty_box, tail)
        if isinstance(s, ast.Return):
            if s.value is None:
                raise Unsupported("bare return")
            e = self.expr(s.value, env)
            want = ret_ty_box.get("ty")
            if want is None:
                ret_ty_box["ty"] = e.ty
            elif want != e.ty:
                if {want, e.ty} == {Ty.Z, Ty.B}:
                    # mixed int/bool returns: the function is int-valued
                    ret_ty_box["ty"] = Ty.Z
                    ret_ty_box["mixed"] = True
                    e = self.as_z(e)
                else:
                    raise Unsupported(f"return type mismatch {ty_str(want)} vs {ty_str(e.ty)}")
            if ret_ty_box.get("mixed"):
                e = self.as_z(e)
            return self.wrap_pre(e.pre, f"Ok {e.text}")
        if isinstance(s, ast.Raise):
            return "Err Raised"
        if isinstance(s, ast.Assert):
            c = self.as_b(self.expr(s.test, env))
            if c.text == "true":
                return self.block(rest, env, ret_ty_box, tail)
            body = self.block(rest, env, ret_ty_box, tail)
            return self.wrap_pre(c.pre, f"if {c.text} then\n{body}\nelse Err AssertFail")
        if isinstance(s, (ast.Assign, ast.AnnAssign)):
            if isinstance(s, ast.Assign):
                if len(s.targets) != 1:
                    raise Unsupported("multiple assignment targets")
                target = s.targets[0]
            else:
                target = s.target
            e = self.expr(s.value, env)
            env2 = dict(env)
            if isinstance(target, ast.Name):
                env2[target.id] = e.ty
                body = self.block(rest, env2, ret_ty_box, tail)
                return self.wrap_pre(e.pre, f"let {cname(target.id)} := {e.text} in\n{body}")
            if isinstance(target, ast.Tuple) and all(isinstance(t, ast.Name) for t in target.elts):
                if not (isinstance(e.ty, tuple) and e.ty[0] == "tuple" and len(e.ty[1]) == len(target.elts)):
                    raise Unsupported("tuple unpack of non-tuple")
                for t, ty in zip(target.elts, e.ty[1]):
                    env2[t.id] = ty
                pat = "(" + ", ".join(cname(t.id) for t in target.elts) + ")"
                body = self.block(rest, env2, ret_ty_box, tail)
                return self.wrap_pre(e.pre, f"let '{pat} := {e.text} in\n{body}")
            raise Unsupported("assignment target")
        if isinstance(s, ast.AugAssign):
            if not isinstance(s.target, ast.Name):
                raise Unsupported("augassign target")
            fake = ast.Assign(
                targets=[ast.Name(id=s.target.id, ctx=ast.Store())],
                value=ast.BinOp(left=ast.Name(id=s.target.id, ctx=ast.Load()), op=s.op, right=s.value),
            )
            return self.block([fake] + rest, env, ret_ty_box, tail)
        if isinstance(s, ast.If):
            c = self.as_b(self.expr(s.test, env))
            has_ret = self.contains_return(s.body) or self.contains_return(s.orelse)
            if has_ret or not rest:
                # duplicate the continuation into both branches
                t = self.block(s.body + rest, env, ret_ty_box, tail)
                f = self.block(list(s.orelse) + rest, env, ret_ty_box, tail)
                return self.wrap_pre(c.pre, f"if {c.text} then\n{t}\nelse\n{f}")
            # join assigned variables through a tuple; variables assigned on only one
            # path and unknown before are branch-local (using them later is rejected
            # because they are not in the environment)
            cand = self.assigned_vars([s])
            envs = []

            def probe(env_b):
                envs.append(env_b)
                return "Ok tt"

            self_tmp = self.tmp
            self.block(s.body, env, {"ty": None}, probe)
            self.block(list(s.orelse), env, {"ty": None}, probe)
            self.tmp = self_tmp
            vars_ = [v for v in cand if all(v in e_ for e_ in envs)]
            env2 = dict(env)
            for v in vars_:
                tys = {e_[v] for e_ in envs}
                if len(tys) != 1:
                    raise Unsupported(f"variable {v} has different types on branches")
                env2[v] = tys.pop()

            def join(env_b):
                if not vars_:
                    return "Ok tt"
                return "Ok (" + ", ".join(cname(v) for v in vars_) + ")"

            t = self.block(s.body, env, {"ty": None}, join)
            f = self.block(list(s.orelse), env, {"ty": None}, join)
            body = self.block(rest, env2, ret_ty_box, tail)
            if not vars_:
                u = self.fresh("u")
                return self.wrap_pre(
                    c.pre, f"{u} <- (if {c.text} then\n{t}\nelse\n{f}) ;;\n{body}"
                )
            pat = "(" + ", ".join(cname(v) for v in vars_) + ")"
            if len(vars_) == 1:
                return self.wrap_pre(
                    c.pre, f"{cname(vars_[0])} <- (if {c.text} then\n{t}\nelse\n{f}) ;;\n{body}"
                )
            return self.wrap_pre(
                c.pre, f"'{pat} <- (if {c.text} then\n{t}\nelse\n{f}) ;;\n{body}"
            )
        if isinstance(s, ast.While):
            return self.loop(s, rest, env, ret_ty_box, tail)
        raise Unsupported(f"statement {type(s).__name__}")

    def loop(self, s, rest, env, ret_ty_box, tail):
        raise Unsupported("while loop (use a loop binding)")

    # ---------- functions
    def infer_arg_type(self, fname, arg, fdef):
        hint = self.arg_types_hint.get((fname, arg.arg))
        if hint is not None:
            return hint
        ann = arg.annotation
        if ann is not None:
            t = ast.unparse(ann)
            if t == "int":
                return Ty.Z
            if t == "bool":
                return Ty.B
            if t == "str":
                return Ty.S
            if t in ("list[IRLiteral]", "list[int]", "List[int]"):
                return Ty.lst(Ty.Z)
        return Ty.Z

    def translate_function(self, fname):
        if fname in self.sigs:
            return
        fdef = self.funcs.get(fname)
        if fdef is None:
            raise Unsupported(f"no function {fname} in {self.modname}")
        saved_mod = self.mod
        self.mod = self.func_mod.get(fname, self.mod)
        try:
            return self._translate_function(fname, fdef)
        finally:
            self.mod = saved_mod

    def _translate_function(self, fname, fdef):
        # closure factory: def outer(f): def inner(..): ...; return inner
        inner = [n for n in fdef.body if isinstance(n, ast.FunctionDef)]
        if inner:
            return self.translate_closure(fname, fdef, inner[0])
        args = fdef.args.args
        env = {}
        argtys = []
        for a in args:
            t = self.infer_arg_type(fname, a, fdef)
            env[a.arg] = t
            argtys.append(t)
        box = {"ty": None}
        # provisional signature for recursion is not supported
        body = self.block(fdef.body, env, box, None)
        if box.get("mixed"):
            # re-translate so that early bool returns are coerced consistently
            box2 = {"ty": Ty.Z, "mixed": True}
            self.tmp_save = self.tmp
            body = self.block(fdef.body, env, box2, None)
            box = box2
        ret = box["ty"]
        params = " ".join(f"({cname(a.arg)} : {ty_str(t)})" for a, t in zip(args, argtys))
        self.sigs[fname] = (argtys, ret, [a.arg for a in args])
        self.out.append(
            f"Definition {cname(fname)} {params} : res {ty_str(ret)} :=\n{textwrap.indent(body, '  ')}."
        )

    def translate_closure(self, fname, fdef, inner):
        # outer args are function-typed parameters whose types come from hints
        env = {}
        argtys = []
        for a in fdef.args.args:
            t = self.arg_types_hint.get((fname, a.arg))
            if t is None:
                raise Unsupported(f"closure parameter {fname}.{a.arg} needs a type hint")
            env[a.arg] = t
            argtys.append(t)
        for a in inner.args.args:
            t = self.infer_arg_type(fname + "." + inner.name, a, inner)
            env[a.arg] = t
            argtys.append(t)
        last = fdef.body[-1]
        if not (isinstance(last, ast.Return) and isinstance(last.value, ast.Name) and last.value.id == inner.name):
            raise Unsupported(f"closure factory {fname} must return its inner function")
        box = {"ty": None}
        body = self.block(inner.body, env, box, None)
        names = [a.arg for a in fdef.args.args] + [a.arg for a in inner.args.args]
        params = " ".join(f"({cname(n)} : {ty_str(t)})" for n, t in zip(names, argtys))
        self.sigs[fname] = (argtys, box["ty"], names)
        self.out.append(
            f"Definition {cname(fname)} {params} : res {ty_str(box['ty'])} :=\n{textwrap.indent(body, '  ')}."
        )

    def translate_dispatch_table(self, table_name, coq_name, arg_ty, ret_ty):
        """A module-level dict {str: factory(fn)} -> Definition by string match."""
        node = None
        for n in self.tree.body:
            tgt = None
            if isinstance(n, ast.AnnAssign):
                tgt = n.target
            elif isinstance(n, ast.Assign):
                tgt = n.targets[0]
            if isinstance(tgt, ast.Name) and tgt.id == table_name:
                node = n.value
        if not isinstance(node, ast.Dict):
            raise Unsupported(f"{table_name} is not a dict literal")
        arms = []
        keys = []
        for k, v in zip(node.keys, node.values):
            if not (isinstance(k, ast.Constant) and isinstance(k.value, str)):
                raise Unsupported("non-string dict key")
            keys.append(k.value)
            if not (isinstance(v, ast.Call) and isinstance(v.func, ast.Name) and len(v.args) == 1):
                raise Unsupported(f"dict value for {k.value}")
            factory = v.func.id
            opnode = v.args[0]
            opname = self.dotted(opnode) if isinstance(opnode, ast.Attribute) else opnode.id
            # type hint for the factory's function parameter comes from the operator
            if opname in self.bindings and "fnvalue" in self.bindings[opname]:
                b = self.bindings[opname]
                optext, opty = b["fnvalue"], b["fnty"]
            else:
                if opname not in self.sigs:
                    self.translate_function(opname)
                a, r, _ = self.sigs[opname]
                optext, opty = cname(opname), Ty.fn(a, r)
            fd = self.funcs[factory]
            key = (factory, fd.args.args[0].arg)
            prev = self.arg_types_hint.get(key)
            if prev is not None and prev != opty and factory in self.sigs:
                raise Unsupported(f"factory {factory} used at two function types")
            self.arg_types_hint[key] = opty
            self.translate_function(factory)
            arms.append((k.value, f"{cname(factory)} {optext}"))
        body = "\n".join(
            f'  if String.eqb op "{k}" then Some ({t}) else' for k, t in arms
        )
        self.out.append(
            f"Definition {coq_name} (op : string) : option ({ty_str(arg_ty)} -> res {ty_str(ret_ty)}) :=\n{body}\n  None."
        )
        return keys

    def render(self, header=""):
        lines = [
            "(* GENERATED by tools/vlib/py2coq.py from " + self.modname + " -- do not edit *)",
            "From Coq Require Import ZArith Bool List String.",
            "From Verif Require Import Base.PyInt.",
            "Import ListNotations.",
            "Open Scope Z_scope.",
            header,
        ]
        for nm, v in self.consts.items():
            lines.append(f"Definition {nm} : Z := {zlit(v)}.")
        lines.extend(self.out)
        return "\n\n".join(x for x in lines if x) + "\n"


# ---------------- builtin bindings


def _sp_abs(tr, node, args, kw, env):
    a = tr.as_z(args[0])
    return E(f"(Z.abs {a.text})", Ty.Z, a.pre)


def _sp_minmax(which):
    def f(tr, node, args, kw, env):
        zs = [tr.as_z(a) for a in args]
        if len(zs) < 2:
            raise Unsupported("min/max of iterable")
        t = zs[0].text
        for z in zs[1:]:
            t = f"(Z.{which} {t} {z.text})"
        return E(t, Ty.Z, sum((z.pre for z in zs), []))

    return f


def _sp_int(tr, node, args, kw, env):
    a = tr.as_z(args[0])
    return a


def _sp_bool(tr, node, args, kw, env):
    return tr.as_b(args[0])


def _sp_len(tr, node, args, kw, env):
    a = args[0]
    if not (isinstance(a.ty, tuple) and a.ty[0] == "list"):
        raise Unsupported("len of non-list")
    return E(f"(py_len {a.text})", Ty.Z, a.pre)


def _sp_pow(tr, node, args, kw, env):
    zs = [tr.as_z(a) for a in args]
    pre = sum((z.pre for z in zs), [])
    v = tr.fresh()
    if len(zs) == 2:
        return E(v, Ty.Z, pre + [(v, f"py_pow {zs[0].text} {zs[1].text}")])
    if len(zs) == 3:
        return E(v, Ty.Z, pre + [(v, f"py_pow3 {zs[0].text} {zs[1].text} {zs[2].text}")])
    raise Unsupported("pow arity")


def _op(coq_fun):
    return {"fnvalue": coq_fun, "fnty": Ty.fn([Ty.Z, Ty.Z], Ty.Z)}


BUILTIN_BINDINGS = {
    "abs": {"special": _sp_abs},
    "min": {"special": _sp_minmax("min")},
    "max": {"special": _sp_minmax("max")},
    "int": {"special": _sp_int},
    "bool": {"special": _sp_bool},
    "len": {"special": _sp_len},
    "pow": {"special": _sp_pow},
    "operator.add": _op("(fun a b => Ok (a + b))"),
    "operator.sub": _op("(fun a b => Ok (a - b))"),
    "operator.mul": _op("(fun a b => Ok (a * b))"),
    "operator.eq": _op("(fun a b => Ok (b2z (a =? b)))"),
    "operator.lt": _op("(fun a b => Ok (b2z (a <? b)))"),
    "operator.gt": _op("(fun a b => Ok (b2z (a >? b)))"),
    "operator.or_": _op("(fun a b => Ok (Z.lor a b))"),
    "operator.and_": _op("(fun a b => Ok (Z.land a b))"),
    "operator.xor": _op("(fun a b => Ok (Z.lxor a b))"),
}
