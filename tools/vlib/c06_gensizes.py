"""Fail-closed mini-translator: vyper/abi_types.py size methods -> Gallina fixpoints over C06.Abi.ty.

The ABIType class hierarchy uses dynamic dispatch over a tree; py2coq handles flat int code, so this
module handles exactly the shape of abi_types.py: for every concrete class (bound to a constructor of
`ty` in BIND below) and every *virtual* method (is_dynamic, static_size, dynamic_size_bound) the method
body found by MRO lookup is translated to one match arm; non-virtual helpers defined on the base class
(embedded_static_size, embedded_dynamic_size_bound, size_bound) are inlined at their call sites.
Accepted statements: `return e`, `if c: return e` (followed by more statements), `raise` (only if the
branch is statically unreachable after constant folding of the class's own is_dynamic()).
Accepted expressions: int constants, True/False, self.<field>, <obj>.<method>(), + and *, `not`,
ceil32(e), any([x.m() for x in self.f]), sum([x.m() for x in self.f]).
Anything else raises Unsupported (= broken tie)."""
import ast

VIRTUAL = ["is_dynamic", "static_size", "dynamic_size_bound"]
HELPERS = ["embedded_static_size", "embedded_dynamic_size_bound", "size_bound"]
RET = {"is_dynamic": "bool", "static_size": "Z", "dynamic_size_bound": "Z", "embedded_static_size": "Z",
       "embedded_dynamic_size_bound": "Z", "size_bound": "Z"}

# Coq pattern -> (python class, constructor args as Coq terms / child markers)
#   "$t" marks a child type variable, "$ts" a child list variable
BIND = [
    ("TUInt bits", "ABI_GIntM", ["bits", "false"]),
    ("TInt bits", "ABI_GIntM", ["bits", "true"]),
    ("TBool", "ABI_Bool", []),
    ("TAddress", "ABI_Address", []),
    ("TBytesM m", "ABI_BytesM", ["m"]),
    ("TDecimal", "ABI_GIntM", ["168", "true"]),     # DecimalT.abi_type (checked against real types by the harness)
    ("TFlag _", "ABI_GIntM", ["256", "false"]),     # FlagT.abi_type
    ("TBytes b", "ABI_Bytes", ["b"]),
    ("TString b", "ABI_String", ["b"]),
    ("TSArr t' n", "ABI_StaticArray", ["$t'", "n"]),
    ("TDArr t' b", "ABI_DynamicArray", ["$t'", "b"]),
    ("TTuple ts", "ABI_Tuple", ["$$ts"]),
]

CEIL32_SRC = "def ceil32(x):\n    return x if x % 32 == 0 else x + 32 - (x % 32)"


class Unsupported(Exception):
    pass


class Unreachable(Exception):
    pass


class Gen:
    def __init__(self, path, utils_path):
        self.tree = ast.parse(open(path).read())
        self.classes = {}
        for node in self.tree.body:
            if isinstance(node, ast.ClassDef):
                bases = [b.id for b in node.bases if isinstance(b, ast.Name)]
                if len(bases) != len(node.bases) or len(bases) > 1:
                    raise Unsupported(f"class {node.name}: unsupported bases")
                methods = {f.name: f for f in node.body if isinstance(f, ast.FunctionDef)}
                self.classes[node.name] = (bases[0] if bases else None, methods)
        if "ABIType" not in self.classes:
            raise Unsupported("no ABIType base class")
        for h in HELPERS:
            for cname, (_, methods) in self.classes.items():
                if cname != "ABIType" and h in methods:
                    raise Unsupported(f"{cname} overrides non-virtual helper {h}")
            if h not in self.classes["ABIType"][1]:
                raise Unsupported(f"ABIType.{h} missing")
        # ceil32 binding: source must be the one g_ceil32 mirrors
        ut = ast.parse(open(utils_path).read())
        found = False
        for node in ut.body:
            if isinstance(node, ast.FunctionDef) and node.name == "ceil32":
                if ast.dump(node) != ast.dump(ast.parse(CEIL32_SRC).body[0]):
                    raise Unsupported("vyper.utils.ceil32 changed: " + ast.unparse(node))
                found = True
        if not found:
            raise Unsupported("vyper.utils.ceil32 not found")

    # -- class helpers
    def lookup(self, cname, meth):
        c = cname
        while c is not None:
            base, methods = self.classes[c]
            if meth in methods:
                return c, methods[meth]
            c = base
        raise Unsupported(f"{cname}.{meth} not found")

    def fields(self, cname, args):
        """evaluate the __init__ chain symbolically: field name -> Coq term / child marker"""
        c, init = self.lookup(cname, "__init__")
        params = [a.arg for a in init.args.args][1:]
        if len(params) != len(args):
            raise Unsupported(f"{c}.__init__ arity {len(params)} != binding {len(args)}")
        env = dict(zip(params, args))
        out = {}
        for st in init.body:
            if isinstance(st, ast.If):
                # validation guard: body must be a single raise (constructor preconditions = wf_ty)
                if not (len(st.body) == 1 and isinstance(st.body[0], ast.Raise) and not st.orelse):
                    raise Unsupported(f"{c}.__init__: unsupported if")
                continue
            if isinstance(st, ast.Assign) and len(st.targets) == 1 and isinstance(st.targets[0], ast.Attribute) \
                    and isinstance(st.targets[0].value, ast.Name) and st.targets[0].value.id == "self" \
                    and isinstance(st.value, ast.Name) and st.value.id in env:
                out[st.targets[0].attr] = env[st.value.id]
                continue
            if isinstance(st, ast.Return) and isinstance(st.value, ast.Call) and isinstance(st.value.func, ast.Attribute) \
                    and st.value.func.attr == "__init__" and isinstance(st.value.func.value, ast.Call) \
                    and isinstance(st.value.func.value.func, ast.Name) and st.value.func.value.func.id == "super":
                sargs = []
                for a in st.value.args:
                    if isinstance(a, ast.Constant) and isinstance(a.value, bool):
                        sargs.append("true" if a.value else "false")
                    elif isinstance(a, ast.Constant) and isinstance(a.value, int):
                        sargs.append(str(a.value))
                    elif isinstance(a, ast.Name) and a.id in env:
                        sargs.append(env[a.id])
                    else:
                        raise Unsupported(f"{c}.__init__: super arg {ast.unparse(a)}")
                base = self.classes[c][0]
                out.update(self.fields(base, sargs))
                continue
            raise Unsupported(f"{c}.__init__: unsupported statement {ast.unparse(st)}")
        return out

    # -- translation
    def call_on_child(self, child, meth, cur, defined):
        """child is a Coq variable of type ty; translate child.meth()"""
        if meth in VIRTUAL:
            if meth == cur or meth in defined:
                return f"(g_{meth} {child})"
            raise Unsupported(f"virtual method {meth} used before its fixpoint (while defining {cur})")
        if meth in HELPERS:
            _, f = self.lookup("ABIType", meth)
            return self.body(f.body, {"__self__": ("child", child)}, None, cur, defined, depth=0)
        raise Unsupported(f"call of unknown method {meth}")

    def expr(self, e, env, cname, cur, defined, depth):
        if depth > 8:
            raise Unsupported("inlining too deep")
        rec = lambda x: self.expr(x, env, cname, cur, defined, depth)  # noqa
        if isinstance(e, ast.Constant) and isinstance(e.value, bool):
            return "true" if e.value else "false"
        if isinstance(e, ast.Constant) and isinstance(e.value, int):
            return str(e.value)
        if isinstance(e, ast.BinOp) and isinstance(e.op, ast.Add):
            return f"({rec(e.left)} + {rec(e.right)})"
        if isinstance(e, ast.BinOp) and isinstance(e.op, ast.Mult):
            return f"({rec(e.left)} * {rec(e.right)})"
        if isinstance(e, ast.UnaryOp) and isinstance(e.op, ast.Not):
            x = rec(e.operand)
            return {"true": "false", "false": "true"}.get(x, f"(negb {x})")
        if isinstance(e, ast.Attribute) and isinstance(e.value, ast.Name) and e.value.id == "self":
            kind, val = env["__self__"]
            if kind != "class":
                raise Unsupported(f"field access on child: {ast.unparse(e)}")
            if e.attr not in val:
                raise Unsupported(f"unknown field {e.attr}")
            v = val[e.attr]
            if v.startswith("$"):
                raise Unsupported(f"child field {e.attr} used as a number")
            return v
        if isinstance(e, ast.Name) and e.id in env and env[e.id][0] == "local":
            return env[e.id][1]
        if isinstance(e, ast.Call) and isinstance(e.func, ast.Name) and e.func.id == "ceil32" and len(e.args) == 1:
            return f"(g_ceil32 {rec(e.args[0])})"
        if isinstance(e, ast.Call) and isinstance(e.func, ast.Name) and e.func.id in ("any", "sum") and len(e.args) == 1 \
                and isinstance(e.args[0], ast.ListComp):
            lc = e.args[0]
            if len(lc.generators) != 1 or lc.generators[0].ifs or not isinstance(lc.generators[0].target, ast.Name):
                raise Unsupported("comprehension shape")
            it = lc.generators[0].iter
            if not (isinstance(it, ast.Attribute) and isinstance(it.value, ast.Name) and it.value.id == "self"):
                raise Unsupported("comprehension source")
            kind, val = env["__self__"]
            src = val.get(it.attr) if kind == "class" else None
            if not src or not src.startswith("$$"):
                raise Unsupported("comprehension over non-child-list")
            var = "x" + str(depth)
            env2 = dict(env)
            env2[lc.generators[0].target.id] = ("childvar", var)
            body = self.expr(lc.elt, env2, cname, cur, defined, depth + 1)
            if e.func.id == "any":
                return f"(existsb (fun {var} => {body}) {src[2:]})"
            return f"(zsum (map (fun {var} => {body}) {src[2:]}))"
        if isinstance(e, ast.Call) and isinstance(e.func, ast.Attribute) and not e.args and not e.keywords:
            tgt, meth = e.func.value, e.func.attr
            # self.m()
            if isinstance(tgt, ast.Name) and tgt.id == "self":
                kind, val = env["__self__"]
                if kind == "child":
                    return self.call_on_child(val, meth, cur, defined)
                c, f = self.lookup(cname, meth)
                return self.body(f.body, env, cname, cur, defined, depth + 1)
            # x.m() for comprehension variable
            if isinstance(tgt, ast.Name) and tgt.id in env and env[tgt.id][0] == "childvar":
                return self.call_on_child(env[tgt.id][1], meth, cur, defined)
            # self.subtyp.m()
            if isinstance(tgt, ast.Attribute) and isinstance(tgt.value, ast.Name) and tgt.value.id == "self":
                kind, val = env["__self__"]
                if kind == "class" and val.get(tgt.attr, "").startswith("$") and not val[tgt.attr].startswith("$$"):
                    return self.call_on_child(val[tgt.attr][1:], meth, cur, defined)
            raise Unsupported(f"call target {ast.unparse(e)}")
        raise Unsupported(f"expression {ast.unparse(e)}")

    def body(self, stmts, env, cname, cur, defined, depth):
        """statements -> Coq expression.  Supports local `x = e` (let), if/return, raise."""
        if not stmts:
            raise Unsupported("fell off the end of a method")
        st, rest = stmts[0], stmts[1:]
        if isinstance(st, ast.Expr) and isinstance(st.value, ast.Constant) and isinstance(st.value.value, str):
            return self.body(rest, env, cname, cur, defined, depth)
        if isinstance(st, ast.Return) and st.value is not None:
            return self.expr(st.value, env, cname, cur, defined, depth)
        if isinstance(st, ast.Raise):
            raise Unreachable()
        if isinstance(st, ast.Assign) and len(st.targets) == 1 and isinstance(st.targets[0], ast.Name):
            v = self.expr(st.value, env, cname, cur, defined, depth)
            env2 = dict(env)
            name = st.targets[0].id
            env2[name] = ("local", f"l_{name}")
            return f"(let l_{name} := {v} in {self.body(rest, env2, cname, cur, defined, depth)})"
        if isinstance(st, ast.If) and not st.orelse:
            c = self.expr(st.test, env, cname, cur, defined, depth)
            if c == "true":
                return self.body(st.body, env, cname, cur, defined, depth)
            if c == "false":
                return self.body(rest, env, cname, cur, defined, depth)
            try:
                a = self.body(st.body, env, cname, cur, defined, depth)
                b = self.body(rest, env, cname, cur, defined, depth)
            except Unreachable:
                raise Unsupported("a raise is reachable under a non-constant condition: " + ast.unparse(st.test))
            return f"(if {c} then {a} else {b})"
        raise Unsupported(f"statement {ast.unparse(st)}")

    def fixpoint(self, meth, defined):
        arms = []
        for pat, cname, args in BIND:
            if cname not in self.classes:
                raise Unsupported(f"class {cname} missing")
            flds = self.fields(cname, args)
            env = {"__self__": ("class", flds)}
            c, f = self.lookup(cname, meth)
            try:
                rhs = self.body(f.body, env, cname, meth, defined, 0)
            except Unreachable:
                raise Unsupported(f"{cname}.{meth} raises")
            arms.append(f"  | {pat} => {rhs}   (* {c}.{meth} *)")
        return f"Fixpoint g_{meth} (t : ty) : {RET[meth]} :=\n  match t with\n" + "\n".join(arms) + "\n  end.\n"

    def helper(self, meth):
        _, f = self.lookup("ABIType", meth)
        rhs = self.body(f.body, {"__self__": ("child", "t")}, None, None, VIRTUAL, 0)
        return f"Definition g_{meth} (t : ty) : {RET[meth]} := {rhs}.\n"


def generate(path, utils_path):
    g = Gen(path, utils_path)
    out = ["(* GENERATED by tools/vlib/c06_gensizes.py from vyper/abi_types.py -- do not edit *)",
           "From Coq Require Import ZArith List Bool.", "From Verif Require Import C06.Abi.",
           "Import ListNotations.", "Open Scope Z_scope.", "",
           "(* vyper.utils.ceil32 (source text checked by the generator) *)",
           "Definition g_ceil32 (x : Z) : Z := if x mod 32 =? 0 then x else x + 32 - (x mod 32).", ""]
    defined = []
    for m in VIRTUAL:
        out.append(g.fixpoint(m, defined))
        defined.append(m)
    for h in HELPERS:
        out.append(g.helper(h))
    return "\n".join(out) + "\n"
