"""C12: create_from_blueprint fail-closed guard -- sweep on pyrevm + syntactic guard export for both generators.

Documented rule (docs/built-in-functions.rst, create_from_blueprint):
   "If code_offset >= target.codesize (ex. if there is no code at target), execution will revert."
   "Performs an EXTCODESIZE check to check there is code at target"
   otherwise initcode = code(target)[code_offset:] ++ (ABI-encoded ctor args | raw_args buffer) is run by CREATE / CREATE2;
   constructor failure reverts (revert_on_failure=True) or yields the zero address.

Part 1 (run_config): code_offset x target x ctor-args shape x salt x revert_on_failure, expectation computed from the rule
alone (the CREATE outcome of an in-range slice is obtained by deploying that very initcode from an EOA on the same EVM).
Part 2 (observe): the asserts that both generators emit between EXTCODESIZE and CREATE are exported as s-expressions
(legacy: CreateFromBlueprint.build_IR on symbolic operands; venom: probe contracts lowered by the real front end, backward
slices) into GenBp.v; TieBp.v demands kernel equality with the generator template proved exact in BpGuardProofs.v."""
import types

from vlib import configs
from vlib.coqrun import hexlit
from vlib.evm import Chain

W = 2**256
HUGE = [2**255 - 1, 2**255, 2**255 + 1, W - 1]     # code_offset far beyond any code size (both signs of the signed difference)

# (name, ctor-args shape, has code_offset parameter, salt, revert_on_failure)
FUNS = [
    ("bp0", "none", True, False, True), ("bp0_n", "none", True, False, False), ("bp0_s", "none", True, True, True),
    ("bp1", "one", True, False, True), ("bp1_n", "one", True, False, False), ("bp1_s", "one", True, True, True),
    ("bp1_sn", "one", True, True, False),
    ("bp3", "many", True, False, True), ("bp3_sn", "many", True, True, False),
    ("bpr", "raw", True, False, True), ("bpr_n", "raw", True, False, False), ("bpr_s", "raw", True, True, True),
    ("bpd0", "none", False, False, True), ("bpd1", "one", False, False, True), ("bpd1_n", "one", False, False, False),
    ("bpdr", "raw", False, True, True),
]


def source():
    src = ""
    for name, shape, has_off, salt, R in FUNS:
        params = ["t: address"] + (["off: uint256"] if has_off else [])
        call = ["t"]
        if shape == "one":
            params.append("a: uint256")
            call.append("a")
        elif shape == "many":
            params += ["a: uint256", "b: address", "c: Bytes[40]"]
            call += ["a", "b", "c"]
        elif shape == "raw":
            params.append("d: Bytes[96]")
            call += ["d", "raw_args=True"]
        if has_off:
            call.append("code_offset=off")
        if salt:
            params.append("s: bytes32")
            call.append("salt=s")
        if not R:
            call.append("revert_on_failure=False")
        src += f"@external\ndef {name}({', '.join(params)}) -> address:\n    return create_from_blueprint({', '.join(call)})\n\n"
    return src


SRC = source()

# runtime returning 42; initcode deploying it whatever is appended
RUNTIME = bytes.fromhex("602a60005260206000f3")
INITCODE = b"\x69" + RUNTIME + bytes.fromhex("600052600a6016f3")
ERC5202 = bytes.fromhex("fe7100")
TARGET_CODE = {"no_code": b"", "preamble_only": ERC5202, "blueprint_5202": ERC5202 + INITCODE, "blueprint_raw": INITCODE,
               "one_byte": b"\x00"}
NO_CODE = "0x" + "00" * 17 + "c0de12"


def compile_bp(cfg):
    try:
        out = configs.compile_src(SRC, cfg, formats=("bytecode", "method_identifiers"))
        return {"ok": True, "bytecode": out["bytecode"], "mi": out["method_identifiers"]}
    except Exception as e:
        return {"ok": False, "error": f"{type(e).__name__}: {e}"[:2000]}


def _enc(types_, vals):
    from eth_abi import encode
    return encode(types_, vals)


def arg_values(shape, rnd):
    """-> list of (python args, ABI types, bytes appended to the blueprint code)"""
    word_init = int.from_bytes(INITCODE.ljust(32, b"\x00"), "big")    # a uint256 that is itself valid initcode
    if shape == "none":
        return [((), (), b"")]
    if shape == "one":
        out = []
        for a in (0, word_init, rnd.randrange(W)):
            out.append(((a,), ("uint256",), a.to_bytes(32, "big")))
        return out
    if shape == "many":
        a, b, c = rnd.randrange(W), "0x" + bytes(rnd.randrange(256) for _ in range(20)).hex(), bytes(rnd.randrange(256) for _ in range(rnd.randrange(41)))
        return [((a, b, c), ("uint256", "address", "bytes"), _enc(("uint256", "address", "bytes"), (a, b, c)))]
    if shape == "raw":
        return [((d,), ("bytes",), d) for d in (b"", b"\x00", INITCODE, bytes(rnd.randrange(256) for _ in range(96)))]
    raise ValueError(shape)


def offsets(n, rnd):
    return sorted({0, 1, 3, n, n + 1, max(n - 1, 0), n + 32, rnd.randrange(2, 70)}) + HUGE


def run_config(cfg, bd, rnd):
    """-> (evaluations, distinct must-revert cases, reports[(kind, name, detail)])"""
    from vyper.utils import method_id_int

    ch = Chain(cfg.evm)
    factory = ch.deploy(bytes.fromhex(bd["bytecode"][2:]))
    if factory is None:
        return 0, 0, [("correspondence-broken", f"blueprint factory cannot be deployed under {cfg.name}", {"config": cfg.name})]
    T = {k: (ch.set_code(None, c) if c else NO_CODE) for k, c in TARGET_CODE.items()}
    for k, c in TARGET_CODE.items():
        got = ch.code(T[k])
        assert got[:len(c)] == c and got[len(c):].strip(b"\0") == b"", (k, got.hex())
    sigs = {k.split("(")[0]: (k, int(v, 16).to_bytes(4, "big")) for k, v in bd["mi"].items()}
    n = must = 0
    reports = []
    create_cache = {}

    def plain_create(init):
        """what CREATE does with this initcode on this EVM (independent of the compiler): runtime bytes | None"""
        if init not in create_cache:
            sid = ch.snapshot()
            try:
                a = ch.deploy(init)
                create_cache[init] = None if a is None else ch.code(a).rstrip(b"\0")
            finally:
                ch.revert(sid)
        return create_cache[init]

    for name, shape, has_off, salt, R in FUNS:
        sig, sel = sigs[name]
        types_ = sig[sig.index("(") + 1:-1].split(",")
        for tname, code in TARGET_CODE.items():
            size = len(code)
            for off in (offsets(size, rnd) if has_off else [None]):
                eff = 3 if off is None else off
                for pargs, _pt, appended in arg_values(shape, rnd):
                    if eff >= size:
                        expected = ("revert", None)
                        must += 1
                    else:
                        rt = plain_create(code[eff:] + appended)
                        expected = ("revert", None) if (rt is None and R) else ("zero", None) if rt is None else ("deploys", rt)
                    vals = [T[tname]] + ([off] if has_off else []) + list(pargs)
                    s = bytes(rnd.randrange(256) for _ in range(32))
                    if salt:
                        vals.append(s)
                    cd = sel + _enc(types_, vals)
                    sid = ch.snapshot()
                    try:
                        r = ch.call(factory, cd)
                        if not r.ok:
                            observed = ("revert", None)
                        else:
                            addr = "0x" + r.out[12:32].hex()
                            if int(addr, 16) == 0:
                                observed = ("zero", None)
                            else:
                                observed = ("deploys", ch.code(addr).rstrip(b"\0"))
                    finally:
                        ch.revert(sid)
                    n += 1
                    if observed != expected:
                        show = lambda x: x[0] + ("" if x[1] is None else " runtime 0x" + x[1].hex())  # noqa
                        why = ("code_offset >= target.codesize: must revert" if eff >= size else
                               "initcode = code(target)[code_offset:] ++ constructor args")
                        reports.append(("failing-input",
                                        f"{name}: create_from_blueprint(target={tname}, codesize {size}, code_offset="
                                        f"{'default 3' if off is None else off}, ctor args {shape} {len(appended)} bytes): expected "
                                        f"{show(expected)}, observed {show(observed)}",
                                        {"config": cfg.name, "function": name, "case": f"{tname}:{shape}", "signature": sig,
                                         "target": tname, "target_code_hex": code.hex(), "target_codesize": size,
                                         "code_offset": "default (3)" if off is None else off,
                                         "ctor_args": [x.hex() if isinstance(x, bytes) else x for x in pargs],
                                         "appended_bytes_hex": appended.hex(), "salt": s.hex() if salt else None,
                                         "revert_on_failure": R, "calldata_hex": cd.hex(), "rule": why,
                                         "class": "signed-difference-wraps" if (off is not None and off > size + 2**255
                                                                                and expected[0] == "revert") else "in-range",
                                         "expected": show(expected), "observed": show(observed), "caller_source": SRC,
                                         "how": "compile caller_source under the configuration, deploy; install target_code_hex at an "
                                                "address (empty = untouched address); send calldata_hex to the factory"}))
    return n, must, reports


# ------------------------------------------------------------------ syntactic export of the guards
FAMILY = [(shape, salt, R, off) for shape in ("none", "one", "many", "raw") for salt in (False, True) for R in (True, False)
          for off in ("lit3", "lit0", "var")]


def _sx(node):
    v = node.value
    if isinstance(v, int):
        return f"SL {hexlit(v % W)}"
    return f'SN "{v}" [' + "; ".join(_sx(a) for a in node.args) + "]"


def legacy_guards(shape, salt, R, off):
    """every assert executed before the CREATE of CreateFromBlueprint.build_IR on symbolic operands, `with` variables
    inlined -> list of s-expression strings (the asserted conditions)"""
    from vyper.builtins.functions import DISPATCH_TABLE, zero_value
    from vyper.codegen.ir_node import IRnode
    from vyper.evm.address_space import MEMORY
    from vyper.semantics.types import AddressT, BytesT
    from vyper.semantics.types.shortcuts import BYTES32_T, UINT256_T
    from vlib.c12_sites import _context, _symn

    fn = DISPATCH_TABLE["create_from_blueprint"]
    ofs = {"lit3": IRnode.from_list(3, typ=UINT256_T), "lit0": IRnode.from_list(0, typ=UINT256_T),
           "var": _symn("ofs_sym", UINT256_T)}[off]
    kwargs = {"value": zero_value, "salt": _symn("salt_sym", BYTES32_T), "revert_on_failure": R,
              "raw_args": shape == "raw", "code_offset": ofs}
    args = [_symn("to_sym", AddressT())]
    if shape == "one":
        args.append(_symn("x_sym", UINT256_T))
    elif shape == "many":
        args += [_symn("x_sym", UINT256_T), _symn("y_sym", AddressT()), _symn("data_sym", BytesT(40), MEMORY)]
    elif shape == "raw":
        args.append(_symn("data_sym", BytesT(96), MEMORY))
    expr = types.SimpleNamespace(keywords=[types.SimpleNamespace(arg="salt")] if salt else [])
    ir = IRnode.from_list(type(fn).build_IR.__wrapped__(fn, expr, args, kwargs, _context()))
    guards, ncreate = [], [0]

    def subst(n, env):
        if not n.args and isinstance(n.value, str) and n.value in env:
            return env[n.value]
        if n.value == "with":
            inner = dict(env)
            inner[n.args[0].value] = subst(n.args[1], env)
            return subst(n.args[2], inner)
        return IRnode.from_list([n.value] + [subst(a, env) for a in n.args]) if n.args else n

    def walk(n, env):
        """execution order; collects asserts until the create opcode"""
        if ncreate[0]:
            return
        if n.value == "with":
            walk(n.args[1], env)
            inner = dict(env)
            inner[n.args[0].value] = subst(n.args[1], env)
            walk(n.args[2], inner)
            return
        if n.value in ("create", "create2"):
            for a in n.args:
                walk(a, env)
            ncreate[0] += 1
            return
        if n.value == "assert":
            guards.append(_sx(subst(n.args[0], env)))
            return
        if n.value in ("if", "repeat"):
            walk(n.args[0], env)
            return   # conditional code: not a guard of every execution
        for a in n.args:
            walk(a, env)

    walk(ir, {})
    if ncreate[0] != 1:
        raise ValueError("no create opcode reached in create_from_blueprint IR")
    return [g for g in guards if "extcodesize" in g]


def _probe(shape, salt, R, off):
    from vlib.c12_sites import SALT_LIT
    call = ["self.t"] + {"none": [], "one": ["x"], "many": ["x", "self.t", "e"], "raw": ["d", "raw_args=True"]}[shape]
    call += {"lit3": [], "lit0": ["code_offset=0"], "var": ["code_offset=o"]}[off]
    call += ([f"salt={SALT_LIT}"] if salt else []) + ([] if R else ["revert_on_failure=False"])
    return ("@external\n@payable\ndef a(d: Bytes[96], e: Bytes[40], x: uint256, o: uint256) -> address:\n"
            f"    return create_from_blueprint({', '.join(call)})\n")


def venom_guards(shape, salt, R, off, evm="cancun"):
    """asserts between the EXTCODESIZE of the target and the CREATE in the lowered probe (before any pass), as backward
    slices; calldata-derived operands are named by their origin (`ofs_sym` = the code_offset parameter)"""
    from vyper.venom.basicblock import IRLabel, IRLiteral
    from vlib.c12_sites import _compile

    ctx = _compile(_probe(shape, salt, R, off), evm)
    defs, order = {}, []
    for fn in ctx.functions.values():
        for bb in fn.get_basic_blocks():
            for inst in bb.instructions:
                for o in inst.get_outputs():
                    defs[o.name] = inst
                order.append(inst)
    ext = [i for i, x in enumerate(order) if x.opcode == "extcodesize"]
    cre = [i for i, x in enumerate(order) if x.opcode in ("create", "create2")]
    if len(ext) != 1 or len(cre) != 1 or ext[0] > cre[0]:
        raise ValueError(f"expected one extcodesize before one create, found {len(ext)} / {len(cre)}")

    def const(o):
        if isinstance(o, IRLiteral):
            return o.value
        d = defs.get(getattr(o, "name", None))
        if d is not None and d.opcode == "add":
            a, b = const(d.operands[0]), const(d.operands[1])
            return None if a is None or b is None else a + b
        return None

    def param_pos(ptr):
        d = defs.get(getattr(ptr, "name", None))
        if d is None or d.opcode != "alloca":
            return None
        stores = [x for x in order if x.opcode == "mstore" and getattr(x.operands[1], "name", None) == ptr.name]
        if len(stores) != 1:
            return None
        v = defs.get(getattr(stores[0].operands[0], "name", None))
        if v is None or v.opcode != "calldataload":
            return None
        return const(v.operands[0])

    def tree(o, depth=0):
        if isinstance(o, IRLiteral):
            return f"SL {hexlit(o.value % W)}"
        if isinstance(o, IRLabel) or depth > 10:
            return 'SN "ext" []'
        d = defs.get(o.name)
        if d is None:
            return 'SN "ext" []'
        if d.opcode == "extcodesize":
            return 'SN "extcodesize" [SN "to_sym" []]'
        if d.opcode == "mload":
            # a parameter spilled to its alloca: name it by the calldata position it was loaded from
            # (probe signature a(d, e, x, o): code_offset `o` is the 4th head slot = calldata offset 4 + 96)
            pos = param_pos(d.operands[0])
            if pos is not None:
                return 'SN "ofs_sym" []' if pos == 4 + 96 else f'SN "cd_{pos}" []'
        if d.opcode in ("add", "sub", "sgt", "slt", "gt", "lt", "iszero", "eq", "or", "and", "xor", "mul", "assign", "store"):
            if d.opcode in ("assign", "store"):
                return tree(d.operands[0], depth + 1)
            return f'SN "{d.opcode}" [' + "; ".join(tree(x, depth + 1) for x in reversed(d.operands)) + "]"
        return f'SN "opaque_{d.opcode}" []'

    out = []
    for inst in order[ext[0]:cre[0]]:
        if inst.opcode == "assert":
            out.append(tree(inst.operands[0]))
    # every assert that depends on the code size is a guard of the site; the others (argument clamps) are not
    return [g for g in out if "extcodesize" in g]


def observe():
    """-> (GenBp.v text, number of exported sites)"""
    from vyper.compiler.settings import Settings, anchor_settings

    b = lambda x: "true" if x else "false"  # noqa
    lines = ["(* GENERATED by tools/vlib/c12_bp.py from the real generators. *)",
             "From Coq Require Import ZArith List String.", "From Verif Require Import C12.CallTpl C12.BpGuard.",
             "Import ListNotations.", "Open Scope string_scope.", "Open Scope Z_scope."]
    n = 0
    items = []
    with anchor_settings(Settings(evm_version="cancun")):
        for shape, salt, R, off in FAMILY:
            items.append(f'(("{shape}", {b(salt)}, {b(R)}, "{off}"), [{"; ".join(legacy_guards(shape, salt, R, off))}])')
            n += 1
    lines.append("Definition obs_bp_legacy : list ((string * bool * bool * string) * list sx) :=\n [" + ";\n  ".join(items) + "].")
    items = []
    for shape, salt, R, off in FAMILY:
        items.append(f'(("{shape}", {b(salt)}, {b(R)}, "{off}"), [{"; ".join(venom_guards(shape, salt, R, off))}])')
        n += 1
    lines.append("Definition obs_bp_venom : list ((string * bool * bool * string) * list sx) :=\n [" + ";\n  ".join(items) + "].")
    return "\n".join(lines) + "\n", n
