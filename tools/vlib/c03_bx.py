"""C03 extension (session 3): as_wei_value / floor / ceil / min / max -- O-tie exporter, template differential, glue probes.

The programs are typed by the REAL front end (parse + semantic analysis of one probe module per numeric type); the REAL
generators are then called on the annotated call nodes with a symbolic operand:
  legacy: `type(DISPATCH_TABLE[id]).build_IR.__wrapped__` (the body under @process_inputs) with the IR variables x / y,
  venom : `codegen_venom.builtins.BUILTIN_HANDLERS[id]` (the dispatch table `lower_builtin` uses) with the parameters %1 / %2.
Family: as_wei_value for 65 numeric types x 17 unit names (1105), floor, ceil, min / max for 65 types (130)."""
import types
from unittest import mock

from vlib import c03_export as X

# unit names in the order of coq/C03/BxModel.v `wei_units`; the denominations are NOT read from /repo here: the expected
# value of each name is part of the specification (BxModel.v) and the exported template carries the literal the generator used
UNITS = ["wei", "femtoether", "kwei", "babbage", "picoether", "mwei", "lovelace", "nanoether", "gwei", "shannon",
         "microether", "szabo", "milliether", "finney", "ether", "kether", "grand"]
DENOM = {"wei": 1, "femtoether": 10**3, "kwei": 10**3, "babbage": 10**3, "picoether": 10**6, "mwei": 10**6, "lovelace": 10**6,
         "nanoether": 10**9, "gwei": 10**9, "shannon": 10**9, "microether": 10**12, "szabo": 10**12, "milliether": 10**15,
         "finney": 10**15, "ether": 10**18, "kether": 10**21, "grand": 10**21}
DIVISOR = 10**10


def probe_module(T, is_dec):
    """one module per type: w<i> = as_wei_value(a, UNITS[i]); mn / mx = min / max; fl / ce = floor / ceil (decimal only)"""
    src = "".join(f"@external\ndef w{i}(a: {T}) -> uint256:\n    return as_wei_value(a, \"{u}\")\n\n" for i, u in enumerate(UNITS))
    src += f"@external\ndef mn(a: {T}, b: {T}) -> {T}:\n    return min(a, b)\n\n@external\ndef mx(a: {T}, b: {T}) -> {T}:\n    return max(a, b)\n\n"
    if is_dec:
        src += "@external\ndef fl(a: decimal) -> int256:\n    return floor(a)\n\n@external\ndef ce(a: decimal) -> int256:\n    return ceil(a)\n\n"
    return src


def annotated_calls(src):
    """{function name: the builtin Call node in its body}, typed by the real front end"""
    from vyper import ast as vy_ast
    from vyper.compiler.phases import CompilerData
    from vyper.compiler.settings import OptimizationLevel, Settings
    mod = CompilerData(src, settings=Settings(optimize=OptimizationLevel.GAS, enable_decimals=True)).annotated_vyper_module
    out = {}
    for fn in mod.get_children(vy_ast.FunctionDef):
        calls = [c for c in fn.get_descendants(vy_ast.Call)]
        if len(calls) != 1:
            raise X.ExportError(f"probe function {fn.name}: {len(calls)} calls")
        out[fn.name] = calls[0]
    return out


def legacy_template(call):
    from vyper.builtins import functions as BF
    from vyper.codegen.ir_node import IRnode
    inst = BF.DISPATCH_TABLE[call.func.id]
    f = type(inst).build_IR
    if not hasattr(f, "__wrapped__"):
        raise X.ExportError(f"{call.func.id}.build_IR is not under @process_inputs any more")
    args = []
    for i, a in enumerate(call.args):
        t = a._metadata["type"]
        # the unit string of as_wei_value is read from the node (get_denomination), never from its IR
        args.append(IRnode.from_list("xy"[i], typ=t) if getattr(t, "_is_prim_word", False) else None)
    return f.__wrapped__(inst, call, args, {}, None)


def venom_template(call):
    from vyper.codegen_venom import builtins as VB
    from vyper.codegen_venom import expr as VE
    nargs = sum(1 for a in call.args if getattr(a._metadata["type"], "_is_prim_word", False))

    def g(b, *ps):
        class FakeExpr:
            def __init__(self, n, c):
                self.i = [a is n for a in call.args].index(True)

            def lower_value(self):
                return ps[self.i]

        with mock.patch.object(VE, "Expr", FakeExpr):
            r = VB.BUILTIN_HANDLERS[call.func.id](call, types.SimpleNamespace(builder=b))
        op = getattr(r, "operand", None)
        return r if op is None else op
    return X.venom_recordn(g, nargs)


def bx_family():
    """-> [(coq xfn term, python key, arity, legacy IRnode, (venom instrs, result))] in the order of BxTie.v `xkeys`"""
    out = []
    bl = lambda v: "true" if v else "false"  # noqa
    per_type = [((k, s, d), annotated_calls(probe_module(T, d))) for k, s, d, T in X.num_types()]
    with X.settings_ctx():
        for (k, s, d), calls in per_type:
            for i, u in enumerate(UNITS):
                c = calls[f"w{i}"]
                lt, vt = legacy_template(c), venom_template(c)
                # the denomination the generator used = the literal the spec prescribes for this unit name (checked by the
                # kernel: the key below carries the EXPECTED denomination, the template the one the generator used)
                out.append((f"(XWei {X.nty(k, s, d)} {X.zl(DENOM[u])})", ("wei", (k, s, d), u), 1, lt, vt))
        for (k, s, d), calls in per_type:
            if d:
                out.append(("XFloor", ("floor",), 1, legacy_template(calls["fl"]), venom_template(calls["fl"])))
                out.append(("XCeil", ("ceil",), 1, legacy_template(calls["ce"]), venom_template(calls["ce"])))
        for (k, s, d), calls in per_type:
            for mxf, nm in ((False, "mn"), (True, "mx")):
                out.append((f"(XMinMax {bl(mxf)} {X.nty(k, s, d)})", ("max" if mxf else "min", (k, s, d)), 2,
                            legacy_template(calls[nm]), venom_template(calls[nm])))
    return out


def unit_table_check():
    """the unit names the real builtin accepts must be exactly UNITS (a new / renamed unit is outside the proved family)"""
    from vyper.builtins.functions import AsWeiValue
    names = [n for ks in AsWeiValue.wei_denoms for n in ks]
    return sorted(names) == sorted(UNITS), names


def gen_bx():
    fam = bx_family()
    lines = [X.HEADER.replace("C03.ArithSpec.", "C03.ArithSpec C03.BxModel.")]
    lines.append("Definition legacy_bx : list (xfn * lir) := [\n" +
                 ";\n".join(f"  ({c}, {X.lir_term(lt)})" for c, _, _, lt, _ in fam) + "\n].\n")
    lines.append("Definition venom_bx : list (xfn * vtemplate) := [\n" +
                 ";\n".join(f"  ({c}, {X.vtemplate_term(*vt)})" for c, _, _, _, vt in fam) + "\n].\n")
    return "\n".join(lines), fam


# ====================================================================================================================
# the check part: build, template differential (real back ends on pyrevm vs Coq evaluators vs spec), glue probes through
# the full compiler, Search when the tie is broken
# ====================================================================================================================
STATIC_BX = ["C03/BxModel.v", "C03/BxExact.v", "C03/BxTie.v"]
CHAIN_BX = ["C03/GenBx.v", "C03/TieBx.v", "C03/PropsBx.v"]
BX_PRELUDE = "From Verif Require Import Base.Word256 C03.LIR C03.VSL C03.ArithSpec C03.BxModel C03.BxTie.\n"
W = 2**256


def generate_and_build(ctx, static, b0):
    """regenerate GenBx.v from the current tree, build the static part and the Gen/Tie/Props chain (content-keyed reuse)"""
    from vlib.common import COQ
    st = {"fam": None, "gen_err": None, "units_ok": True, "unit_names": None,
          "b": {"ok": False, "file": "C03/GenBx.v", "failed_lemma": None, "out": ""}, "static_ok": False}
    try:
        text, fam = gen_bx()
        (COQ / "C03" / "GenBx.v").write_text(text)
        st["fam"] = fam
    except Exception as e:  # noqa
        st["gen_err"] = f"as_wei_value/floor/ceil/min/max export: {type(e).__name__}: {e}"[:800]
        st["b"]["out"] = st["gen_err"]
    try:
        st["units_ok"], st["unit_names"] = unit_table_check()
    except Exception as e:  # noqa
        st["units_ok"], st["unit_names"] = False, [f"{type(e).__name__}: {e}"]
    if b0.get("ok"):
        bs = ctx.coq_build_cached(STATIC_BX, deps=static)
        st["static_ok"] = bs["ok"]
        if not bs["ok"]:
            st["b"] = bs
        elif st["fam"]:
            st["b"] = ctx.coq_build_cached(CHAIN_BX, deps=list(static) + STATIC_BX)
    ctx.assumptions.append("as_wei_value / floor / ceil / min / max: the operand is a (non-literal) value in a variable; the unit table "
                           "(17 names -> denominations, BxModel.v wei_units) is part of the specification")
    if st["fam"]:
        ctx.extra.setdefault("family_size", {})
        ctx.extra["family_size"]["bx_templates_per_generator"] = len(st["fam"])
        if st["b"]["ok"] and isinstance(ctx.extra.get("syntactic_matches"), int):
            ctx.extra["syntactic_matches"] += 2 * len(st["fam"])
    return st


def snippet_code(kind, t, arity):
    """runtime code running the exported template on calldata words 0.. (x, y / %1 %2) through the REAL back end"""
    from vyper.codegen.ir_node import IRnode
    from vyper.compiler.settings import OptimizationLevel, Settings, VenomOptimizationFlags, anchor_settings
    from vyper.evm.assembler.core import assembly_to_evm
    if kind == "legacy":
        from vyper.ir import compile_ir
        with X.settings_ctx():
            ir = ["seq", ["mstore", 0, t], ["return", 0, 32]]
            for i in reversed(range(arity)):
                ir = ["with", "xy"[i], ["calldataload", 32 * i], ir]
            asm = compile_ir.compile_to_assembly(IRnode.from_list(ir), OptimizationLevel.NONE)
            code, _ = assembly_to_evm(asm)
        return code
    from vyper.venom import generate_assembly_experimental, run_passes_on
    from vyper.venom.parser import parse_venom
    ins, r = t
    body = "\n".join("  " + str(i).rstrip() for i in ins)
    params = "".join(f"  %{i + 1} = calldataload {32 * i}\n" for i in range(arity))
    text = f"function main {{\nmain:\n{params}{body}\n  mstore 0, {r}\n  return 0, 32\n}}\n"
    with anchor_settings(Settings(optimize=OptimizationLevel.NONE)):
        vctx = parse_venom(text)
        run_passes_on(vctx, VenomOptimizationFlags(level=OptimizationLevel.NONE), disable_mem_checks=True)
        asm = generate_assembly_experimental(vctx, OptimizationLevel.NONE)
        code, _ = assembly_to_evm(asm)
    return code


def ty_bounds(ty):
    k, s, d = ty
    bits = 8 * k
    return (-(2**(bits - 1)), 2**(bits - 1) - 1) if s else (0, 2**bits - 1)


def wei_values(ty, dn, rnd):
    """in-range argument values around every boundary of as_wei_value: sign, zero, the points where value * denom crosses
    2^255 (a product that is negative as a SIGNED word but a legitimate uint256) and 2^256, type bounds, rounding (decimal)"""
    lo, hi = ty_bounds(ty)
    c = {0, 1, 2, 7, -1, -2, lo, lo + 1, hi, hi - 1, hi // 2, hi // 3, rnd.randrange(lo, hi + 1), rnd.randrange(0, hi + 1)}
    for bound in (2**255, 2**256):
        q = bound // dn
        c |= {q + d_ for d_ in (-2, -1, 0, 1, 2)}
    c |= {(2**255 + 2**254) // dn, (2**255 + rnd.randrange(2**255)) // dn, 2**256 // dn + rnd.randrange(1, 2**64)}
    if ty[2]:
        c |= {DIVISOR - 1, DIVISOR, DIVISOR + 1, 122 * 10**9, 13370000000, 5 * 10**9, DIVISOR // dn if dn <= DIVISOR else 1,
              (DIVISOR // dn if dn <= DIVISOR else 1) - 1, 3 * DIVISOR + 1, -DIVISOR}
    return sorted(v for v in c if lo <= v <= hi)


def dec_values(rnd):
    lo, hi = ty_bounds((21, True, True))
    c = {0, 1, -1, 2, -2, DIVISOR, -DIVISOR, DIVISOR - 1, DIVISOR + 1, -DIVISOR + 1, -DIVISOR - 1, 5 * 10**9, -5 * 10**9, 15 * 10**9,
         -15 * 10**9, 15 * 10**9 + 1, lo, lo + 1, hi, hi - 1, lo // DIVISOR * DIVISOR, hi // DIVISOR * DIVISOR, rnd.randrange(lo, hi + 1),
         rnd.randrange(lo, hi + 1), rnd.randrange(-10**12, 10**12)}
    return sorted(v for v in c if lo <= v <= hi)


def cases_for(key, rnd):
    from vlib.c03_lib import type_grid
    if key[0] == "wei":
        return [[v] for v in wei_values(key[1], DENOM[key[2]], rnd)]
    if key[0] in ("floor", "ceil"):
        return [[v] for v in dec_values(rnd)]
    g = type_grid(key[1], rnd, 8)
    return [[a, b] for a in g for b in g]


def pll(cs):
    return "[" + "; ".join("[" + "; ".join(X.zl(v) for v in c) + "]" for c in cs) + "]"


def key_name(key):
    from vlib.c03_lib import tyname
    if key[0] == "wei":
        return f'as_wei_value({tyname(key[1])}, "{key[2]}")'
    if key[0] in ("floor", "ceil"):
        return f"{key[0]}(decimal)"
    return f"{key[0]}({tyname(key[1])}, {tyname(key[1])})"


def template_differential(ctx, fam, sample, force=()):
    """exported templates compiled by the REAL back ends (compile_ir / venom -O none + assembler), executed on pyrevm, vs the
    Coq evaluators (leval / vrun) vs the Coq spec; doubles as the Search when the tie is broken"""
    from vlib.c03_lib import call_word, compare_rows, word
    from vlib.evm import Chain
    rnd = ctx.rng("bx-templates")
    chain = Chain("cancun")
    force = set(force)
    rows, meta, n_eval = [], [], 0
    for j, (cterm, key, arity, lt, vt) in enumerate(fam):
        for kind, t in (("legacy", lt), ("venom", vt)):
            if not ((kind, j) in force or rnd.random() < sample):
                continue
            cs = cases_for(key, rnd)
            try:
                addr = chain.set_code(None, snippet_code(kind, t, arity))
            except Exception as e:  # noqa
                # the real back end refuses this (changed) template: nothing to execute; the broken tie is reported by verdict()
                ctx.log(f"bx template {key_name(key)} ({kind}) does not compile: {type(e).__name__}: {e}"[:300])
                continue
            obs = [call_word(chain, addr, b"".join(word(v) for v in c)) for c in cs]
            n_eval += len(cs)
            pl = pll(cs)
            rows.append({"spec": f"xspecs {cterm} {pl}",
                         "model": f"xlevs {X.lir_term(t)} {pl}" if kind == "legacy" else f"xvevs {X.vtemplate_term(*t)} {pl}",
                         "obs": obs})
            meta.append((kind, j, key, t, cs, obs))
    failing, bad_model = [], []
    if rows:
        res = compare_rows(BX_PRELUDE, rows, "c03bx", shard=60)
        for (kind, j, key, t, cs, obs), (sm, mm) in zip(meta, res):
            for i, e, _ in sm[:1]:
                failing.append((kind, j, key, cs[i] if 0 <= i < len(cs) else None, e, obs[i] if 0 <= i < len(obs) else None, t))
            for i, e, _ in mm[:1]:
                bad_model.append((kind, key, cs[i] if 0 <= i < len(cs) else None, e, obs[i] if 0 <= i < len(obs) else None))
    ctx.corr["bx_template_cases"] = n_eval
    ctx.corr["bx_templates_run"] = len(rows)
    return n_eval, failing, bad_model


def mismatching():
    """indices of the exported templates that differ from the proved models (needs GenBx.vo + the static BxTie.vo)"""
    from vlib import coqrun
    try:
        out = coqrun.eval_zlists("From Verif Require Import C03.TieModels C03.BxModel C03.BxTie C03.GenBx.\n",
                                 ["bad_idx xtie_l 0 legacy_bx", "bad_idx xtie_v 0 venom_bx"], "c03badbx", timeout=300)
        return {("legacy", j) for j in out[0]} | {("venom", j) for j in out[1]}
    except Exception:  # noqa
        return None


# ---------------------------------------------------------------- glue: probe contracts through the full compiler
def glue_source(ty, units, with_minmax, with_nested):
    from vlib.c03_lib import tyname
    T = tyname(ty)
    src = "".join(f"@external\ndef w{UNITS.index(u)}(a: {T}) -> uint256:\n    return as_wei_value(a, \"{u}\")\n\n" for u in units)
    if with_nested and units:
        # a complex (cached) operand: cache_when_complex("value") / a Venom temporary
        src += f"@external\ndef wn(a: {T}, b: {T}) -> uint256:\n    return as_wei_value(max(a, b), \"{units[-1]}\")\n\n"
        src += f"s: {T}\n\n@external\ndef ws(a: {T}) -> uint256:\n    self.s = a\n    return as_wei_value(self.s, \"{units[-1]}\")\n\n"
    if with_minmax:
        src += f"@external\ndef mn(a: {T}, b: {T}) -> {T}:\n    return min(a, b)\n\n@external\ndef mx(a: {T}, b: {T}) -> {T}:\n    return max(a, b)\n\n"
    if ty[2]:
        src += "@external\ndef fl(a: decimal) -> int256:\n    return floor(a)\n\n@external\ndef ce(a: decimal) -> int256:\n    return ceil(a)\n\n"
    return src


def glue(ctx, plan, cfgs, tag=""):
    """plan: [(ty, [units], with_minmax, with_nested)].  Every probe function under every configuration on pyrevm vs the Coq
    spec (x_spec, evaluated by vm_compute).  -> (evaluations, failing inputs as dicts with source / config / calldata)"""
    from vlib.c03_lib import call_word, compare_rows, type_grid, tyname, word
    from vlib.configs import compile_src
    from vlib.evm import Chain
    rnd = ctx.rng("bx-glue" + tag)
    bl = lambda v: "true" if v else "false"  # noqa
    groups, order, n_eval, failing = {}, [], 0, []
    for ty, units, with_minmax, with_nested in plan:
        src = glue_source(ty, units, with_minmax, with_nested)
        tn = tyname(ty)
        fns = {}       # fn -> (coq xfn term, cases for the spec, calldata argument tuples)
        for u in units:
            cs = [[v] for v in wei_values(ty, DENOM[u], rnd)]
            fns[f"w{UNITS.index(u)}"] = (f"(XWei {X.nty(*ty)} {X.zl(DENOM[u])})", cs, cs, f'as_wei_value(a: {tn}, "{u}")')
        if with_nested and units:
            u = units[-1]
            vals = wei_values(ty, DENOM[u], rnd)
            prs = [[a, b] for a in vals[::2] for b in (vals[0], vals[len(vals) // 2], vals[-1])]
            fns["wn"] = (f"(XWei {X.nty(*ty)} {X.zl(DENOM[u])})", [[max(a, b)] for a, b in prs], prs, f'as_wei_value(max(a, b): {tn}, "{u}")')
            cs = [[v] for v in vals]
            fns["ws"] = (f"(XWei {X.nty(*ty)} {X.zl(DENOM[u])})", cs, cs, f'as_wei_value(self.s: {tn}, "{u}")')
        if with_minmax:
            g = type_grid(ty, rnd, 7)
            prs = [[a, b] for a in g for b in g]
            fns["mn"] = (f"(XMinMax false {X.nty(*ty)})", prs, prs, f"min(a: {tn}, b: {tn})")
            fns["mx"] = (f"(XMinMax true {X.nty(*ty)})", prs, prs, f"max(a: {tn}, b: {tn})")
        if ty[2]:
            cs = [[v] for v in dec_values(rnd)]
            fns["fl"] = ("XFloor", cs, cs, "floor(a: decimal)")
            fns["ce"] = ("XCeil", cs, cs, "ceil(a: decimal)")
        for cfg in cfgs:
            try:
                out = compile_src(src, cfg, formats=("bytecode", "method_identifiers"))
            except Exception as e:  # noqa
                ctx.violation("correspondence-broken", f"as_wei_value/min/max probe for {tn} does not compile under {cfg.name}",
                              {"source": src, "config": cfg.name, "error": f"{type(e).__name__}: {e}"[:600]})
                continue
            chain = Chain(cfg.evm)
            addr = chain.deploy(bytes.fromhex(out["bytecode"][2:]))
            sels = {sig.split("(")[0]: int(h, 16).to_bytes(4, "big") for sig, h in out["method_identifiers"].items()}
            for fn, (cterm, scs, args, what) in fns.items():
                datas = [sels[fn] + b"".join(word(v) for v in a) for a in args]
                obs = [call_word(chain, addr, dt) for dt in datas]
                n_eval += len(datas)
                gk = (tn, fn)
                if gk not in groups:
                    groups[gk] = {"spec": f"xspecs {cterm} {pll(scs)}", "args": args, "what": what, "src": src, "runs": []}
                    order.append(gk)
                groups[gk]["runs"].append((cfg, obs, datas))
    if order:
        rows = [{"spec": groups[k]["spec"], "multi": [r[1] for r in groups[k]["runs"]]} for k in order]
        res = compare_rows(BX_PRELUDE, rows, "c03bxglue" + tag, shard=60)
        for gk, (sm, _) in zip(order, res):
            seen = set()
            g = groups[gk]
            for i, e, m in sm:
                if m in seen:
                    continue
                seen.add(m)
                cfg, obs, datas = g["runs"][m]
                ok_i = 0 <= i < len(datas)
                failing.append({"type": gk[0], "function": f"{gk[1]}: {g['what']}", "config": cfg.name,
                                "args": [str(v) for v in g["args"][i]] if ok_i else ["?"],
                                "expected": "revert" if e == -1 else hex(e),
                                "observed": ("revert" if obs[i] == -1 else hex(obs[i])) if ok_i else "?",
                                "calldata": datas[i].hex() if ok_i else "?", "source": g["src"]})
    ctx.corr["bx_glue_cases" + tag] = n_eval
    return n_eval, failing


def quick_plan(ctx, forced=()):
    """(type, units, min/max?, nested?) probes of the quick tier: the widest signed types (a product can reach [2^255, 2^256)
    only for int192..int256), uint256, decimal, one seeded other type; + the types / units of mismatching templates"""
    rnd = ctx.rng("bx-plan")
    pick = lambda n: rnd.sample(UNITS, n)  # noqa
    plan = [((32, True, False), ["wei", "kwei", "ether", "kether"] + pick(1), True, True),
            ((32, False, False), ["ether"] + pick(1), True, True),
            ((25, True, False), ["grand"] + pick(1), False, False),
            ((21, True, True), ["wei", "ether"] + pick(1), True, True)]
    rest = [(k, s, False) for k in range(1, 33) for s in (False, True) if (k, s) not in ((32, True), (32, False), (25, True))]
    plan.append((rnd.choice(rest), pick(2), True, False))
    return merge_forced(plan, forced)


def merge_forced(plan, forced):
    plan = [(ty, list(dict.fromkeys(us)), mm, ne) for ty, us, mm, ne in plan]
    for key in forced:
        ty = key[1] if len(key) > 1 else (21, True, True)
        ent = next((p for p in plan if p[0] == ty), None)
        if ent is None:
            ent = (ty, [], key[0] in ("min", "max"), False)
            plan.append(ent)
        if key[0] == "wei" and key[2] not in ent[1]:
            ent[1].append(key[2])
        if key[0] in ("min", "max") and not ent[2]:
            plan[plan.index(ent)] = (ent[0], ent[1], True, ent[3])
    return plan


def thorough_plan(ctx):
    rnd = ctx.rng("bx-plan-t")
    plan = []
    for k, s, d, _ in X.num_types():
        wide = k >= 24 or d
        plan.append(((k, s, d), list(UNITS) if wide else rnd.sample(UNITS, 4), True, wide))
    return plan


# ---------------------------------------------------------------- math.isqrt / math.sqrt (stdlib module written in Vyper)
MATH_SRC = """import math

@external
def iq(x: uint256) -> uint256:
    return math.isqrt(x)

@external
def sq(x: decimal) -> decimal:
    return math.sqrt(x)

@external
def ep() -> decimal:
    return epsilon(decimal)
"""


def math_glue(ctx, cfgs):
    """DIFFERENTIAL ONLY (no theorem): math.isqrt(x) = floor(sqrt(x)), math.sqrt(d) = floor(sqrt(d * 10^10)) in units of 10^-10
    (i.e. r*r <= x*10^10 < (r+1)*(r+1)), sqrt of a negative decimal reverts.  The bodies are Vyper source
    (vyper/builtins/stdlib/math.vy) compiled through the operator templates proved elsewhere in C03; the convergence of the
    Babylonian iteration is not proved here."""
    import math
    from vlib.c03_lib import call_word, word
    from vlib.configs import compile_src
    from vlib.evm import Chain
    rnd = ctx.rng("bx-math")
    xs = {0, 1, 2, 3, 4, 8, 9, 15, 16, 17, 2**128 - 1, 2**128, 2**128 + 1, 2**255, 2**256 - 1, 2**256 - 2, (2**128 - 1)**2, (2**128 - 1)**2 - 1,
          (2**128 - 1)**2 + 1}
    for b in (24, 40, 72, 136, 200, 250):
        xs |= {2**b - 1, 2**b, 2**b + 1}
    for _ in range(12):
        r = rnd.randrange(1, 2**128)
        xs |= {r * r - 1, r * r, r * r + 1, rnd.randrange(2**rnd.randrange(1, 257))}
    xs = sorted(v for v in xs if 0 <= v < 2**256)
    hi = 2**167 - 1
    ds = {0, 1, 2, 10**10 - 1, 10**10, 10**10 + 1, 4 * 10**10, 2 * 10**10, hi, hi - 1, -1, -10**10, -(2**167)}
    for _ in range(10):
        r = rnd.randrange(1, 2**88)
        ds |= {r * r // 10**10, r * r // 10**10 + 1, rnd.randrange(2**rnd.randrange(1, 168))}
    ds = sorted(v for v in ds if -(2**167) <= v <= hi)
    n_eval, failing = 0, []
    for cfg in cfgs:
        try:
            out = compile_src(MATH_SRC, cfg, formats=("bytecode", "method_identifiers"))
        except Exception as e:  # noqa
            ctx.violation("correspondence-broken", f"math.isqrt / math.sqrt probe does not compile under {cfg.name}",
                          {"source": MATH_SRC, "config": cfg.name, "error": f"{type(e).__name__}: {e}"[:600]})
            continue
        chain = Chain(cfg.evm)
        addr = chain.deploy(bytes.fromhex(out["bytecode"][2:]))
        sels = {sig.split("(")[0]: int(h, 16).to_bytes(4, "big") for sig, h in out["method_identifiers"].items()}
        bad = 0
        for fn, vals in (("iq", xs), ("sq", ds), ("ep", [None])):
            for v in vals:
                dt = sels[fn] + (word(v) if v is not None else b"")
                got = call_word(chain, addr, dt)
                n_eval += 1
                # epsilon(decimal) = 10^-10 = the integer 1 (always folded by the front end; Venom's lower_epsilon returns 1)
                want = 1 if fn == "ep" else math.isqrt(v) if fn == "iq" else (-1 if v < 0 else math.isqrt(v * DIVISOR))
                if got != want and bad < 2:
                    bad += 1
                    failing.append({"type": "uint256" if fn == "iq" else "decimal", "function": {"iq": "iq: math.isqrt(x)", "sq": "sq: math.sqrt(x)", "ep": "ep: epsilon(decimal)"}[fn],
                                    "config": cfg.name, "args": [str(v)], "expected": "revert" if want == -1 else hex(want),
                                    "observed": "revert" if got == -1 else hex(got), "calldata": dt.hex(), "source": MATH_SRC})
    ctx.corr["bx_math_cases"] = n_eval
    return n_eval, failing


# ---------------------------------------------------------------- the phase (runs in a forked child of checks/c03.py)
def phase(st, cfgs_quick, cfgs_thorough):
    def ph(ctx):
        import time
        t0 = time.time()
        found, total = False, 0
        fam, b = st["fam"], st["b"]
        forced_keys = []
        if fam and st["static_ok"]:
            if b["ok"]:
                frac, force = (0.012 if ctx.tier == "quick" else 0.4), set()
            else:
                force = mismatching()
                ctx.log(f"search as_wei_value/floor/ceil/min/max: {None if force is None else len(force)} templates differ from the model")
                if force is None:
                    frac, force = 0.15, set()
                else:
                    # at most ~40 of the differing templates (spread over the family), + the usual sample
                    fl = sorted(force)
                    force = set(fl[::max(1, len(fl) // 40)])
                    frac = 0.02
                    seen = set()
                    for _, j in sorted(force):
                        k = fam[j][1]
                        if k not in seen:
                            seen.add(k)
                            forced_keys.append(k)
            n, failing, bad_model = template_differential(ctx, fam, frac, force)
            total += n
            # the real-contract form of what the Search found: first the templates with a failing operand, then other differing ones
            fk = list(dict.fromkeys([f[2] for f in failing] + forced_keys))
            forced_keys = fk
            for kind, j, key, c, e, g_, node in failing[:5]:
                found = True
                tstr = str(node) if kind == "legacy" else "; ".join(str(i).strip() for i in node[0]) + f" -> {node[1]}"
                ctx.violation(
                    "failing-input", f"{kind} template of {key_name(key)} is not exact-or-revert",
                    {"generator": f"{kind} front end, {key_name(key)} on a symbolic operand", "template": " ".join(tstr.split()),
                     "operands": [str(v) for v in (c or [])], "expected": "revert" if e == -1 else hex(e),
                     "observed_on_evm": "revert" if g_ == -1 else (hex(g_) if g_ is not None else "?"),
                     "how": "template compiled by the real back end + assembler, executed on pyrevm"},
                    key=f"{kind}-bx:{key_name(key)}")
            for kind, key, c, l, g_ in bad_model[:5]:
                if not found:
                    ctx.violation("correspondence-broken", f"Coq evaluator disagrees with the real back end + EVM on an exported {kind} template of {key_name(key)}",
                                  {"builtin": key_name(key), "operands": [str(v) for v in (c or [])], "coq": str(l), "evm": str(g_)})
        # glue: real contracts under several configurations (also the replayable form of whatever the Search found)
        if ctx.tier == "quick":
            plan, cfgs = quick_plan(ctx, forced_keys[:8]), cfgs_quick
        else:
            plan, cfgs = merge_forced(thorough_plan(ctx), forced_keys[:8]), cfgs_thorough
        t2 = time.time()
        n, gfail = glue(ctx, plan, cfgs)
        total += n
        t3 = time.time()
        for f in gfail[:8]:
            found = True
            ctx.violation("failing-input", f"{f['function']} under {f['config']} is not exact-or-revert", f,
                          key=f"bx-glue:{f['function']}:{f['config']}")
        n, mfail = math_glue(ctx, cfgs_quick[:2] if ctx.tier == "quick" else cfgs_quick)
        total += n
        for f in mfail[:4]:
            found = True
            ctx.violation("failing-input", f"{f['function']} under {f['config']} is not the floor of the square root / 10**-10", f,
                          key=f"bx-math:{f['function']}:{f['config']}")
        if not st["units_ok"] and not found:
            ctx.violation("correspondence-broken", "the unit names accepted by as_wei_value differ from the specified table (BxModel.v wei_units)",
                          {"accepted_by_repo": [str(x) for x in (st["unit_names"] or [])], "specified": UNITS})
            found = True
        ctx.log(f"as_wei_value/floor/ceil/min/max differentials done: templates {t2 - t0:.0f}s glue {t3 - t2:.0f}s math {time.time() - t3:.0f}s")
        return found, total
    return ph


def verdict(ctx, st, found):
    """after the phases: a broken export / proof / tie without a failing input"""
    if found:
        return
    if st["gen_err"]:
        ctx.violation("translator-rejected", "template export failed: " + st["gen_err"], {"error": st["gen_err"]})
    elif not st["b"]["ok"]:
        b = st["b"]
        ctx.violation("theorem-broken", f"{b.get('failed_lemma')} in {b.get('file')} (as_wei_value/floor/ceil/min/max)",
                      {"theorem": b.get("failed_lemma"), "file": b.get("file"), "coq_output": (b.get("out") or "")[-1500:]})
