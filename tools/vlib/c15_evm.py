"""C15 observation / Search: the same IR compiled with and without optimizer.optimize (and with /
without optimize_assembly), executed on pyrevm; any difference in (success, returndata, logs) is a
failing input of the property."""
from vlib.c15_ir import HALF, W, ir_of, show_shape
from vlib.evm import Chain, log_tuple

BASE_X = [0, 1, 2, 3, 255, 256, 2**128, HALF - 1, HALF, HALF + 1, W - 2, W - 1]


def lits_of(s, acc):
    if s[0] == "lit":
        acc.add(s[1] % W)
    else:
        for c in s[1:]:
            if isinstance(c, tuple):
                lits_of(c, acc)
    return acc


def evm_ir_of(s):
    """like ir_of, but a complex leaf Cx k logs k and reads calldata word k+1 (observable effect + free value)."""
    k = s[0]
    if k == "cx":
        return ["seq", ["log1", 0, 0, s[1]], ["calldataload", 32 * (s[1] + 1)]]
    if k in ("lit", "var"):
        return s[1]
    if k == "seq":
        return ["seq", evm_ir_of(s[1])]
    if k == "if":
        return ["if"] + [evm_ir_of(c) for c in s[1:]]
    return [s[1]] + [evm_ir_of(c) for c in s[2:]]


CONTEXTS = ["value", "iszero", "if", "assert", "other"]
BRANCH_CONTEXTS = ["ifbranch", "ifelse"]


def wrap_ctx(e, ctxname):
    if ctxname == "value":
        body = [["mstore", 0, e]]
    elif ctxname == "iszero":
        body = [["mstore", 0, ["iszero", e]]]
    elif ctxname == "if":
        body = [["if", e, ["mstore", 0, 11], ["mstore", 0, 22]]]
    elif ctxname == "assert":
        body = [["assert", e], ["mstore", 0, 33]]
    elif ctxname == "ifbranch":     # E is the VALUE of an if branch (the parent op is `if`, but the context is not truthy)
        body = [["mstore", 0, ["if", "y", e, 77]]]
    elif ctxname == "ifelse":
        body = [["mstore", 0, ["if", "y", 77, e]]]
    elif ctxname == "other":
        body = [["mstore", 0, ["add", e, 1]]]
    else:
        raise ValueError(ctxname)
    return ["with", "x", ["calldataload", 0], ["with", "y", ["calldataload", 32],
            ["seq"] + body + [["return", 0, 32]]]]


def compile_variants(ir_list):
    """returns dict name -> bytecode, or name -> ('static-assert',) / ('exception', text)."""
    from vyper.codegen.ir_node import IRnode
    from vyper.compiler.settings import OptimizationLevel
    from vyper.evm.assembler import assembly_to_evm
    from vyper.exceptions import StaticAssertionException
    from vyper.ir import compile_ir, optimizer

    out = {}

    def asm(node, lvl):
        a = compile_ir.compile_to_assembly(node, lvl)
        return assembly_to_evm(a)[0]

    out["noopt"] = asm(IRnode.from_list(ir_list), OptimizationLevel.NONE)
    try:
        o = optimizer.optimize(IRnode.from_list(ir_list))
    except StaticAssertionException:
        out["iropt"] = ("static-assert",)
        return out
    except Exception as e:  # noqa
        out["iropt"] = ("exception", f"{type(e).__name__}: {e}")
        return out
    out["iropt"] = asm(o, OptimizationLevel.NONE)
    try:
        out["iropt+asmopt"] = asm(o, OptimizationLevel.GAS)
        out["asmopt"] = asm(IRnode.from_list(ir_list), OptimizationLevel.GAS)
    except Exception as e:  # noqa
        out["asmopt"] = ("exception", f"{type(e).__name__}: {e}")
    return out


def canon(r):
    return (r.ok, r.out.hex(), tuple((t, d.hex()) for (_a, t, d) in
                                     [(x[0], tuple(tt.hex() for tt in x[1]), x[2]) for x in map(log_tuple, r.logs)])
            if r.ok else ())


def words(vals):
    return b"".join((v % W).to_bytes(32, "big") for v in vals)


class Differ:
    def __init__(self, evm="cancun"):
        self.chain = Chain(evm)
        self.calls = 0
        self.programs = 0
        self.static_asserts = 0
        self.panics = []

    def inputs_for(self, shape, rnd):
        xs = list(BASE_X)
        for c in sorted(lits_of(shape, set())):
            xs += [(c - 1) % W, c, (c + 1) % W]
        xs = sorted(set(xs))
        ins = []
        for x in xs:
            for y in (0, W - 1, x, rnd.choice(BASE_X)):
                ins.append((x, y, rnd.choice(BASE_X), rnd.choice(BASE_X), rnd.choice(BASE_X)))
        return ins

    def run_program(self, ir_list, inputs):
        """returns None if all variants agree on all inputs, else a dict describing the first difference."""
        vs = compile_variants(ir_list)
        self.programs += 1
        addrs = {}
        for k, v in vs.items():
            if isinstance(v, bytes):
                addrs[k] = self.chain.set_code(None, v)
        st = vs.get("iropt")
        if isinstance(st, tuple) and st[0] == "exception":
            self.panics.append((ir_list, st[1]))
        for inp in inputs:
            data = words(inp)
            ref = canon(self.chain.call(addrs["noopt"], data))
            self.calls += 1
            if isinstance(st, tuple) and st[0] == "static-assert":
                self.static_asserts += 1
                if ref[0]:
                    return {"ir": repr(ir_list), "calldata": data.hex(), "noopt": ref,
                            "iropt": "StaticAssertionException (optimizer claims the assertion always fails)"}
                continue
            for k, a in addrs.items():
                if k == "noopt":
                    continue
                got = canon(self.chain.call(a, data))
                self.calls += 1
                if got != ref:
                    return {"ir": repr(ir_list), "calldata": data.hex(), "variant": k, "noopt": ref, k: got}
        return None

    def run_shape(self, shape, ctxname, rnd, max_inputs=None):
        ir_list = wrap_ctx(evm_ir_of(shape), ctxname)
        ins = self.inputs_for(shape, rnd)
        if max_inputs and len(ins) > max_inputs:
            ins = ins[:max_inputs] if max_inputs <= 4 else ins[:4] + rnd.sample(ins[4:], max_inputs - 4)
        d = self.run_program(ir_list, ins)
        if d is not None:
            d["expr"] = show_shape(shape)
            d["context"] = ctxname
        return d


def merge_programs(rnd):
    """IR programs that trigger _merge_memzero / _merge_load (calldataload, mload->mcopy incl. the overlap
    guard) / _remove_empty_seqs / if-on-literal / shift-by-zero in optimizer._optimize."""
    progs = []
    dirty = [["mstore", 32 * i, ["add", ["calldataload", 32 * (i % 4)], i]] for i in range(8)]
    ret = [["return", 0, 256]]

    def P(body):
        return ["with", "x", ["calldataload", 0], ["with", "y", ["calldataload", 32], ["seq"] + dirty + body + ret]]
    for start in (0, 32, 64):
        for n in (1, 2, 3, 4):
            progs.append(P([["mstore", start + 32 * i, 0] for i in range(n)]))
            progs.append(P([["mstore", start + 32 * i, ["calldataload", 32 * i]] for i in range(n)]))
            progs.append(P([["mstore", start, 0], ["calldatacopy", start + 32, "calldatasize", 32 * n]]))
    for dst in (0, 32, 64, 96, 128):
        for src in (0, 32, 64, 96):
            for n in (2, 3):
                progs.append(P([["mstore", dst + 32 * i, ["mload", src + 32 * i]] for i in range(n)]))
    progs.append(P([["seq"], ["mstore", 0, 0], ["seq"], "pass", ["mstore", 32, 0], ["seq"]]))
    progs.append(P([["if", 1, ["mstore", 0, "x"], ["mstore", 0, "y"]], ["if", 0, ["mstore", 32, "x"], ["mstore", 32, "y"]]]))
    progs.append(P([["mstore", 0, ["shl", 0, "x"]], ["mstore", 32, ["shr", 0, "y"]], ["mstore", 64, ["sar", 0, "x"]]]))
    progs.append(P([["mstore", 0, ["iszero", 0]], ["mstore", 32, ["iszero", 5]], ["mstore", 64, ["ceil32", 33]],
                    ["mstore", 96, ["ceil32", -1]]]))
    progs.append(P([["if", ["eq", "x", "y"], ["mstore", 0, 1], ["mstore", 0, 2]],
                    ["if", ["iszero", ["lt", "x", 5]], ["mstore", 32, 1], ["mstore", 32, 2]],
                    ["assert", ["ne", "x", 3]], ["mstore", 64, ["iszero", ["ne", "x", "y"]]]]))
    return progs
