"""C04 canaries, part 6: container operations whose ARGUMENT or INDEX expression mutates the same container.

`x.append(<arg>)`, `x[<index>] = v` and `x[k] = <value>` where evaluating <arg> / <index> / <value> appends to or pops from x
(through an internal function, through an external call that re-enters the contract, or through `x.pop()` written in the
expression itself), for DynArrays in storage, transient storage and memory, single-word and multi-word element types, and every
initial length 0..bound.

Oracle: a plain python model of the SOURCE semantics -- the argument / index expression is evaluated first (with all of its
effects), then the operation reads the container's length: an append writes exactly the element at the CURRENT length (revert at
the declared bound) and adds one to it; a subscript write needs index < CURRENT length.  Compared: returned array or revert, the
array as stored afterwards (read back through a separate getter), and guard variables on both sides of the container (storage
slots / transient slots / memory locals).  A stale length shows as a lost element, a resurrected element, growth past the
bound, or a missing revert.

For `x[k] = <value that mutates x>` the order of the index bounds check and the evaluation of the value is an evaluation-order
question (property C08); here only the C04 half is judged: the observed outcome must be the outcome of ONE of the two orders
in which the element written lies below the length at the time of the write (so: never a write outside the current length)."""
import warnings

C0 = 0xC0FFEE0000000000000000000000000000000000000000000000000000000001
C1 = 0xBADC0DE000000000000000000000000000000000000000000000000000000002


class Elem:
    """element type: vyper type, expression building the element from a uint256 expression, ABI type, python value"""

    def __init__(self, name, typ, mk, abi, val, word, decl=""):
        self.name, self.typ, self.mk, self.abi, self.val, self.word, self.decl = name, typ, mk, abi, val, word, decl


ELEMS = [
    Elem("uint256", "uint256", lambda e: f"({e})", "uint256", lambda e: e, True),
    Elem("bytes32", "bytes32", lambda e: f"convert({e}, bytes32)", "bytes32", lambda e: e.to_bytes(32, "big"), True),
    Elem("int128", "int128", lambda e: f"convert({e}, int128)", "int128", lambda e: e, True),
    Elem("pair", "uint256[2]", lambda e: f"[{e}, ({e}) + 7]", "uint256[2]", lambda e: (e, e + 7), False),
    Elem("struct", "P", lambda e: f"P(x=({e}), y=({e}) + 9, z=({e}) + 11)", "(uint256,uint256,uint256)", lambda e: (e, e + 9, e + 11), False,
         decl="struct P:\n    x: uint256\n    y: uint256\n    z: uint256\n"),
    Elem("address", "address", lambda e: f"convert({e}, address)", "address", lambda e: "0x" + e.to_bytes(20, "big").hex(), True),
]

# (function name, location, statement template).  {L} = the container, {MK}(..) via python formatting below
STORAGE_OPS = [
    ("app_push", "{L}.append(self.{p}push(v))"),
    ("app_drop", "{L}.append(self.{p}drop())"),
    ("app_popself", "{L}.append({L}.pop())"),
    ("set_pushk", "{L}[self.{p}push_k(k, v)] = {MKV2}"),
    ("set_dropk", "{L}[self.{p}drop_k(k)] = {MKV2}"),
    ("set_valpush", "{L}[k] = self.{p}push(v)"),
    ("set_valdrop", "{L}[k] = self.{p}drop()"),
    ("ctl", "{L}.append({MKV})\n    {L}.append({L}[0])"),
]
EXT_OPS = [
    ("app_ext", "self.a.append(extcall Self(self).ext_push(v))"),
    ("app_extdrop", "self.a.append(extcall Self(self).ext_drop())"),
    ("set_valext", "self.a[k] = extcall Self(self).ext_push(v)"),
]
MEM_OPS = [
    ("app_popself", "m.append(m.pop())"),
    ("set_valpop", "m[k] = m.pop()"),
    ("ctl", "m.append({MKV})\n    m.append(m[0])"),
]


def source(el, bound):
    T, B = el.typ, bound
    A = f"DynArray[{T}, {B}]"
    mkv, mkv1, mkv2 = el.mk("v"), el.mk("v + 1"), el.mk("v + 2")
    L = [el.decl, f"""
interface Self:
    def ext_push(v: uint256) -> {T}: nonpayable
    def ext_drop() -> {T}: nonpayable

g0: uint256
a: {A}
g1: uint256
tg0: transient(uint256)
t: transient({A})
tg1: transient(uint256)

@deploy
def __init__():
    self.g0 = {C0}
    self.g1 = {C1}

@external
@view
def dump() -> (uint256, {A}, uint256):
    return self.g0, self.a, self.g1

@external
def ext_push(v: uint256) -> {T}:
    self.a.append({mkv})
    return {mkv1}

@external
def ext_drop() -> {T}:
    return self.a.pop()
"""]
    for p, loc in (("s_", "self.a"), ("t_", "self.t")):
        L.append(f"""
@internal
def {p}push(v: uint256) -> {T}:
    {loc}.append({mkv})
    return {mkv1}

@internal
def {p}drop() -> {T}:
    return {loc}.pop()

@internal
def {p}push_k(k: uint256, v: uint256) -> uint256:
    {loc}.append({mkv})
    return k

@internal
def {p}drop_k(k: uint256) -> uint256:
    {loc}.pop()
    return k
""")
    fns = []
    for p, loc, g0, g1, pre in (("s_", "self.a", "self.g0", "self.g1", ""),
                                ("t_", "self.t", "self.tg0", "self.tg1", f"    self.tg0 = {C0}\n    self.tg1 = {C1}\n")):
        for name, stmt in STORAGE_OPS + (EXT_OPS if p == "s_" else []):
            body = stmt.format(L=loc, p=p, MKV=mkv, MKV2=mkv2)
            fns.append((p + name, f"""
@external
def {p}{name}(ini: {A}, k: uint256, v: uint256) -> (uint256, {A}, uint256):
{pre}    {loc} = ini
    {body}
    return {g0}, {loc}, {g1}
"""))
    for name, stmt in MEM_OPS:
        body = stmt.format(MKV=mkv)
        fns.append(("m_" + name, f"""
@external
def m_{name}(ini: {A}, k: uint256, v: uint256) -> (uint256, {A}, uint256):
    x: uint256 = {C0}
    m: {A} = ini
    y: uint256 = {C1}
    {body}
    return x, m, y
"""))
    return "\n".join(L), fns


class Revert(Exception):
    pass


def _append(x, e, B):
    if len(x) >= B:
        raise Revert()
    x.append(e)


def _pop(x):
    if not x:
        raise Revert()
    return x.pop()


def _set(x, k, e):
    if not 0 <= k < len(x):
        raise Revert()
    x[k] = e


def models(op, ini, k, v, B, E):
    """list of admissible final arrays (None = revert); one entry except for set_val* (two evaluation orders, see module doc)"""
    def run(f):
        x = list(ini)
        try:
            f(x)
            return x
        except Revert:
            return None

    def app_push(x):
        _append(x, E(v), B)
        _append(x, E(v + 1), B)

    def app_drop(x):
        e = _pop(x)
        _append(x, e, B)

    def set_pushk(x):
        _append(x, E(v), B)
        _set(x, k, E(v + 2))

    def set_dropk(x):
        _pop(x)
        _set(x, k, E(v + 2))

    def ctl(x):
        _append(x, E(v), B)
        _append(x, x[0], B)

    def val_push_first(x):
        _append(x, E(v), B)
        _set(x, k, E(v + 1))

    def val_push_checkfirst(x):       # index checked against the length before the value is evaluated: k is below both lengths
        if not 0 <= k < len(x):
            raise Revert()
        _append(x, E(v), B)
        _set(x, k, E(v + 1))

    def val_drop_first(x):
        e = _pop(x)
        _set(x, k, e)

    table = {"app_push": [app_push], "app_ext": [app_push], "app_drop": [app_drop], "app_extdrop": [app_drop], "app_popself": [app_drop],
             "set_pushk": [set_pushk], "set_dropk": [set_dropk], "ctl": [ctl],
             "set_valpush": [val_push_first, val_push_checkfirst], "set_valext": [val_push_first, val_push_checkfirst],
             # a pop in the value: whichever order, the write must land below the length AFTER the pop
             "set_valdrop": [val_drop_first], "set_valpop": [val_drop_first]}
    out = []
    for f in table[op]:
        r = run(f)
        if r not in out:
            out.append(r)
    return out


def w(x):
    return (x % 2**256).to_bytes(32, "big")


def run(ctx, cfgs, n_types, only=None):
    """returns (cases, found)"""
    from eth_abi import decode, encode
    from vyper.exceptions import VyperException, VyperInternalException
    from vyper.utils import method_id
    from .configs import compile_src
    from .evm import Chain
    rnd = ctx.rng("selfmut")
    # one single-word and one multi-word element type always; the rest drawn
    words = [e for e in ELEMS if e.word]
    multi = [e for e in ELEMS if not e.word]
    picks = [rnd.choice(words), rnd.choice(multi)]
    rest = [e for e in ELEMS if e not in picks]
    rnd.shuffle(rest)
    picks += rest[:max(0, n_types - 2)]
    if only:
        picks = [e for e in ELEMS if e.name in only]
    n_cases, stats = 0, {"calls": 0, "reverts": 0, "rejected_at_compile_time": 0, "functions": 0}
    for ti, el in enumerate(picks):
        B = rnd.choice([2, 3, 4, 5])
        head, fns = source(el, B)
        for cfg in cfgs:
            cancun = cfg.evm in ("cancun", "prague")
            # a pipeline may refuse one of these programs at compile time (legacy "risky overlap"): such a function is left out for
            # this configuration (whether the diagnostic is user-facing is C20); everything else must still compile
            live = [(n, s) for n, s in fns if cancun or not n.startswith("t_")]
            hd = head if cancun else head.replace("transient(", "(")
            out = None
            for attempt in range(len(live) + 1):
                src = hd + "".join(s for _, s in live)
                try:
                    with warnings.catch_warnings():
                        warnings.simplefilter("ignore")
                        out = compile_src(src, cfg, formats=("bytecode",))
                    break
                except (VyperException, VyperInternalException) as e:
                    # drop the function the diagnostic points into (by line), else give up on this configuration
                    ln = getattr(e, "lineno", None)
                    if ln is None and getattr(e, "annotations", None):
                        ln = getattr(e.annotations[0], "lineno", None)
                    bad = None
                    if ln is not None:
                        upto = "\n".join(src.split("\n")[:ln])
                        cands = [n for n, _ in live if f"def {n}(" in upto]
                        bad = cands[-1] if cands else None
                    if bad is None:
                        ctx.violation("correspondence-broken", "self-mutating-argument canary contract does not compile",
                                      {"source": src, "config": cfg.name, "error": f"{type(e).__name__}: {str(e)[:400]}"})
                        return n_cases, True
                    live = [(n, s) for n, s in live if n != bad]
                    stats["rejected_at_compile_time"] += 1
                    stats.setdefault("rejected", []).append(f"{cfg.name}:{bad}")
            if out is None:
                continue
            ch = Chain(cfg.evm)
            addr = ch.deploy(bytes.fromhex(out["bytecode"][2:]))
            if addr is None:
                ctx.violation("correspondence-broken", "self-mutating-argument canary contract failed to deploy", {"source": src, "config": cfg.name})
                return n_cases, True
            arr_abi = el.abi + "[]"
            ret_abi = ["uint256", arr_abi, "uint256"]
            stats["functions"] += len(live)
            for name, _ in live:
                op = name.split("_", 1)[1]
                base = rnd.randrange(1, 2**60)
                for n in range(B + 1):
                    ini = [el.val(base + 16 * i) for i in range(n)]
                    ks = [0] if not op.startswith("set_") else sorted({0, n - 1, n, n + 1, rnd.randrange(B + 2)} - {-1}) + [2**256 - 1]
                    for k in ks:
                        v = rnd.randrange(1, 2**60)
                        want = models(op, ini, k, v, B, el.val)
                        data = method_id(f"{name}({arr_abi},uint256,uint256)") + encode([arr_abi, "uint256", "uint256"], [ini, k, v])
                        r = ch.call(addr, data)
                        got = None
                        if r.ok:
                            try:
                                g0, arr, g1 = decode(ret_abi, r.out)
                                got = (g0, [tuple(e) if isinstance(e, (list, tuple)) else e for e in arr], g1)
                            except Exception as e:     # undecodable output is itself a mismatch
                                got = ("undecodable", r.out.hex()[:400])
                        n_cases += 1
                        stats["calls"] += 1
                        stats["reverts"] += 0 if r.ok else 1
                        admissible = [None if x is None else (C0, x, C1) for x in want]
                        good = got in admissible
                        stored = None
                        if good and name.startswith("s_"):
                            d = ch.call(addr, method_id("dump()"))
                            if d.ok:
                                g0, arr, g1 = decode(ret_abi, d.out)
                                stored = (g0, [tuple(e) if isinstance(e, (list, tuple)) else e for e in arr], g1)
                            # after a revert the previous state stays; after success the stored array is the returned one
                            good = d.ok and (got is None or stored == got)
                        if not good:
                            ctx.violation(
                                "failing-input",
                                "an argument / index expression that mutates the container it is applied to: the operation used a stale length "
                                "(element lost, popped element resurrected, growth past the bound, write outside the current length or missing revert)",
                                {"source": src, "config": cfg.name, "element_type": el.typ, "bound": B,
                                 "call": f"{name}(ini={ini!r}, k={k}, v={v})", "calldata": data.hex(),
                                 "expected_one_of": [("revert" if x is None else repr(x))[:600] for x in admissible],
                                 "observed_return": "revert" if got is None else repr(got)[:600],
                                 "observed_stored": repr(stored)[:600],
                                 "how": "compile `source` with the named configuration, deploy, send `calldata`; then call dump()"})
                            return n_cases, True
    ctx.corr["selfmut_canaries"] = dict(stats, element_types=[e.name for e in picks], configs=[c.name for c in cfgs])
    return n_cases, False


# ------------------------------------------------------------------ O-tie for coq/C04/PropsSelfMut.v
CALL_OPS = ("call", "delegatecall", "staticcall", "create", "create2", "selfdestruct")
STORE_OPS = ("sstore", "tstore", "mstore", "mstore8", "mcopy", "istore", "calldatacopy", "codecopy", "returndatacopy", "extcodecopy")

EXTRA_SITES = """
struct S:
    arr: DynArray[uint256, 3]
    n: uint256

interface Other:
    def get() -> uint256: view
    def poke() -> uint256: nonpayable

a: DynArray[uint256, 3]
b: DynArray[uint256, 3]
s: S
aa: DynArray[DynArray[uint256, 3], 2]

@internal
def _f() -> uint256:
    self.s.arr.append(1)
    return 2

@internal
@view
def _g() -> uint256:
    return len(self.a)

@external
def x1():
    self.a.append(self.b.pop())
    self.a.append(len(self.a))
    self.a.append(self._g())

@external
def x2():
    self.s.arr.append(self._f())
    self.s.arr.append(self.s.n)

@external
def x3():
    m: DynArray[uint256, 3] = []
    m2: DynArray[uint256, 3] = [1]
    m.append(m2.pop())
    m.append(self._f())
    m.append(m[0])

@external
def x4(t: address):
    self.a.append(staticcall Other(t).get())
    self.a.append(extcall Other(t).poke())
    self.aa[0].append(extcall Other(t).poke())
    self.aa.append(self.a)
"""


def _walk(node, seen=None):
    """the element node and, through self-calls, the bodies of the internal functions it invokes"""
    seen = set() if seen is None else seen
    yield node
    for x in getattr(node, "args", []):
        yield from _walk(x, seen)
    if getattr(node, "is_self_call", False):
        f = node.invoked_function_ir.func_ir
        if id(f) not in seen:
            seen.add(id(f))
            yield from _walk(f, seen)


def observe_site(darray, elem):
    """flags of one (darray, elem) pair handed to append_dyn_array; see coq/C04/SelfMutModel.v `site`"""
    leaf = len(elem.args) == 0
    nodes = list(_walk(elem))
    in_memory = getattr(darray.location, "name", "") == "memory"      # a memory local: no callee / re-entrant call can reach it
    ext = any(n.value in CALL_OPS for n in nodes)
    stores = any(n.value in STORE_OPS for n in nodes)
    mentioned = set()
    for n in nodes:
        mentioned |= set(getattr(n, "_referenced_variables", set()))
    arr_vars = set()
    for n in _walk(darray):
        arr_vars |= set(getattr(n, "_referenced_variables", set()))
    if not arr_vars:
        raise RuntimeError("array expression of an append mentions no variable: " + repr(darray)[:200])
    return leaf, (ext and not in_memory), (stores and len(arr_vars & mentioned) > 0)


def gen_append_sites():
    """Compile the canary family (every element type) + EXTRA_SITES with the legacy generator and record every call of
    append_dyn_array made by the real Expr.parse_Call.  Returns (GenSelfMut.v text, stats)."""
    from pathlib import PurePath
    import vyper.codegen.expr as E
    from vyper.compiler.input_bundle import FileInput
    from vyper.compiler.phases import CompilerData
    from vyper.compiler.settings import OptimizationLevel, Settings
    from vyper.exceptions import VyperException, VyperInternalException
    orig = E.append_dyn_array          # AttributeError -> translator-rejected (the generator was restructured)
    sites = []

    def hook(darray, elem):
        leaf, calls, wshared = observe_site(darray, elem)
        sites.append({"leaf": leaf, "calls": calls, "wshared": wshared, "array_type": str(darray.typ),
                      "array": repr(darray)[:160], "elem": repr(elem)[:300]})
        return orig(darray, elem)

    def comp(src):
        fi = FileInput(contents=src, source_id=0, path=PurePath("t.vy"), resolved_path=PurePath("t.vy"))
        cd = CompilerData(fi, settings=Settings(optimize=OptimizationLevel.NONE, experimental_codegen=False, evm_version="cancun"))
        _ = cd.ir_nodes

    n_src, rejected = 0, 0
    E.append_dyn_array = hook
    try:
        progs = [(None, EXTRA_SITES, [])]
        for el in ELEMS:
            head, fns = source(el, 3)
            progs.append((el.name, head, fns))
        for name, head, fns in progs:
            live = list(fns)
            for attempt in range(len(live) + 1):
                src = head + "".join(s for _, s in live)
                mark = len(sites)
                try:
                    with warnings.catch_warnings():
                        warnings.simplefilter("ignore")
                        comp(src)
                    n_src += 1
                    break
                except (VyperException, VyperInternalException) as e:
                    del sites[mark:]
                    ln = getattr(e, "lineno", None)
                    if ln is None and getattr(e, "annotations", None):
                        ln = getattr(e.annotations[0], "lineno", None)
                    upto = "\n".join(src.split("\n")[:ln or 0])
                    cands = [n for n, _ in live if f"def {n}(" in upto]
                    if not cands:
                        raise
                    live = [(n, s) for n, s in live if n != cands[-1]]
                    rejected += 1
    finally:
        E.append_dyn_array = orig
    if not sites:
        raise RuntimeError("no call of append_dyn_array observed while compiling the append family")
    b = lambda x: "true" if x else "false"
    distinct = sorted({(s["leaf"], s["calls"], s["wshared"]) for s in sites})
    rows = ";\n  ".join(f"mkSite {b(s['leaf'])} {b(s['calls'])} {b(s['wshared'])}" for s in sites)
    text = ("(* GENERATED by tools/vlib/c04_selfmut.py from the real Expr.parse_Call / append_dyn_array -- do not edit *)\n"
            "From Coq Require Import ZArith List Bool.\nFrom Verif Require Import C04.SelfMutModel.\nImport ListNotations.\n"
            f"Definition append_sites_observed : list site := [\n  {rows}].\n")
    bad = [s for s in sites if not (s["leaf"] or not (s["calls"] or s["wshared"]))]
    return text, {"family_size": len(sites), "distinct_shapes": len(distinct), "programs": n_src, "functions_rejected_at_compile_time": rejected,
                  "staged_leaf": sum(s["leaf"] for s in sites), "mutating_args": sum(s["calls"] or s["wshared"] for s in sites),
                  "unordered": bad[:5]}
