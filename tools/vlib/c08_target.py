"""C08: "the right-hand side before a plain assignment's target" when the TARGET's index / key expression has a side effect on the very
value being assigned (session 3, seeded change C08_m7).

`pop()` is the one expression with a side effect on a memory value, and it also works on storage / transient DynArrays.  Each test
assigns a multi-word value `V` to a target whose index or key is `V.pop()` (or contains it); by the documented order the right-hand side
is evaluated first, so the stored value is the array BEFORE the pop and the key is the popped element.  Shapes: HashMap value in storage
and transient storage, element of a memory array of arrays, struct member source, storage and transient sources, nested index arithmetic;
the initial array varies with the seed.  Oracle = this rule, evaluated in Python; every base configuration."""
from eth_abi import decode, encode

from vlib.configs import compile_src
from vlib.evm import Chain

SRC = """
struct P:
    a: DynArray[uint256, 4]
    k: uint256

s: HashMap[uint256, DynArray[uint256, 4]]
t: transient(HashMap[uint256, DynArray[uint256, 4]])
w: DynArray[uint256, 4]
tw: transient(DynArray[uint256, 4])

@external
def mem_to_map(x0: DynArray[uint256, 4]) -> (DynArray[uint256, 4], DynArray[uint256, 4]):
    x: DynArray[uint256, 4] = x0
    self.s[x.pop()] = x
    return self.s[x0[len(x0) - 1]], x

@external
def mem_to_tmap(x0: DynArray[uint256, 4]) -> (DynArray[uint256, 4], DynArray[uint256, 4]):
    x: DynArray[uint256, 4] = x0
    self.t[x.pop()] = x
    return self.t[x0[len(x0) - 1]], x

@external
def mem_to_mem(x0: DynArray[uint256, 4]) -> (DynArray[uint256, 4], DynArray[uint256, 4]):
    x: DynArray[uint256, 4] = x0
    y: DynArray[DynArray[uint256, 4], 3] = [[], [], []]
    y[x.pop() % 3] = x
    return y[x0[len(x0) - 1] % 3], x

@external
def member_to_map(x0: DynArray[uint256, 4], i: uint256) -> (DynArray[uint256, 4], DynArray[uint256, 4]):
    p: P = P(a=x0, k=i)
    self.s[p.a.pop() + i] = p.a
    return self.s[x0[len(x0) - 1] + i], p.a

@external
def sto_to_map(x0: DynArray[uint256, 4]) -> (DynArray[uint256, 4], DynArray[uint256, 4]):
    self.w = x0
    self.s[self.w.pop()] = self.w
    return self.s[x0[len(x0) - 1]], self.w

@external
def tra_to_tmap(x0: DynArray[uint256, 4]) -> (DynArray[uint256, 4], DynArray[uint256, 4]):
    self.tw = x0
    self.t[self.tw.pop()] = self.tw
    return self.t[x0[len(x0) - 1]], self.tw

@external
def control(x0: DynArray[uint256, 4]) -> (DynArray[uint256, 4], DynArray[uint256, 4]):
    x: DynArray[uint256, 4] = x0
    k: uint256 = x.pop()
    self.s[k] = x
    return self.s[k], x
"""

TESTS = [("mem_to_map", False), ("mem_to_tmap", False), ("mem_to_mem", False), ("member_to_map", True), ("sto_to_map", False),
         ("tra_to_tmap", False), ("control", False)]


def run_family(ctx, cfgs):
    """-> (#comparisons, compile rejections)"""
    from vyper.utils import method_id
    rnd = ctx.rng("assign-target")
    n, rejected, seen = 0, {}, set()
    for cfg in cfgs:
        if cfg.evm in ("london", "paris", "shanghai"):
            continue    # transient storage
        try:
            out = compile_src(SRC, cfg)
        except Exception as e:  # noqa: a crash under a configuration is C02's / C20's subject
            rejected.setdefault(type(e).__name__ + ": " + str(e)[:80], []).append(cfg.name)
            continue
        ch = Chain(cfg.evm)
        addr = ch.deploy(bytes.fromhex(out["bytecode"][2:]))
        if addr is None:
            continue
        fails = []
        for name, has_i in TESTS:
            for ln in (1, 2, 3, 4):
                x0 = [rnd.randrange(1, 1000) * 7 + j for j in range(ln)]
                i = rnd.randrange(1, 50)
                sig = f"{name}(uint256[]" + (",uint256)" if has_i else ")")
                data = method_id(sig) + (encode(["uint256[]", "uint256"], [x0, i]) if has_i else encode(["uint256[]"], [x0]))
                r = ch.call(addr, data)
                ch.reset_transient()
                n += 1
                want = (tuple(x0[:-1]) if name == "control" else tuple(x0), tuple(x0[:-1]))
                got = decode(["uint256[]", "uint256[]"], r.out) if r.ok else None
                if got != want:
                    fails.append({"test": name, "call": f"{sig} with {x0}" + (f", {i}" if has_i else ""), "calldata": data.hex(),
                                  "stored_then_source_after": None if got is None else [list(g) for g in got],
                                  "expected": [list(w) for w in want]})
        if fails:
            key = f"C08:{'venom' if cfg.venom else 'legacy'}:assign-target-mutates-rhs"
            if key in seen:
                continue
            seen.add(key)
            ctx.violation("failing-input", f"the value stored by a plain assignment is not the right-hand side as it was BEFORE the target's index "
                          f"expression ran ({fails[0]['test']}) under {cfg.name}",
                          {"config": cfg.name, "source": SRC, "failures": fails[:6],
                           "rule": "the right-hand side is evaluated before a plain assignment's target (C08); a value read before a side "
                                   "effect is not retroactively changed by it"}, key=key)
    return n, rejected
