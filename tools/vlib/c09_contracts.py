"""C09 correspondence: victim / attacker contract sources and the scenario -> (Coq tree, EVM script) compiler."""

MIX = "(1000003 * {acc} + ({r} % 18446744073709551616) * 7 + {okc}) % 18446744073709551616"

ATTACKER = """
# scripted adversary: node p performs nch[p] calls described by act[p][i]
# act word: target(160) | selector(32)<<160 | static<<192 | rec<<193 | prop<<194 | tag(16)<<200 | arg(16)<<216
nch: public(uint256[16])
act: public(uint256[4][16])
jlog: public(DynArray[uint256, 64])

@internal
def _go(p: uint256) -> uint256:
    acc: uint256 = 1
    n: uint256 = self.nch[p]
    for i: uint256 in range(4):
        if i >= n:
            break
        a: uint256 = self.act[p][i]
        target: address = convert(a & (2**160 - 1), address)
        sel: bytes4 = convert(convert((a >> 160) & (2**32 - 1), uint32), bytes4)
        is_static: bool = ((a >> 192) & 1) == 1
        rec: bool = ((a >> 193) & 1) == 1
        prop: bool = ((a >> 194) & 1) == 1
        tag: uint256 = (a >> 200) & 65535
        arg: uint256 = (a >> 216) & 65535
        ok: bool = False
        resp: Bytes[32] = b""
        data: Bytes[68] = concat(sel, convert(arg, bytes32), convert(7, bytes32))
        if is_static:
            ok, resp = raw_call(target, data, max_outsize=32, is_static_call=True, revert_on_failure=False)
        else:
            ok, resp = raw_call(target, data, max_outsize=32, revert_on_failure=False)
        r: uint256 = 0
        if ok and len(resp) == 32:
            r = convert(resp, uint256)
        if not ok:
            assert not prop, "prop"
            acc = (1000003 * acc + 1) % 18446744073709551616
        else:
            acc = (1000003 * acc + (r % 18446744073709551616) * 7 + 2) % 18446744073709551616
        if rec:
            self.jlog.append(2 * tag + convert(ok, uint256))
    return acc

@external
@payable
def cb(p: uint256) -> uint256:
    return self._go(p)

@external
@payable
def cbv(p: uint256) -> uint256:
    return self._go(p)

@external
def boom():
    raise "boom"

@external
def boomv() -> uint256:
    raise "boom"
"""

IFACE = """
interface A:
    def cb(p: uint256) -> uint256: nonpayable
    def cbv(p: uint256) -> uint256: view
    def boom(): nonpayable
    def boomv() -> uint256: view
"""

KINDS = ["np", "pay", "view", "default", "getter", "unprot", "viaint",
         "kw1", "kw2", "rawnp", "rawst", "libnp", "libview", "libint", "leaf"]
# "leaf": a protected function that makes no call at all (must still check and take the lock)
# kinds with a single exit shape (the exit parameter is ignored for them)
FIXED_EXIT = ("kw1", "kw2", "rawnp", "rawst", "libnp", "libview", "libint")
EXITS = ["fall", "retbranch", "retloop", "retint", "assert", "raise", "subfail", "deep"]
# "deep": the external call happens two INTERNAL levels below the protected function (f -> self._a -> self._b -> extcall)
EXIT_CODE = {x: i for i, x in enumerate(EXITS)}


def _call(view):
    return "staticcall A(self.att).cbv(p)" if view else "extcall A(self.att).cb(p)"


def _boom(view):
    return "t: uint256 = staticcall A(self.att).boomv()" if view else "extcall A(self.att).boom()"


def fn_body(view, exit_, void):
    """statements after `r` (the mixed digest of the callback) is available; void: function has no return type"""
    ret = "return" if void else "return r"
    if exit_ == "fall":
        return ["pass"] if view else ["self.sink = r"]
    if exit_ == "retbranch":
        return ["if r > 0:", f"    {ret}"] + (["self.sink = 77"] if (void and not view) else ([] if void else ["return 0"]))
    if exit_ == "retloop":
        return ["for i: uint256 in range(3):", "    if i == 1:", f"        {ret}"] + ([] if void else ["return 0"])
    if exit_ == "assert":
        return ['assert r == 0, "no"'] + ([] if void else ["return r"])
    if exit_ == "raise":
        return ['raise "no"']
    if exit_ == "subfail":
        return [_boom(view)] + ([] if void else ["return r"])
    raise ValueError(exit_)


def _main_source(pragma):
    """One victim contract holding an entry point for every (kind, exit).  pragma=True: protection by
    `#pragma nonreentrancy on` (unprotected ones carry @reentrant), else by @nonreentrant decorators."""
    L = []
    if pragma:
        L.append("#pragma nonreentrancy on")
    L.append("import lib")
    L.append("initializes: lib")
    L.append("exports: (lib.e_libnp_retbranch, lib.e_libview_retbranch)")
    L.append(IFACE)
    L.append("att: public(address)")
    L.append("sink: uint256")
    L.append("one: public(uint256)" if pragma else "one: public(uint256)")
    L.append("")
    L.append("@deploy\ndef __init__(a: address, p: uint256, mode: uint256):\n    self.att = a\n    lib.latt = a\n    self.one = 1\n"
             "    if mode == 1:\n        r: uint256 = extcall A(a).cb(p)\n        self.sink = r\n"
             "    if mode == 2:\n        r2: uint256 = lib._prot(p)\n        self.sink = r2\n")
    L.append("@internal\n@pure\ndef _mix(r: uint256) -> uint256:\n    return " + MIX.format(acc=1, r="r", okc=2) + "\n")
    prot = [] if pragma else ["@nonreentrant"]
    unprot = ["@reentrant"] if pragma else []
    # helpers for retint: internal function doing the callback
    L.append("@internal\ndef _inner(p: uint256) -> uint256:\n    r: uint256 = self._mix(extcall A(self.att).cb(p))\n    if r > 0:\n        return r\n    return 0\n")
    L.append("@internal\n@view\ndef _innerv(p: uint256) -> uint256:\n    r: uint256 = self._mix(staticcall A(self.att).cbv(p))\n    if r > 0:\n        return r\n    return 0\n")
    L.append("@internal\ndef _b(p: uint256) -> uint256:\n    return self._mix(extcall A(self.att).cb(p))\n")
    L.append("@internal\ndef _a(p: uint256) -> uint256:\n    r: uint256 = self._b(p)\n    if r > 0:\n        return r\n    return 0\n")
    L.append("@internal\n@view\ndef _bv(p: uint256) -> uint256:\n    return self._mix(staticcall A(self.att).cbv(p))\n")
    L.append("@internal\n@view\ndef _av(p: uint256) -> uint256:\n    r: uint256 = self._bv(p)\n    if r > 0:\n        return r\n    return 0\n")
    for kind in ("np", "pay", "view", "unprot", "viaint"):
        view = kind == "view"
        for x in EXITS:
            void = x == "fall"
            name = f"e_{kind}_{x}"
            rett = "" if void else " -> uint256"
            if x == "retint":
                body = [f"return self._inner{'v' if view else ''}(p)"]
            elif x == "deep":
                body = [f"return self._a{'v' if view else ''}(p)"]
            else:
                body = [f"r: uint256 = self._mix({_call(view)})"] + fn_body(view, x, void)
            if kind == "viaint" and x == "raise":
                # (an internal function with a return type whose every path raises does not compile
                #  under the venom pipeline: InvokeArityMismatch -- reported as a C20 finding)
                body = [body[0], "if r > 0:", '    raise "no"', "return r"]
            if kind == "viaint":
                # unprotected external wrapper around a @nonreentrant internal function
                L.append("@internal\n@nonreentrant\ndef _i_" + name + f"(p: uint256){rett}:\n    " + "\n    ".join(body) + "\n")
                decos = ["@external"] + unprot
                call = f"self._i_{name}(p)"
                L.append("\n".join(decos) + f"\ndef {name}(p: uint256){rett}:\n    " + (call if void else "return " + call) + "\n")
                continue
            decos = ["@external"]
            if kind == "pay":
                decos.append("@payable")
            if view:
                decos.append("@view")
            decos += unprot if kind == "unprot" else prot
            L.append("\n".join(decos) + f"\ndef {name}(p: uint256){rett}:\n    " + "\n    ".join(body) + "\n")
    # __default__: exit path chosen by the argument's high byte
    d = ["@external", "@payable"] + prot + ["def __default__():",
         "    a: uint256 = convert(slice(msg.data, 4, 32), uint256)",
         "    p: uint256 = a & 255",
         "    x: uint256 = a >> 8",
         "    r: uint256 = 0",
         "    if x == 7:", "        r = self._a(p)",
         "    else:", "        r = self._mix(extcall A(self.att).cb(p))",
         "    if x == 1:", "        if r > 0:", "            return",
         "    if x == 2:", "        for i: uint256 in range(3):", "            if i == 1:", "                return",
         "    if x == 3:", "        self._void()", "        return",
         "    if x == 4:", '        assert r == 0, "no"',
         "    if x == 5:", '        raise "no"',
         "    if x == 6:", "        extcall A(self.att).boom()",
         "    self.sink = r", ""]
    L.append("@internal\ndef _void():\n    self.sink = 5\n")
    L.append("\n".join(d))
    # ---- round 2 shapes
    L.append("@internal\n@pure\ndef _mix2(ok: bool, r: uint256) -> uint256:\n    if ok:\n        return " + MIX.format(acc=1, r="r", okc=2)
             + "\n    return " + MIX.format(acc=1, r="0", okc=1) + "\n")
    L.append("\n".join(["@external"] + prot + ["def e_leaf(p: uint256) -> uint256:", "    return 1", ""]))
    # default-argument entry point: both selectors must lock
    L.append("\n".join(["@external", "@payable"] + prot + ["def e_kw(p: uint256, q: uint256 = 7) -> uint256:",
             "    assert q == 7", "    r: uint256 = self._mix(extcall A(self.att).cb(p))", "    if r > 0:", "        return r", "    return 0", ""]))
    # callback through raw_call (propagating) and through a static raw_call whose failure is caught
    L.append("\n".join(["@external"] + prot + ["def e_rawnp_retbranch(p: uint256) -> uint256:",
             '    resp: Bytes[32] = raw_call(self.att, concat(method_id("cb(uint256)"), convert(p, bytes32)), max_outsize=32)',
             "    r: uint256 = self._mix(convert(resp, uint256))", "    if r > 0:", "        return r", "    return 0", ""]))
    L.append("\n".join(["@external"] + prot + ["def e_rawst_retbranch(p: uint256) -> uint256:",
             "    ok: bool = False", '    resp: Bytes[32] = b""',
             '    ok, resp = raw_call(self.att, concat(method_id("cb(uint256)"), convert(p, bytes32)), max_outsize=32, '
             "is_static_call=True, revert_on_failure=False)",
             "    v: uint256 = 0", "    if ok and len(resp) == 32:", "        v = convert(resp, uint256)",
             "    r: uint256 = self._mix2(ok, v)", "    if r > 0:", "        return r", "    return 0", ""]))
    # unprotected external entering a @nonreentrant internal function of the library module
    L.append("\n".join(["@external"] + unprot + ["def e_libint_retbranch(p: uint256) -> uint256:", "    return lib._prot(p)", ""]))
    return "\n".join(L)


def _lib_source(pragma):
    prot = [] if pragma else ["@nonreentrant"]
    L = ["#pragma nonreentrancy on"] if pragma else []
    L += [IFACE, "latt: address", "",
          "@internal\n@pure\ndef _mix(r: uint256) -> uint256:\n    return " + MIX.format(acc=1, r="r", okc=2) + "\n",
          "\n".join(["@external"] + prot + ["def e_libnp_retbranch(p: uint256) -> uint256:",
                     "    r: uint256 = self._mix(extcall A(self.latt).cb(p))", "    if r > 0:", "        return r", "    return 0", ""]),
          "\n".join(["@external", "@view"] + prot + ["def e_libview_retbranch(p: uint256) -> uint256:",
                     "    r: uint256 = self._mix(staticcall A(self.latt).cbv(p))", "    if r > 0:", "        return r", "    return 0", ""]),
          "\n".join(["@internal", "@nonreentrant", "def _prot(p: uint256) -> uint256:",
                     "    r: uint256 = self._mix(extcall A(self.latt).cb(p))", "    if r > 0:", "        return r", "    return 0", ""])]
    return "\n".join(L)


def victim_sources(pragma):
    """(main source, {module file name: source}): the victim is a two-module contract; the library module holds
    lock-protected external functions (exported) and a @nonreentrant internal function"""
    return _main_source(pragma), {"lib.vy": _lib_source(pragma)}


def victim_source(pragma):
    """single text (for replays / reports)"""
    m, files = victim_sources(pragma)
    return m + "".join(f"\n\n# ======== {k} ========\n{v}" for k, v in files.items())





# ---------------------------------------------------------------- scenario trees
ADV = 9


class VNode:
    """call to victim contract c (0/1), entry kind, exit path; child = ANode run by the callback (or None)"""

    def __init__(self, c, kind, exit_, child=None):
        self.c, self.kind, self.exit, self.child = c, kind, exit_, child


class ANode:
    """attacker frame; subs = list of (target VNode|ANode, static, rec, prop, tag)"""

    def __init__(self, subs=()):
        self.subs = list(subs)
        self.pid = None


def model_kind(kind, pragma):
    if kind in ("np", "pay", "default", "viaint", "kw1", "kw2", "rawnp", "rawst", "libnp", "libint", "leaf"):
        return "Nonview"
    if kind in ("view", "libview"):
        return "View"
    if kind == "getter":
        return "View" if pragma else "Unprot"
    return "Unprot"


def coq_node(n, pragma):
    if isinstance(n, ANode):
        body = "BEnd true"
        for (t, static, rec, prop, tag) in reversed(n.subs):
            body = (f"BSub ({coq_node(t, pragma)}) {'false' if prop else 'true'} {'true' if static else 'false'} "
                    f"({'Some ' + str(tag) if rec else 'None'}) ({body})")
        return f"Call {ADV}%nat Unprot ({body})"
    if n.kind == "nocode":      # a contract under construction has no code: the call succeeds and runs nothing
        return "Call 7%nat Unprot (BEnd false)"
    k = model_kind(n.kind, pragma)
    if n.kind in ("getter", "leaf"):
        return f"Call {n.c}%nat {k} (BEnd true)"
    view = n.kind in ("view", "libview")
    st = "true" if view else "false"
    x = "retbranch" if n.kind in FIXED_EXIT else n.exit
    if n.kind == "rawst":     # static raw_call whose failure is caught by the victim
        child = n.child if n.child is not None else ANode()
        return f"Call {n.c}%nat {k} (BSub ({coq_node(child, pragma)}) true true None (BEnd true))"
    if n.kind == "default":
        # x=fall: `self.sink = r`; x=retint: `self._void()` writes; other normal exits return before writing
        end = "BWrite (BEnd false)" if x in ("fall", "retint", "deep") else "BEnd false"
    elif x == "fall":
        end = "BEnd false" if view else "BWrite (BEnd false)"
    else:
        end = "BEnd true"
    if x in ("assert", "raise"):
        rest = "BFail"
    elif x == "subfail":
        rest = f"BSub (Call {ADV}%nat Unprot BFail) false {st} None ({end})"
    else:
        rest = end
    child = n.child if n.child is not None else ANode()
    return f"Call {n.c}%nat {k} (BSub ({coq_node(child, pragma)}) false {st} None ({rest}))"


def assign_pids(root):
    """number attacker nodes: empty ANodes share pid 0; returns list of non-empty ANodes"""
    out = []

    def walk(n):
        if isinstance(n, ANode):
            if not n.subs:
                n.pid = 0
            else:
                out.append(n)
                n.pid = len(out)
            for (t, *_r) in n.subs:
                walk(t)
        else:
            if n.child is not None:
                walk(n.child)
    walk(root)
    if len(out) > 15:
        raise ValueError("too many attacker nodes")
    return out


def entry_name(v):
    if v.kind == "getter":
        return "one"
    if v.kind == "default":
        return "__default__"
    if v.kind in ("kw1", "kw2"):
        return "e_kw"
    if v.kind == "leaf":
        return "e_leaf"
    if v.kind in FIXED_EXIT:
        return f"e_{v.kind}_retbranch"
    return f"e_{v.kind}_{v.exit}"


def entry_sig(v):
    if v.kind == "getter":
        return "one()"
    if v.kind == "kw2":
        return "e_kw(uint256,uint256)"
    return entry_name(v) + "(uint256)"
