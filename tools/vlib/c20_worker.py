"""C20 worker (fresh interpreter): compile every source of a shard under several configurations with a wall-time
limit per compilation, classify the outcome, print one JSON line per source.
argv[1] = JSON file {"items": [{"id":..., "src":...}], "limit": seconds, "configs": [[venom, level], ...]}"""
import json
import os
import signal
import sys
import traceback
import warnings


WANT_BYTECODE = False   # set from the job: return the deployment bytecode of successful compilations


class Timeout(BaseException):
    pass


def on_alarm(sig, frm):
    raise Timeout()


def innermost_vyper_frame(tb):
    fr = None
    for f in traceback.extract_tb(tb):
        if "/vyper/" in f.filename:
            fr = f
    if fr is None:
        return "?:?"
    return f"{fr.filename.split('/vyper/', 1)[1]}:{fr.name}"


def recursive_frame(tb):
    """for RecursionError: the vyper function occurring most often in the traceback (the cycle), which is stable,
    unlike the innermost frame (wherever the stack happened to run out)"""
    import collections
    c = collections.Counter()
    for f in traceback.extract_tb(tb):
        if "/vyper/" in f.filename:
            c[f"{f.filename.split('/vyper/', 1)[1]}:{f.name}"] += 1
    if not c:
        return "?:?"
    top = max(c.values())
    return sorted(k for k, v in c.items() if v == top)[0]


def has_location(e):
    try:
        if getattr(e, "annotations", None):
            return True
        if getattr(e, "lineno", None) is not None:
            return True
        return "line " in str(e)
    except Exception:
        return False


def classify(src, venom, level, limit, phase="bytecode", files=None, evm=None):
    r = classify1(src, venom, level, limit, phase, files, evm)
    if r.get("exc") == "Timeout":
        # a loaded machine must not produce a finding: retry once, alone, with 4x the limit
        r = classify1(src, venom, level, 4 * limit, phase, files, evm)
        if r.get("exc") == "Timeout":
            r["msg"] = f"no result within {limit}s and, retried, within {4 * limit}s"
    return r


def classify1(src, venom, level, limit, phase="bytecode", files=None, evm=None):
    from vyper.compiler import compile_code
    from vyper.compiler.settings import OptimizationLevel, Settings
    from vyper.exceptions import VyperException, VyperInternalException
    st = Settings(optimize=OptimizationLevel.from_string(level), experimental_codegen=venom, enable_decimals=True, evm_version=evm)
    signal.signal(signal.SIGALRM, on_alarm)
    signal.setitimer(signal.ITIMER_REAL, limit)
    try:
        with warnings.catch_warnings():
            warnings.simplefilter("ignore")
            fmts = ["bytecode", "bytecode_runtime", "abi"] if phase == "bytecode" else ["annotated_ast_dict"]
            out = None
            if files is None:
                out = compile_code(src, output_formats=fmts, settings=st)
            else:
                from vyper.cli.vyper_compile import compile_files
                root, target, paths, layout = files
                compile_files([os.path.join(root, target)], fmts, paths=[os.path.join(root, p) for p in paths],
                              include_sys_path=False, settings=st,
                              storage_layout_paths=[os.path.join(root, layout)] if layout else None)
        if WANT_BYTECODE and out is not None and "bytecode" in out:
            return {"outcome": "output", "bytecode": out["bytecode"]}
        return {"outcome": "output"}
    except Timeout:
        return {"outcome": "INTERNAL", "exc": "Timeout", "frame": "?", "msg": f"no result within {limit}s"}
    except VyperInternalException as e:
        return {"outcome": "INTERNAL", "exc": type(e).__name__, "frame": innermost_vyper_frame(e.__traceback__), "msg": str(e)[:300],
                "vyper_internal": True}
    except VyperException as e:
        # a diagnostic is only user-facing if it can be RENDERED (hints are lazy callables evaluated by __str__)
        try:
            msg = str(e)[:160]
        except Exception as e2:  # noqa
            return {"outcome": "INTERNAL", "exc": type(e2).__name__, "frame": innermost_vyper_frame(e2.__traceback__),
                    "msg": f"rendering the {type(e).__name__} diagnostic raised {type(e2).__name__}: {str(e2)[:120]}"}
        return {"outcome": "user", "exc": type(e).__name__, "loc": has_location(e), "frame": innermost_vyper_frame(e.__traceback__),
                "msg": msg}
    except RecursionError as e:
        return {"outcome": "INTERNAL", "exc": "RecursionError", "frame": recursive_frame(e.__traceback__), "msg": ""}
    except Exception as e:  # raw python exception
        return {"outcome": "INTERNAL", "exc": type(e).__name__, "frame": innermost_vyper_frame(e.__traceback__), "msg": str(e)[:300]}
    finally:
        signal.setitimer(signal.ITIMER_REAL, 0)


def main():
    job = json.load(open(sys.argv[1]))
    limit = job["limit"]
    global WANT_BYTECODE
    WANT_BYTECODE = bool(job.get("want_bytecode"))
    import tempfile
    for it in job["items"]:
        res = {"id": it["id"], "runs": {}}
        files = None
        if it.get("files"):
            root = tempfile.mkdtemp(prefix="c20w_")
            for rel, txt in it["files"].items():
                fp = os.path.join(root, rel)
                os.makedirs(os.path.dirname(fp), exist_ok=True)
                with open(fp, "w") as fh:
                    fh.write(txt)
            files = (root, it["target"], it.get("paths", ["."]), it.get("layout"))
        front = classify(it.get("src"), False, "gas", limit, phase="front", files=files)
        res["front"] = front
        for cfg in job["configs"]:
            venom, level = cfg[0], cfg[1]
            evm = cfg[2] if len(cfg) > 2 else it.get("evm")      # per-configuration target, else the item's own
            res["runs"][f"{'venom' if venom else 'legacy'}-{level}" + (f"-{evm}" if evm else "")] = \
                classify(it.get("src"), venom, level, limit, files=files, evm=evm)
            if res["front"]["outcome"] != "output":
                break  # rejected by the front end: one back-end run is enough to see the same diagnostic
        if files is not None:
            import shutil
            shutil.rmtree(files[0], ignore_errors=True)
        print("C20ROW" + json.dumps(res), flush=True)


if __name__ == "__main__":
    sys.setrecursionlimit(max(sys.getrecursionlimit(), 1000))
    main()
