"""C09: every STATEMENT SHAPE of leaving a lock-protected function, for external AND internal protected functions.

The release of the lock sits at ONE place per function (the exit sequence: legacy `<function>_cleanup` label / venom
`emit_nonreentrant_unlock` before `ret`/`stop`/`return`), and every statement that leaves the function must be routed
through it.  Routing is decided per statement, from the statement's context (return type, internal/external, enclosing
loops that have to be unwound, ...), so the family is the product

    kind      ext  (@external @nonreentrant)      int  (@internal @nonreentrant, entered from an unprotected external
                                                        dispatcher, once or TWICE in the same call)
    leave     ret  (bare `return`, no return type)   retv (`return <value>`)   fall (falls off the end)
              raise   assert
    position  top | inside `if` | inside one `for` (range / array iteration) | inside two nested `for`
              (range-range, array-range, range-array) | in a loop after an inner loop was left by `break` |
              in a loop after `continue`
    p         run-time argument choosing whether / in which iteration the leave statement is reached
              (boundary-biased: first iteration, last iteration, never)

Oracle (the property's own: Lock.v `lock_released`): whatever the shape and whether the call returned or reverted,
once it is over the lock is free --
  * SAME transaction (transient lock keeps its value): driver.drive(call) = the call, then poke() [@nonreentrant],
    price() [@nonreentrant @view, STATICCALL], fallback [@nonreentrant] must all succeed; an internal protected
    function entered a second time after its first activation ended must succeed;
  * LATER transactions (storage lock keeps its value; transient storage wiped): poke(), price() succeed.
Outcome and the counter `cnt` are also compared with a source-level mini model of the shape (disagreement without an
oracle violation = correspondence-broken).

On the SAME compilation the exported IR (venom runtime after all passes / legacy IR tree linearised by
c09_halt.HaltLin, where `exit_to return_pc` is a `ret` way out and `exit_to <label>` a jump) is checked by
coq/C09/HaltCheck.hcheck_program (sound: PropsHalt.printed_function_no_handover_after_unlock -- in particular NO way
out (return / stop / ret / selfdestruct) is taken while the lock is held)."""
import traceback

from vlib import c09_cfg as cg
from vlib import c09_halt as hl
from vlib import configs, coqrun
from vlib.evm import Chain

LEAVES = ("ret", "retv", "fall", "raise", "assert")
ARR = (1, 2, 3)
# position -> (lines with the placeholder LEAVE, python enumeration of the guard values in execution order)
POSITIONS = {
    "top": (["LEAVE"], lambda p: [True]),
    "if": (["if p == 1:", "    LEAVE"], lambda p: [p == 1]),
    "for_range": (["for i: uint256 in range(3):", "    if i == p:", "        LEAVE"], lambda p: [i == p for i in range(3)]),
    "for_arr": (["for x: uint256 in [1, 2, 3]:", "    if x == p:", "        LEAVE"], lambda p: [x == p for x in ARR]),
    "for_dyn": (["xs: DynArray[uint256, 4] = [1, 2, 3]", "for x: uint256 in xs:", "    if x == p:", "        LEAVE"],
                lambda p: [x == p for x in ARR]),
    "for_bound": (["for i: uint256 in range(p, bound=3):", "    if i == 1:", "        LEAVE"], lambda p: [i == 1 for i in range(p)]),
    "for2_rr": (["for i: uint256 in range(3):", "    for j: uint256 in range(2):", "        if i + j == p:", "            LEAVE"],
                lambda p: [i + j == p for i in range(3) for j in range(2)]),
    "for2_ar": (["for x: uint256 in [1, 2, 3]:", "    for j: uint256 in range(2):", "        if x + j == p:", "            LEAVE"],
                lambda p: [x + j == p for x in ARR for j in range(2)]),
    "for2_ra": (["for i: uint256 in range(2):", "    for x: uint256 in self.arr:", "        if i + x == p:", "            LEAVE"],
                lambda p: [i + x == p for i in range(2) for x in ARR]),
    "after_break": (["for i: uint256 in range(3):", "    for j: uint256 in range(3):", "        if j == 1:", "            break",
                     "        self.cnt += 16", "    if i == p:", "        LEAVE"],
                    lambda p: [i == p for i in range(3)]),
    "after_continue": (["for i: uint256 in range(3):", "    if i == 0:", "        continue", "    if i == p:", "        LEAVE"],
                       lambda p: [i == p for i in range(1, 3)]),
}
# argument values per position: leave reached in the first / a middle / the last iteration, and never
P_VALUES = {"top": (0, 1), "if": (0, 1), "for_range": (0, 1, 2, 9), "for_arr": (1, 2, 3, 9), "for_dyn": (1, 3, 9), "for_bound": (0, 1, 2, 3), "for2_rr": (0, 1, 3, 9),
            "for2_ar": (1, 2, 4, 9), "for2_ra": (1, 2, 4, 9), "after_break": (0, 1, 2, 9), "after_continue": (0, 1, 2, 9)}
LEAVE_STMT = {"ret": ["self.cnt += 1", "return"], "retv": ["self.cnt += 1", "return p + 7"], "fall": ["self.cnt += 1"],
              "raise": ['raise "no"'], "assert": ['assert p == 99, "no"']}
UNCONDITIONAL = ("ret", "retv", "raise")          # at position `top` nothing may follow these (unreachable code)

DRIVER = """
victim: public(address)

@external
def set_victim(v: address):
    self.victim = v

@external
def drive(data: Bytes[68]) -> uint256:
    # ONE transaction: the call under test, then the release probes.  bit 3: the call succeeded; bits 0-2: probes
    a: uint256 = 0
    ok: bool = raw_call(self.victim, data, revert_on_failure=False)
    if ok:
        a |= 8
    ok2: bool = raw_call(self.victim, method_id("poke()"), revert_on_failure=False)
    if ok2:
        a |= 1
    ok3: bool = False
    r3: Bytes[32] = b""
    ok3, r3 = raw_call(self.victim, method_id("price()"), max_outsize=32, is_static_call=True, revert_on_failure=False)
    if ok3:
        a |= 2
    ok4: bool = raw_call(self.victim, b"\\xde\\xad\\xbe\\xef", revert_on_failure=False)
    if ok4:
        a |= 4
    return a
"""


def shapes(leaves=LEAVES):
    """[(leave, position)] in a fixed order (the index is the dispatcher's function number)"""
    return [(lv, pos) for lv in leaves for pos in POSITIONS]


def body(lv, pos):
    out = []
    for ln in POSITIONS[pos][0]:
        if ln.strip() == "LEAVE":
            ind = ln[:len(ln) - len(ln.lstrip())]
            out += [ind + s for s in LEAVE_STMT[lv]]
        else:
            out.append(ln)
    if not (pos == "top" and lv in UNCONDITIONAL):
        out.append("self.cnt += 2")
        if lv == "retv":
            out.append("return 0")
    return out


def model(lv, pos, p):
    """source-level meaning of one activation: (reverts, cnt delta, returned value or None)"""
    guards = POSITIONS[pos][1](p)
    inner = {"after_break": 16}.get(pos, 0)      # writes of the inner loop that is left by `break` (one per outer iteration)
    d = 0
    for g in guards:
        d += inner
        if g:
            if lv in ("raise", "assert"):
                return True, 0, None
            d += 1
            if lv == "ret":
                return False, d, None
            if lv == "retv":
                return False, d, p + 7
    return False, d + 2, (0 if lv == "retv" else None)


def victim_source(pragma=False, leaves=LEAVES, part="ext"):
    """part ext: the @external @nonreentrant functions; part int: the @internal @nonreentrant functions + the unprotected
    dispatcher (two contracts: all shapes in one exceed the EIP-170 code size at -O none)"""
    prot = [] if pragma else ["@nonreentrant"]
    unprot = ["@reentrant"] if pragma else []
    L = (["#pragma nonreentrancy on", ""] if pragma else []) + [
        ("cnt: reentrant(public(uint256))" if pragma else "cnt: public(uint256)"), "total: uint256", "arr: uint256[3]", "",
        "@deploy", "def __init__():", "    self.arr = [1, 2, 3]", "",
        "@external"] + prot + ["def poke():", "    self.total += 1", "",
        "@external", "@view"] + prot + ["def price() -> uint256:", "    return self.total", "",
        "@external", "@payable"] + prot + ["def __default__():", "    self.total += 1", ""]
    disp = ["@external"] + unprot + ["def run_int(a: uint256) -> uint256:", "    f: uint256 = a & 255", "    p: uint256 = (a >> 8) & 255",
                                      "    n: uint256 = a >> 16", "    r: uint256 = 0", "    for k: uint256 in range(2):",
                                      "        if k >= n:", "            break"]
    for idx, (lv, pos) in enumerate(shapes(leaves)):
        ann = " -> uint256" if lv == "retv" else ""
        b = ["    " + s for s in body(lv, pos)]
        if part == "ext":
            L += ["@external"] + prot + [f"def x_{lv}_{pos}(p: uint256){ann}:"] + b + [""]
        else:
            L += ["@internal", "@nonreentrant", f"def _i_{lv}_{pos}(p: uint256){ann}:"] + b + [""]
        disp += [f"        if f == {idx}:", f"            {'r = ' if ann else ''}self._i_{lv}_{pos}(p)"]
    if part == "int":
        L += disp + ["    return r", ""]
    return "\n".join(L)


def scenarios(leaves=LEAVES):
    """[(kind, leave, position, index, p, n)]: kind ext (n = 1) / int (n = 1: entered once, n = 2: twice in one call)"""
    out = []
    for idx, (lv, pos) in enumerate(shapes(leaves)):
        for p in P_VALUES[pos]:
            out.append(("ext", lv, pos, idx, p, 1))
            out.append(("int", lv, pos, idx, p, 1))
            out.append(("int", lv, pos, idx, p, 2))
    return out


def expected(lv, pos, p, n):
    """(reverts, cnt delta, returned)"""
    tot, ret = 0, None
    for _ in range(n):
        rev, d, ret = model(lv, pos, p)
        if rev:
            return True, 0, None
        tot += d
    return False, tot, ret


class World:
    def __init__(self, cfg, v, d):
        self.ch = Chain(cfg.evm)
        self.D = self.ch.deploy(bytes.fromhex(d["bytecode"][2:]))
        self.V = self.ch.deploy(bytes.fromhex(v["bytecode"][2:]))
        if None in (self.D, self.V):
            raise RuntimeError("deployment failed")
        self.vmi = {k: int(x, 16).to_bytes(4, "big") for k, x in v["method_identifiers"].items()}
        self.dmi = {k: int(x, 16).to_bytes(4, "big") for k, x in d["method_identifiers"].items()}
        r = self.ch.call(self.D, self.dmi["set_victim(address)"] + bytes(12) + bytes.fromhex(self.V[2:]))
        if not r.ok:
            raise RuntimeError("setup failed")
        self.ch.reset_transient()
        self.base = self.ch.snapshot()

    def reset(self):
        self.ch.revert(self.base)
        self.base = self.ch.snapshot()
        self.ch.reset_transient()

    def cnt(self):
        r = self.ch.call(self.V, self.vmi["cnt()"])
        self.ch.reset_transient()
        return int.from_bytes(r.out, "big") if r.ok and len(r.out) == 32 else None

    def calldata(self, kind, lv, pos, idx, p, n):
        if kind == "ext":
            return self.vmi[f"x_{lv}_{pos}(uint256)"] + p.to_bytes(32, "big")
        return self.vmi["run_int(uint256)"] + (idx | p << 8 | n << 16).to_bytes(32, "big")

    def run_same_tx(self, data):
        """driver.drive(data): the call, then poke / price / fallback, all in ONE transaction"""
        self.reset()
        call = self.dmi["drive(bytes)"] + (32).to_bytes(32, "big") + len(data).to_bytes(32, "big") + data + bytes(-len(data) % 32)
        r = self.ch.call(self.D, call)
        self.ch.reset_transient()
        o = {"calldata_to_driver": call.hex(), "driver_ok": r.ok, "ok": None, "after": None, "cnt": None}
        if r.ok and len(r.out) == 32:
            a = int.from_bytes(r.out, "big")
            o["ok"], o["after"] = bool(a & 8), a & 7
            o["cnt"] = self.cnt()
        return o

    def run_later_tx(self, data):
        """the call as a transaction of its own; then poke(), price() as LATER transactions (transient storage wiped)"""
        self.reset()
        r = self.ch.call(self.V, data)
        self.ch.reset_transient()
        o = {"calldata": data.hex(), "ok": r.ok, "out": r.out.hex()}
        r2 = self.ch.call(self.V, self.vmi["poke()"])
        self.ch.reset_transient()
        r3 = self.ch.call(self.V, self.vmi["price()"], static=True)
        self.ch.reset_transient()
        o["later"] = (1 if r2.ok else 0) | (2 if r3.ok else 0)
        o["cnt"] = self.cnt()
        return o


def leaves_for(cfg, seed=0):
    """the venom pipeline inlines the whole family into one function and needs ~13 s CPU for all 45 shapes: there the two
    returning leaves + ONE of fall / raise / assert (chosen by the seed); legacy: all five"""
    return LEAVES if not cfg.venom else ("ret", "retv", ("fall", "raise", "assert")[seed % 3])


def check_config(cfg, pragma=False, seed=0):
    leaves = leaves_for(cfg, seed)
    ref = configs.Config(False, "gas", cfg.evm)
    d = configs.compile_src(DRIVER, ref, formats=("bytecode", "method_identifiers"))
    srcs = {k: victim_source(pragma, leaves, k) for k in ("ext", "int")}
    vs = {k: hl.compile_victim(cfg, srcs[k]) for k in srcs}
    ws = {k: World(cfg, vs[k], d) for k in srcs}
    transient = "$.nonreentrant_key" in vs["ext"]["layout"].get("transient_storage_layout", {})
    viol, mism = [], []
    n_eval = n_loop_leave = 0
    once_ok = {}
    for kind, lv, pos, idx, p, n in scenarios(leaves):
        fn = f"x_{lv}_{pos}" if kind == "ext" else f"_i_{lv}_{pos}"
        rev, dcnt, ret = expected(lv, pos, p, n)
        w, src = ws[kind], srcs[kind]
        data = w.calldata(kind, lv, pos, idx, p, n)
        same = w.run_same_tx(data)
        later = w.run_later_tx(data)
        n_eval += 1
        if pos.startswith(("for", "after")) and lv != "fall" and any(POSITIONS[pos][1](p)):
            n_loop_leave += 1
        shape = f"{kind}:{lv}:{pos}"
        base = {"config": cfg.name, "pragma_style": pragma, "lock": "transient" if transient else "storage", "exit_shape": shape,
                "function": fn, "function_source": "\n".join(body(lv, pos)), "argument_p": p, "activations_in_the_call": n,
                "same_transaction": same, "later_transactions": later, "victim_source": src, "driver_source": DRIVER, "leaves": list(leaves), "seed": seed,
                "expected": {"reverts": rev, "cnt": dcnt, "returned": ret, "probes_same_tx(poke|price|fallback)": 7, "probes_later_tx(poke|price)": 3},
                "how": "vlib.c09_exits.World(cfg, c09_halt.compile_victim(cfg, victim_source(pragma_style, leaves, kind)), driver): deploy driver, victim; "
                       "driver.set_victim(victim); (a) send `calldata_to_driver` = driver.drive(calldata): the call, then poke(), price() "
                       "[STATICCALL], fallback in ONE transaction, result word = ok<<3 | fallback<<2 | price<<1 | poke; (b) send `calldata` to the "
                       "victim, wipe transient storage, then poke() and price() as later transactions"}
        if not same["driver_ok"] or same["after"] is None:
            mism.append(dict(base, problem="the driver transaction failed"))
            continue
        bad = []
        if same["after"] != 7:
            bad.append(f"in the same transaction poke/price/fallback = {[bool(same['after'] >> i & 1) for i in range(3)]}")
        if later["later"] != 3:
            bad.append(f"in later transactions poke/price = {[bool(later['later'] >> i & 1) for i in range(2)]}")
        if n == 1:
            once_ok[(kind, lv, pos, p)] = same["ok"] and later["ok"]
        elif not rev and once_ok.get((kind, lv, pos, p)) and not (same["ok"] and later["ok"]):
            bad.append("entering the protected internal function a second time, after its first activation had ended, reverted")
        if bad:
            viol.append((f"lock not released after leaving {fn} ({'external' if kind == 'ext' else 'internal'} @nonreentrant) through `{lv}` at "
                         f"position `{pos}` (p = {p}) under {cfg.name}: " + "; ".join(bad),
                         dict(base, problem="lock still held after the outermost protected call was over")))
            continue
        if same["ok"] != (not rev) or later["ok"] != (not rev):
            mism.append(dict(base, problem=f"call outcome: expected {'revert' if rev else 'success'}"))
        elif same["cnt"] != dcnt or later["cnt"] != dcnt:
            mism.append(dict(base, problem=f"counter: expected {dcnt}"))
        elif not rev and ret is not None and int(later["out"] or "0", 16) != ret:
            mism.append(dict(base, problem=f"returned value: expected {ret}"))
    return {"n": n_eval, "nl": n_loop_leave, "viol": viol, "mism": mism,
            "exports": [(f"{cfg.name}{' #pragma nonreentrancy on' if pragma else ''} [{k}]", vs[k]["export"], vs[k]["export_error"]) for k in vs],
            "nshapes": len(shapes(leaves)), "config": f"{cfg.name}{' #pragma nonreentrancy on' if pragma else ''}"}


def worker(job):
    import warnings
    warnings.filterwarnings("ignore")
    cfg, pragma, seed = job
    try:
        r = check_config(cfg, pragma, seed)
        try:      # coqc in this worker process, so that the whole part overlaps with the rest of the check
            r["failures"], r["tot"] = run_checker([r])
        except Exception as e:  # coqc failure / time limit: fail closed
            r["failures"], r["tot"] = [(r["config"], f"checker run failed: {type(e).__name__}: {str(e)[-600:]}")], {}
        r["exports"] = []      # large strings: not needed by the parent
        return r
    except Exception as e:  # noqa
        return {"n": 0, "nl": 0, "viol": [], "nshapes": 0, "exports": [], "failures": [], "tot": {}, "config": cfg.name,
                "mism": [{"config": cfg.name, "pragma_style": pragma, "function": "-", "exit_shape": "-",
                          "problem": f"exit-shape family failed: {type(e).__name__}: {e}", "observed": traceback.format_exc()[-1500:]}]}


STAT_KEYS = hl.STAT_KEYS


def run_checker(res):
    """HaltCheck.hcheck_program on every exported program, one coqc batch.  -> (failures[(config, text)], totals)"""
    failures, exprs, owners = [], [], []
    for r, (cname, e, err) in ((r, x) for r in res for x in r["exports"]):
        if e is None:
            failures.append((cname, "export: " + str(err)))
            continue
        exprs.append(f"let p := {e['program']} in let L := {e['lock_cfg']} in "
                     f"hstats_program L p ++ map (fun b : bool => if b then 1 else 0) (hcheck_program L p {e['labels']})")
        owners.append((cname, e["names"], e.get("hint"), r["nshapes"]))
    outs = coqrun.eval_zlists("From Verif Require Import C09.Lock C09.LockTpl C09.ExitCheck C09.RichCfg C09.HaltCheck.\n", exprs,
                              "c09exits", shard=2, timeout=600) if exprs else []
    tot = dict.fromkeys(STAT_KEYS, 0)
    tot["functions"] = tot["functions_checked"] = 0
    for (name, fnames, hint, nshapes), o in zip(owners, outs):
        if len(o) != len(STAT_KEYS) + len(fnames):
            failures.append((name, f"unexpected checker output of length {len(o)} for {len(fnames)} functions"))
            continue
        st = dict(zip(STAT_KEYS, o))
        for k, v in st.items():
            tot[k] += v
        tot["functions"] += len(fnames)
        # non-vacuity (counted by Coq): nshapes protected shapes + 3 probes per contract take the lock; tail merging / elision of a lock
        # store that is overwritten without a call in between (-O gas and above) may remove sites, so the floors are low
        # (the venom pipeline inlines the internal functions into the dispatcher: few ways out there)
        if st["unlocks"] < nshapes or st["other_exits"] < (nshapes if name.endswith("[ext]") else 1):
            failures.append((name, f"too few unlock sites / ways out classified: {st}"))
        for fn, v in zip(fnames, o[len(STAT_KEYS):]):
            tot["functions_checked"] += 1
            if v != 1:
                failures.append((name, f"function {fn}: rejected by HaltCheck.hcheck_program (a way out -- return / stop / ret -- with the lock "
                                       "held, a hand-over point between the unlock store and the way out, or an unclassifiable store to the "
                                       "lock slot)" + (f"; hint (untrusted): {hint}" if hint else "")))
    return failures, tot


def jobs_for(cfgs, seed=0, pragma=None, thorough=False):
    """[(configuration, pragma style, seed)].  quick: two legacy configurations (one per lock kind: transient / storage) and
    one venom configuration, rotating over the tier's configurations with the seed; thorough: all of them.  The
    protection style (decorators / `#pragma nonreentrancy on`) alternates."""
    if pragma is not None:
        return [(c, pragma, seed) for c in cfgs]
    if thorough:
        return [(c, (i + seed) % 2 == 0, seed) for i, c in enumerate(cfgs)]
    from vlib.c09_build import lock_consts
    lt = [c for c in cfgs if not c.venom and lock_consts(c.evm)[3]]
    ls = [c for c in cfgs if not c.venom and not lock_consts(c.evm)[3]]
    ven = [c for c in cfgs if c.venom]
    pick = [g[seed % len(g)] for g in (lt, ls, ven) if g]
    return [(c, (i + seed) % 2 == 0, seed) for i, c in enumerate(pick)]


def launch(jobs):
    from concurrent.futures import ProcessPoolExecutor
    ex = ProcessPoolExecutor(max_workers=2)
    return ex, [ex.submit(worker, j) for j in jobs]


def part_exits(ctx, jobs, found_before=False, launched=None):
    """returns True iff a failing input was found"""
    ex, futs = launched if launched is not None else launch(jobs)
    try:
        res = [f.result() for f in futs]
    finally:
        ex.shutdown(wait=False)
    viol = [v for r in res for v in r["viol"]]
    mism = [m for r in res for m in r["mism"]]
    failures = [f for r in res for f in r["failures"]]
    tot = {}
    for r in res:
        for k, v in r["tot"].items():
            tot[k] = tot.get(k, 0) + v
    ctx.corr["exit_shape_family"] = {"evaluations": sum(r["n"] for r in res), "leaves_from_inside_a_loop": sum(r["nl"] for r in res),
                                     "shapes (kind x leave x position, summed over jobs)": 2 * sum(r.get("nshapes", 0) for r in res),
                                     "jobs (configuration, pragma style)": [[c.name, p] for c, p, _s in jobs], "violations": len(viol),
                                     "mismatches": len(mism), "halt_check": tot, "halt_check_failures": len(failures),
                                     "halt_check_failure_samples": [f"{c}: {t}"[:400] for c, t in failures[:3]]}
    seen = set()
    for name, d in viol:
        key = f"c09:exit-shape:{d['exit_shape']}:{d['lock']}"
        if key in seen or len(seen) >= 3:
            continue
        seen.add(key)
        d = dict(d, configurations=sorted({x[1]["config"] for x in viol if x[1]["exit_shape"] == d["exit_shape"]}),
                 shapes_affected=sorted({x[1]["exit_shape"] for x in viol}))
        ctx.violation("failing-input", name, d, key=key)
    if not viol:
        for d in mism[:3]:
            ctx.violation("correspondence-broken", f"exit-shape family: {d.get('problem')} ({d.get('function')}, p={d.get('argument_p')}, "
                                                   f"{d.get('config')})", d)
        for cfgname, text in ([] if found_before else failures[:3]):
            ctx.violation("theorem-broken", f"printed_function_no_handover_after_unlock: {text} [{cfgname}]",
                          {"config": cfgname, "what": text, "source": victim_source("pragma" in cfgname, part="int" if "[int]" in cfgname else "ext")})
    return bool(viol)
