"""C05 extension, O-tie of the ENTRY GLUE: the real functions that hand calldata / code arguments to the decoders are run
on real function types built by the front end from source text (no mock-up of the glue):
  legacy  external_function._register_function_args + _generate_kwarg_handlers   (f(x: T, k: T = empty(T)))
          and _register_function_args for a constructor __init__(p0: uint256, x: T)
  venom   module._generate_external_entry_points + _register_positional_args + _handle_kwargs, and
          _register_constructor_args (with its CODESIZE check) for the same two sources
and serialised as Coq `sx` terms (coq/C05/GenGlueC.v): emitted IR + EntryPointInfo.min_calldatasize of both entry
points.  TieGlueC.v matches them against the Coq generators of TplGlueC.v by vm_compute."""
from . import c06_abi as A
from . import c06_tpl as TP
from . import c05_cdtpl as X


# interface-typed values (ABI: address; a prim word that is NOT a _PrimT subclass): top level and nested in dynamic
# arrays, static arrays and structs.  The Coq type is the one with `address` in place of the interface.
IFACE = [("iface",), ("darr", ("iface",), 3), ("sarr", ("iface",), 2), ("tuple", (("iface",), ("uint", 256))),
         ("darr", ("tuple", (("uint", 256), ("iface",))), 2), ("tuple", (("bytes", 5), ("iface",))),
         ("darr", ("darr", ("iface",), 2), 2)]


def strip(t):
    """the ABI shape: interfaces are addresses"""
    k = t[0]
    if k == "iface":
        return ("address",)
    if k in ("darr", "sarr"):
        return (k, strip(t[1]), t[2])
    if k == "tuple":
        return ("tuple", tuple(strip(x) for x in t[1]))
    return t


def has_iface(t):
    return t != strip(t)


class IDecls:
    """source text for shapes that contain interface types (c06_abi.Decls does not know them)"""

    def __init__(self):
        self.structs = []

    def vy(self, t):
        k = t[0]
        if k == "iface":
            return "Foo"
        if k == "darr":
            return f"DynArray[{self.vy(t[1])}, {t[2]}]"
        if k == "sarr":
            return f"{self.vy(t[1])}[{t[2]}]"
        if k == "tuple":
            members = [self.vy(x) for x in t[1]]
            name = f"IS{len(self.structs)}"
            self.structs.append((name, members))
            return name
        return A.Decls().vy(t)

    def text(self):
        out = "interface Foo:\n    def bar(): nonpayable\n\n"
        for name, members in self.structs:
            out += f"struct {name}:\n" + "".join(f"    m{i}: {m}\n" for i, m in enumerate(members)) + "\n"
        return out


def family():
    fam = X.family()
    return fam[::3] + fam[-7:] + IFACE


def _front_end(src, settings):
    from vyper import ast as vy_ast
    from vyper.compiler.phases import CompilerData
    cd = CompilerData(src, settings=settings)
    mod = cd.annotated_vyper_module
    fn = [n for n in mod.get_children(vy_ast.FunctionDef)][0]
    return mod._metadata["type"], fn._metadata["func_type"]


def sources(t):
    d = IDecls() if has_iface(t) else A.Decls()
    T = d.vy(t)
    return (d.text() + f"\n@external\ndef f(x: {T}, k: {T} = empty({T})):\n    pass\n",
            d.text() + f"\n@deploy\ndef __init__(p0: uint256, x: {T}):\n    pass\n")


def sl(items):
    return "(SL [" + "; ".join(items) + "])"


def legacy_glue(t):
    from vyper.codegen.core import reset_names
    from vyper.codegen.function_definitions import external_function as EF
    from vyper.codegen.function_definitions.common import _FuncIRInfo, initialize_context
    from vyper.compiler.settings import OptimizationLevel, Settings, anchor_settings
    st = Settings(evm_version="cancun", optimize=OptimizationLevel.GAS)
    s_ext, s_ctor = sources(t)
    with anchor_settings(st):
        module_t, func_t = _front_end(s_ext, st)
        func_t._ir_info = _FuncIRInfo(func_t)
        func_t._function_id = 1
        reset_names()
        ctx = initialize_context(func_t, module_t, False)
        base = [TP.sx_of_ir(x) for x in EF._register_function_args(func_t, ctx)]
        eps = EF._generate_kwarg_handlers(func_t, ctx)
        keys = sorted(eps, key=lambda k: eps[k].min_calldatasize)
        assert len(keys) == 2
        h1 = eps[keys[1]].ir_node
        assert h1[0] == "seq" and h1[-1][0] == "goto" and len(h1) == 3, str(h1)[:200]
        handler = TP.sx_of_ir(h1[1])
        mins = [eps[k].min_calldatasize for k in keys]
        module_c, func_c = _front_end(s_ctor, st)
        func_c._ir_info = _FuncIRInfo(func_c)
        func_c._function_id = 2
        reset_names()
        ctx_c = initialize_context(func_c, module_c, True)
        ctor = [TP.sx_of_ir(x) for x in EF._register_function_args(func_c, ctx_c)]
    return sl([sl(base), f"(SI {mins[0]})", f"(SI {mins[1]})", handler, sl(ctor)])


def venom_glue(t):
    from vyper.codegen_venom import module as VM
    from vyper.codegen_venom.context import VenomCodegenContext
    from vyper.compiler.settings import Settings, anchor_settings
    from vyper.venom.builder import VenomBuilder
    from vyper.venom.context import IRContext
    st = Settings(evm_version="cancun", experimental_codegen=True)
    s_ext, s_ctor = sources(t)
    out = []
    with anchor_settings(st):
        module_t, func_t = _front_end(s_ext, st)
        VM._init_ir_info(func_t)
        ctx = IRContext()
        fn = ctx.create_function("probe")
        b = VenomBuilder(ctx, fn)
        cg = VenomCodegenContext(module_ctx=module_t, builder=b, func_t=func_t, constancy=VM._get_constancy(func_t),
                                 is_ctor_context=False)
        eps = VM._generate_external_entry_points(func_t)
        keys = sorted(eps, key=lambda k: eps[k].min_calldatasize)
        assert len(keys) == 2
        VM._register_positional_args(cg, func_t)
        VM._handle_kwargs(cg, func_t, eps[keys[1]])
        b.stop()
        out.append(TP.sx_of_venom_fn(fn))
        out += [f"(SI {eps[k].min_calldatasize})" for k in keys]
        module_c, func_c = _front_end(s_ctor, st)
        VM._init_ir_info(func_c)
        ctx = IRContext()
        fn = ctx.create_function("probe")
        b = VenomBuilder(ctx, fn)
        cg = VenomCodegenContext(module_ctx=module_c, builder=b, func_t=func_c, constancy=VM._get_constancy(func_c),
                                 is_ctor_context=True)
        VM._register_constructor_args(cg, func_c)
        b.stop()
        out.append(TP.sx_of_venom_fn(fn))
    return sl(out)


def tables():
    fam = family()
    rows_l, rows_v, skipped = [], [], []
    for t in fam:
        try:
            l, v = legacy_glue(t), venom_glue(t)
        except Exception as e:  # noqa  (a shape the front end rejects as a default-argument type is counted, not tied)
            skipped.append((A.eth_ty(strip(t)), f"{type(e).__name__}: {e}"[:120]))
            continue
        rows_l.append((strip(t), l))
        rows_v.append((strip(t), v))
    return rows_l, rows_v, skipped


def write_gen(coq_dir):
    rows_l, rows_v, skipped = tables()
    txt = (TP.HEADER.replace("c06_tpl.py", "c05_cdglue.py") + TP.coq_table("obs_glue_l", rows_l) + "\n" +
           TP.coq_table("obs_glue_v", rows_v))
    p = coq_dir / "C05" / "GenGlueC.v"
    if not p.exists() or p.read_text() != txt:
        p.write_text(txt)
    return [t for t, _ in rows_l], skipped


def differing_shapes():
    from . import coqrun
    imp = "From Verif Require Import C06.Abi C06.Sexp C05.TplDecC C05.TplGlueC C05.GenGlueC.\n"
    ex = ["map (fun p => if sx_eqb (glue_l (fst p)) (snd p) then 1 else 0) obs_glue_l",
          "map (fun p => if sx_eqb (glue_v (fst p)) (snd p) then 1 else 0) obs_glue_v"]
    outs = coqrun.eval_zlists(imp, ex, "c05gluetie", shard=1)
    rows_l, rows_v, _ = tables()
    return {"legacy": [A.eth_ty(t) for (t, _), ok in zip(rows_l, outs[0]) if not ok],
            "venom": [A.eth_ty(t) for (t, _), ok in zip(rows_v, outs[1]) if not ok]}


def real_needs_clamp():
    """[(python shape, vyper type string, needs_clamp legacy, needs_clamp venom)] on the REAL argument types the front end
    builds for the glue family (including interface-typed shapes)"""
    from vyper.codegen.core import needs_clamp as nc_legacy
    from vyper.codegen.ir_node import Encoding
    from vyper.codegen_venom.abi.abi_decoder import needs_clamp as nc_venom
    from vyper.compiler.settings import Settings, anchor_settings
    st = Settings(evm_version="cancun")
    out = []
    with anchor_settings(st):
        for t in family():
            try:
                _, func_t = _front_end(sources(t)[0], st)
            except Exception:  # noqa
                continue
            vt = func_t.positional_args[0].typ
            out.append((t, str(vt), int(nc_legacy(vt, Encoding.ABI)), int(nc_venom(vt))))
    return out
