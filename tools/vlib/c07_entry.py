"""C07: the default-argument entry-point family.

For every external function with k defaulted parameters the compiler emits k+1 entry points; the one selected by the
selector of the j-th prefix signature must see exactly the values supplied in calldata for the parameters present and
the declared defaults for the rest.  The family crosses every prefix arity with parameter HEAD SHAPES: static word,
static struct (2 words), static array, String, Bytes, DynArray, dynamic struct (String member / DynArray member),
static array of DynArrays, nested DynArray -- as positional parameter before the defaulted ones and as defaulted
parameter followed by further defaulted ones.  Each function returns one fingerprint per parameter.
"""
from eth_abi import encode

# name -> (vyper type, abi type, fingerprint expr on `{v}`, [supplied value, default value (python)], default literal)
TYPES = {
    "U": dict(vy="uint256", abi="uint256", fp="{v}", vals=[101, 7], lit="7"),
    "SS": dict(vy="P", abi="(uint256,uint256)", fp="{v}.a * 3 + {v}.b", vals=[(11, 12), (1, 2)], lit="P(a=1, b=2)"),
    "SA": dict(vy="uint256[2]", abi="uint256[2]", fp="{v}[0] * 5 + {v}[1]", vals=[[21, 22], [3, 4]], lit="[3, 4]"),
    "ST": dict(vy="String[8]", abi="string", fp="len({v})", vals=["abcdefg", "hi"], lit='"hi"'),
    "BY": dict(vy="Bytes[8]", abi="bytes", fp="len({v})", vals=[b"\x01\x02\x03\x04\x05", b"\x09"], lit='b"\\x09"'),
    "DA": dict(vy="DynArray[uint256, 3]", abi="uint256[]", fp="self.fp_da({v})", vals=[[31, 32, 33], [5]], lit="[5]"),
    "DS": dict(vy="T", abi="(string,uint256)", fp="len({v}.label) * 1000 + {v}.weight", vals=[("supplied", 41), ("dflt", 5)],
               lit='T(label="dflt", weight=5)'),
    "DQ": dict(vy="Q", abi="(uint256[],uint256)", fp="self.fp_da2({v}.xs) + {v}.n * 7", vals=[([51, 52], 53), ([6], 8)],
               lit="Q(xs=[6], n=8)"),
    "SAD": dict(vy="DynArray[uint256, 3][2]", abi="uint256[][2]", fp="self.fp_da({v}[0]) * 3 + self.fp_da({v}[1])",
                vals=[[[61], [62, 63, 64]], [[1], [2, 3]]], lit="[[1], [2, 3]]"),
    "NDA": dict(vy="DynArray[DynArray[uint256, 2], 2]", abi="uint256[][]", fp="self.fp_nda({v})",
                vals=[[[71, 72], [73]], [[9]]], lit="[[9]]"),
}
PRELUDE = '''
struct P:
    a: uint256
    b: uint256

struct T:
    label: String[8]
    weight: uint256

struct Q:
    xs: DynArray[uint256, 2]
    n: uint256

@internal
@pure
def fp_da(x: DynArray[uint256, 3]) -> uint256:
    acc: uint256 = len(x) * 1000
    for v: uint256 in x:
        acc += v
    return acc

@internal
@pure
def fp_da2(x: DynArray[uint256, 2]) -> uint256:
    acc: uint256 = len(x) * 1000
    for v: uint256 in x:
        acc += v
    return acc

@internal
@pure
def fp_nda(x: DynArray[DynArray[uint256, 2], 2]) -> uint256:
    acc: uint256 = len(x) * 100000
    for y: DynArray[uint256, 2] in x:
        acc += len(y) * 1000
        for v: uint256 in y:
            acc += v
    return acc
'''


def py_fp(t, v):
    if t == "U":
        return v
    if t == "SS":
        return v[0] * 3 + v[1]
    if t == "SA":
        return v[0] * 5 + v[1]
    if t in ("ST", "BY"):
        return len(v)
    if t == "DA":
        return len(v) * 1000 + sum(v)
    if t == "DS":
        return len(v[0]) * 1000 + v[1]
    if t == "DQ":
        return len(v[0]) * 1000 + sum(v[0]) + v[1] * 7
    if t == "SAD":
        return (len(v[0]) * 1000 + sum(v[0])) * 3 + len(v[1]) * 1000 + sum(v[1])
    if t == "NDA":
        return len(v) * 100000 + sum(len(y) * 1000 + sum(y) for y in v)
    raise KeyError(t)


ENTRY_MUTS = ("", "view", "payable", "pure", "nonpayable")     # "" = undecorated


class EFn:
    def __init__(self, name, params, n_default, mut=""):
        """params: list of type keys; the last n_default are defaulted; mut: mutability decorator ("" = none).
        Expected payability comes from the decorator text alone: only "payable" accepts value."""
        assert mut in ENTRY_MUTS, mut
        self.name, self.params, self.nd, self.mut = name, params, n_default, mut

    @property
    def payable(self):
        return self.mut == "payable"

    @property
    def npos(self):
        return len(self.params) - self.nd

    def source(self, idx):
        args = []
        for i, t in enumerate(self.params):
            d = TYPES[t]
            args.append(f"p{i}: {d['vy']}" + (f" = {d['lit']}" if i >= self.npos else ""))
        fps = ", ".join(TYPES[t]["fp"].format(v=f"p{i}") for i, t in enumerate(self.params))
        return (f"@external\n{'@' + self.mut + chr(10) if self.mut else ''}def {self.name}({', '.join(args)}) -> uint256[{len(self.params) + 1}]:\n"
                f"    return [{idx}, {fps}]\n")

    def variants(self):
        """(signature, abi types, supplied python values, expected fingerprints) per prefix arity"""
        out = []
        for j in range(self.nd + 1):
            n = self.npos + j
            types = [TYPES[t]["abi"] for t in self.params[:n]]
            vals = [TYPES[t]["vals"][0] for t in self.params[:n]]
            exp = [py_fp(t, TYPES[t]["vals"][0 if i < n else 1]) for i, t in enumerate(self.params)]
            out.append((f"{self.name}({','.join(types)})", types, vals, exp))
        return out


def family(rnd, tier):
    fns = []
    keys = list(TYPES)
    k = 0
    for t in keys:
        # t positional, then two defaulted words; t defaulted followed by a defaulted word; t between two defaulted words
        for params, nd in (([t, "U", "U"], 2), (["U", t, "U"], 2), (["U", "U", t, "U"], 3)):
            fns.append(EFn(f"e{k}", params, nd, ENTRY_MUTS[k % len(ENTRY_MUTS)]))
            k += 1
    n_rand = 12 if tier == "quick" else 60
    for _ in range(n_rand):
        n = rnd.randrange(2, 5)
        params = [rnd.choice(keys) for _ in range(n)]
        fns.append(EFn(f"e{k}", params, rnd.randrange(1, n + 1), rnd.choice(ENTRY_MUTS)))
        k += 1
    return fns


def contracts(fns, per=7):
    out = []
    for i in range(0, len(fns), per):
        chunk = fns[i:i + per]
        src = PRELUDE + "\n" + "\n".join(f.source(i + j) for j, f in enumerate(chunk))
        out.append((src, chunk, i))
    return out


def head_size(types, vals):
    """4 + size of the head of the ABI-encoded argument tuple = the entry point's min_calldatasize: a dynamic type
    (per eth_abi's grammar) occupies one offset word, a static one its whole encoding"""
    from eth_abi.grammar import parse
    n = 4
    for t, v in zip(types, vals):
        n += 32 if parse(t).is_dynamic else len(encode([t], [v]))
    return n


def truncation_lengths(head, tier):
    """calldata lengths in [4, head): all of them (thorough) or both sides of every word boundary (quick)"""
    if tier == "thorough":
        return list(range(4, head))
    ls = set()
    for b in range(4, head + 1, 32):
        ls.update({b - 1, b, b + 1, b + 16})
    ls.add(head - 1)
    return sorted(x for x in ls if 4 <= x < head)


def calldata(sig, types, vals):
    from vyper.utils import method_id
    return method_id(sig) + encode(types, vals)
