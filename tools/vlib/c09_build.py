"""C09: compile one victim contract under one configuration (worker process) and return plain data:
bytecode, selectors, layout and the exported CFGs (Coq terms + statistics)."""
import json
import traceback

from vlib import c09_cfg as cg
from vlib import c09_contracts as cc
from vlib import configs


def lock_consts(evm):
    tr = evm in ("cancun", "prague")
    return ("tstore", 1, 0, True) if tr else ("sstore", 2, 3, False)


def build_victim(args):
    cfg, pragma = args
    try:
        from vyper.compiler import output
        from vyper.compiler.phases import CompilerData
        from vyper.compiler.settings import anchor_settings

        src = cc.victim_source(pragma)
        cd = CompilerData(src, settings=cfg.settings())
        with anchor_settings(cd.settings):
            res = {
                "bytecode": "0x" + cd.bytecode.hex(),
                "method_identifiers": output.build_method_identifiers_output(cd),
                "layout": json.loads(json.dumps(output.build_layout_output(cd))),
            }
            lay = res["layout"]
            lock_op, temp, final, transient = lock_consts(cfg.evm)
            key = "transient_storage_layout" if transient else "storage_layout"
            slot = lay[key]["$.nonreentrant_key"]["slot"]
            cfg_err = None
            try:
                if cfg.venom:
                    funcs = cg.venom_functions(cd.venom_runtime, lock_op, slot, temp, final)
                else:
                    blocks, roots = cg.legacy_functions(cd.ir_runtime, lock_op, slot, temp, final)
                    funcs = {name: cg.extract(blocks, r) for name, r in roots.items()}
                has, unknown = cg.resolve_calls(funcs)
                terms, names, st = [], [], {"functions": 0, "unknown_key_stores": unknown}
                for name, bl in funcs.items():
                    s = cg.stats(bl)
                    st["functions"] += 1
                    for k, v in s.items():
                        st[k] = st.get(k, 0) + v
                    terms.append(cg.coq_cfg(bl, cg.label(bl)))
                    names.append(name)
                res["cfg_terms"], res["cfg_names"], res["cfg_stats"] = terms, names, st
            except cg.Unclassifiable as e:
                cfg_err = str(e)
            res["cfg_error"] = cfg_err
        res["ok"] = True
        return res
    except Exception as e:  # compiler failure: reported by the caller
        return {"ok": False, "error": f"{type(e).__name__}: {e}", "trace": traceback.format_exc()[-2000:]}


def build_attacker(evm):
    return configs.compile_src(cc.ATTACKER, configs.Config(False, "gas", evm),
                               formats=("bytecode", "method_identifiers", "layout"))
