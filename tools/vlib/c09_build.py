"""C09: compile one victim contract under one configuration (worker process) and return plain data:
bytecode, selectors, layout and the exported CFGs (Coq terms + statistics)."""
import json
import traceback

from vlib import c09_cfg as cg
from vlib import c09_contracts as cc
from vlib import configs


def lock_consts(evm):
    tr = evm in ("cancun", "prague")
    return ("tstore", 1, 0, True) if tr else ("sstore", 2, 3, False)


def build_victim(args):
    cfg, pragma = args
    try:
        from vyper.compiler import output
        from vyper.compiler.phases import CompilerData
        from vyper.compiler.settings import anchor_settings

        import tempfile
        from pathlib import Path

        from vyper.compiler.input_bundle import FileInput, FilesystemInputBundle

        src, files = cc.victim_sources(pragma)
        tmp = Path(tempfile.mkdtemp(prefix="c09v_"))
        try:
            for k, v in files.items():
                (tmp / k).write_text(v)
            (tmp / "main.vy").write_text(src)
            fi = FileInput(contents=src, source_id=0, path=Path("main.vy"), resolved_path=tmp / "main.vy")
            cd = CompilerData(fi, input_bundle=FilesystemInputBundle([tmp]), settings=cfg.settings())
            with anchor_settings(cd.settings):
                _ = cd.bytecode   # run the whole pipeline while the module files exist
                _ = cd.venom_runtime if cfg.venom else cd.ir_runtime
        finally:
            import shutil
            shutil.rmtree(tmp, ignore_errors=True)
        with anchor_settings(cd.settings):
            res = {
                "bytecode": "0x" + cd.bytecode.hex(),
                "method_identifiers": output.build_method_identifiers_output(cd),
                "layout": json.loads(json.dumps(output.build_layout_output(cd))),
            }
            lay = res["layout"]
            lock_op, temp, final, transient = lock_consts(cfg.evm)
            key = "transient_storage_layout" if transient else "storage_layout"
            slot = lay[key]["$.nonreentrant_key"]["slot"]
            cfg_err = None
            try:
                if cfg.venom:
                    funcs = cg.venom_functions(cd.venom_runtime, lock_op, slot, temp, final)
                else:
                    blocks, roots = cg.legacy_functions(cd.ir_runtime, lock_op, slot, temp, final)
                    funcs = {name: cg.extract(blocks, r) for name, r in roots.items()}
                rich = cg.rich_program(funcs, legacy=not cfg.venom)     # printed before calls are resolved
                has, unknown = cg.resolve_calls(funcs)
                names, labs, st = [], [], {"functions": 0, "unknown_key_stores": unknown}
                for name, bl in funcs.items():
                    st["functions"] += 1
                    labs.append(cg.coq_labels(cg.label(bl)))
                    names.append(name)
                res["rich_program"] = rich
                res["rich_labels"] = "[" + ";\n ".join(labs) + "]"
                res["lock_cfg"] = f"(lockcfg_of {'true' if transient else 'false'} {slot})"
                res["cfg_names"], res["cfg_stats"] = names, st
            except cg.Unclassifiable as e:
                cfg_err = str(e)
            res["cfg_error"] = cfg_err
        res["ok"] = True
        return res
    except Exception as e:  # compiler failure: reported by the caller
        return {"ok": False, "error": f"{type(e).__name__}: {e}", "trace": traceback.format_exc()[-2000:]}


def build_attacker(evm):
    return configs.compile_src(cc.ATTACKER, configs.Config(False, "gas", evm),
                               formats=("bytecode", "method_identifiers", "layout"))
