"""C14S: cross-function disjointness of spill regions on REAL compiles.

Assumption made explicit (it is not covered by the per-function spiller theorems, whose slots are all >= the cursor of
ONE function): while a function f runs, the memory of every function that is active on the call chain (its transitive
callers: their static frames -- memory-passed arguments, locals live across the invoke -- and their spill slots) must
not be written by f's spills.  Defect c14s:spill-region-aliases-caller-frame: the cursor started at fn_eom[f].

FrameRecorder hooks StackSpiller._get_spill_slot (every slot actually handed out, per function) and
VenomCompiler.generate_evm_assembly (after code generation: static frames from ctx.mem_allocator, call graph from the
`invoke` instructions) and reports, per context:
  * a spill word of f inside f's own static frame,
  * a spill word of f inside the static frame of a transitive caller g of f,
  * a spill word of f equal to / overlapping a spill word of a transitive caller g.
Coq counterpart: FrameProofs.spill_regions_disjoint_across_calls (rule cursor = max(max fn_eom, peak_spill_end))."""

KEY = "c14s:spill-region-aliases-caller-frame"


def _overlap(a0, a1, b0, b1):
    return a0 < b1 and b0 < a1


class FrameRecorder:
    def __init__(self):
        self.bad = []
        self.n_fns = 0
        self.n_slots = 0

    def __enter__(self):
        from vyper.venom.stack_spiller import StackSpiller
        from vyper.venom.venom_to_assembly import VenomCompiler
        rec = self
        self._sp, self._vc = StackSpiller, VenomCompiler
        self._orig_get = StackSpiller._get_spill_slot
        self._orig_gen = VenomCompiler.generate_evm_assembly

        def get(sp, dry_run):
            off = rec._orig_get(sp, dry_run)
            if not dry_run:
                d = sp.__dict__.setdefault("_c14s_slots", {})
                d.setdefault(sp._current_function, set()).add(off)
            return off

        def gen(vc, *a, **k):
            vc.spiller.__dict__["_c14s_slots"] = {}
            r = rec._orig_gen(vc, *a, **k)
            try:
                rec._check_initial_fmp(vc, r)
                rec._check(vc)
            except Exception as e:  # noqa  (a checker failure must be visible, not silent)
                rec.bad.append({"problem": f"frame checker failed: {type(e).__name__}: {e}"})
            return r

        StackSpiller._get_spill_slot = get
        VenomCompiler.generate_evm_assembly = gen
        return self

    def __exit__(self, *a):
        self._sp._get_spill_slot = self._orig_get
        self._vc.generate_evm_assembly = self._orig_gen

    def _check_initial_fmp(self, vc, asm):
        """The dynamic-allocation region starts at the assembler constant __initial_fmp__ (the value `initial_fmp` reads) and
        only grows upwards (bump); it must therefore start at or above the end of every static frame and of every spill slot
        actually handed out in this context -- otherwise a dalloca'd buffer aliases a spilled stack value or a static
        allocation.  The constant is read from the EMITTED assembly, not recomputed."""
        consts = [x for x in asm if type(x).__name__ == "CONST" and getattr(x, "name", None) == "__initial_fmp__"]
        if not consts:
            return
        self.n_fmp_consts = getattr(self, "n_fmp_consts", 0) + 1
        fmp0 = consts[0].value
        alloc = vc.ctx.mem_allocator
        slots = vc.spiller.__dict__.get("_c14s_slots", {})
        for fn in vc.ctx.functions.values():
            for a in alloc.mems_used.get(fn, []):
                if not a.is_dynamic and a in alloc.allocated and alloc.allocated[a] + a.alloca_size > fmp0:
                    self.bad.append({"function": fn.name.value, "initial_fmp": fmp0,
                                     "aliases": f"static allocation [{alloc.allocated[a]},{alloc.allocated[a] + a.alloca_size}) lies above the initial FMP"})
            for off in slots.get(fn) or ():
                if off + 32 > fmp0:
                    self.bad.append({"function": fn.name.value, "initial_fmp": fmp0, "spill_slot": off,
                                     "aliases": "spill slot lies at or above the initial FMP: dynamic allocations (dalloca / bump) alias it"})

    def _check(self, vc):
        ctx = vc.ctx
        alloc = ctx.mem_allocator
        slots = vc.spiller.__dict__.get("_c14s_slots", {})
        fns = list(ctx.functions.values())
        self.n_fns += len(fns)
        self.n_slots += sum(len(v) for v in slots.values())
        if not any(slots.values()):
            return
        frames = {}
        for fn in fns:
            fr = []
            for a in alloc.mems_used.get(fn, []):
                if a.is_dynamic or a not in alloc.allocated:
                    continue
                fr.append((alloc.allocated[a], alloc.allocated[a] + a.alloca_size))
            frames[fn] = fr
        callers = {fn: set() for fn in fns}      # direct callers
        for g in fns:
            for bb in g.get_basic_blocks():
                for inst in bb.instructions:
                    if inst.opcode == "invoke":
                        callee = ctx.get_function(inst.operands[0])
                        if callee in callers:
                            callers[callee].add(g)
        for f in fns:
            mine = slots.get(f) or ()
            if not mine:
                continue
            anc, todo = set(), list(callers[f])
            while todo:
                g = todo.pop()
                if g not in anc and g is not f:
                    anc.add(g)
                    todo.extend(callers[g])
            for off in sorted(mine):
                for (lo, hi) in frames[f]:
                    if _overlap(off, off + 32, lo, hi):
                        self.bad.append({"function": f.name.value, "spill_slot": off, "aliases": f"own static frame [{lo},{hi})"})
                for g in anc:
                    for (lo, hi) in frames[g]:
                        if _overlap(off, off + 32, lo, hi):
                            self.bad.append({"function": f.name.value, "spill_slot": off, "caller": g.name.value,
                                             "aliases": f"static frame [{lo},{hi}) of a function active on the call chain"})
                    for o2 in slots.get(g) or ():
                        if _overlap(off, off + 32, o2, o2 + 32):
                            self.bad.append({"function": f.name.value, "spill_slot": off, "caller": g.name.value,
                                             "aliases": f"spill slot {o2} of a function active on the call chain"})
