"""C20/C03 guards: translate vyper.codegen.arithmetic.calculate_largest_power / calculate_largest_base to Gallina with
py2coq, abstracting the one non-integer line (the Decimal / math initial guess) into an extra parameter `guess`.
Adds to the base translator (in this subclass only): while loops (fuelled `while_loop` combinator from
coq/C20/Loop.v), `x in (c1, c2, ..)` on int constants, and short-circuit and/or whose later operands are partial."""
import ast
import textwrap

from vlib.py2coq import E, Translator, Ty, Unsupported, cname

FUEL = "LOOP_FUEL"


def is_float_guess(value):
    """an expression that leaves the integer subset through decimal / math"""
    for n in ast.walk(value):
        if isinstance(n, ast.Attribute) and isinstance(n.value, ast.Name) and n.value.id in ("decimal", "math"):
            return True
    return False


class LoopTranslator(Translator):
    def abstract_guess(self, fname):
        """Replace the single top-level assignment `v = <decimal/math expression>` by `v = guess` and add the
        parameter.  Fail closed if there is not exactly one such statement, or one hides elsewhere."""
        fdef = self.funcs[fname]
        hits = [s for s in fdef.body if isinstance(s, ast.Assign) and is_float_guess(s.value)]
        all_hits = [n for n in ast.walk(fdef) if isinstance(n, ast.Attribute) and isinstance(n.value, ast.Name)
                    and n.value.id in ("decimal", "math")]
        if len(hits) != 1:
            raise Unsupported(f"{fname}: expected exactly one top-level float guess, found {len(hits)}")
        inside = [n for n in ast.walk(hits[0]) if n in all_hits]
        if len(inside) != len(all_hits):
            raise Unsupported(f"{fname}: decimal/math used outside the guess statement")
        if not (len(hits[0].targets) == 1 and isinstance(hits[0].targets[0], ast.Name)):
            raise Unsupported(f"{fname}: guess target")
        src = ast.unparse(hits[0])
        hits[0].value = ast.Name(id="guess", ctx=ast.Load())
        fdef.args.args.append(ast.arg(arg="guess", annotation=ast.Name(id="int", ctx=ast.Load())))
        return src

    # ---- expressions
    def expr(self, node, env):
        if isinstance(node, ast.Compare) and len(node.ops) == 1 and isinstance(node.ops[0], (ast.In, ast.NotIn)) \
                and isinstance(node.comparators[0], ast.Tuple):
            l = self.as_z(self.expr(node.left, env))
            items = [self.as_z(self.expr(e, env)) for e in node.comparators[0].elts]
            if any(i.pre for i in items):
                raise Unsupported("partial expression in tuple membership")
            t = "(" + " || ".join(f"({l.text} =? {i.text})" for i in items) + ")"
            if isinstance(node.ops[0], ast.NotIn):
                t = f"(negb {t})"
            return E(t, Ty.B, l.pre)
        if isinstance(node, ast.BoolOp):
            vals = [self.expr(v, env) for v in node.values]
            if all(v.ty == Ty.B for v in vals) and any(v.pre for v in vals[1:]):
                # faithful short circuit: later operands are evaluated only if needed
                is_and = isinstance(node.op, ast.And)
                acc = None
                for v in reversed(vals):
                    inner = self.wrap_pre(v.pre, f"Ok {v.text}") if acc is None else None
                    if acc is None:
                        acc = inner
                    else:
                        k = f"(if {v.text} then\n{acc}\nelse Ok false)" if is_and else f"(if {v.text} then Ok true else\n{acc})"
                        acc = self.wrap_pre(v.pre, k)
                r = self.fresh("sc")
                return E(r, Ty.B, [(r, "(" + acc + ")")])
        return super().expr(node, env)

    # ---- while loops
    def loop(self, s, rest, env, ret_ty_box, tail):
        if s.orelse:
            raise Unsupported("while/else")
        if self.contains_return(s.body):
            raise Unsupported("return/raise inside while")
        for n in ast.walk(s):
            if isinstance(n, (ast.Break, ast.Continue)):
                raise Unsupported("break/continue")
        vars_ = [v for v in self.assigned_vars(s.body) if v in env]
        if not vars_:
            raise Unsupported("loop without loop-carried state")
        pat = cname(vars_[0]) if len(vars_) == 1 else "(" + ", ".join(cname(v) for v in vars_) + ")"
        st = self.fresh("st")
        unpack = (lambda body: f"(fun {pat} =>\n{body})") if len(vars_) == 1 else \
            (lambda body: f"(fun {st} => let '{pat} := {st} in\n{body})")
        c = self.as_b(self.expr(s.test, env))
        cond = unpack(self.wrap_pre(c.pre, f"Ok {c.text}"))

        def join(env_b):
            for v in vars_:
                if env_b.get(v) != env[v]:
                    raise Unsupported(f"loop variable {v} changes type")
            return f"Ok {pat}"
        body = unpack(self.block(s.body, env, {"ty": None}, join))
        after = self.block(rest, env, ret_ty_box, tail)
        bind = pat if len(vars_) == 1 else "'" + pat
        return f"{bind} <- while_loop {FUEL} {cond}\n{body}\n{pat} ;;\n{after}"


def generate():
    """Returns (coq text, {function: abstracted guess source line})."""
    tr = LoopTranslator("vyper.codegen.arithmetic")
    for f in ("calculate_largest_power", "calculate_largest_base"):
        tr.arg_types_hint[(f, "is_signed")] = Ty.B
    guesses = {}
    for f in ("calculate_largest_power", "calculate_largest_base"):
        guesses[f] = tr.abstract_guess(f)
        tr.translate_function(f)
    text = tr.render(header="From Verif Require Import C20.Loop.")
    return text, guesses
